#!/bin/bash
# One thorough pass over all checks (or those named in IDS="C02 C09 ..."), e.g. as a background run:
#   vp run -- env SEED=59 IDS="C07 C09" tools/thorough_pass.sh
source ./env.sh
./check --build-all >/dev/null 2>&1
for id in ${IDS:-C01 C02 C03 C04 C05 C06 C07 C08 C09 C10 C11 C12 C13 C14 C15 C16 C17 C18 C19 C20}; do
  ./check $id --tier thorough --seed ${SEED:-41} > out_$id.txt 2>&1; rc=$?
  grep -E "^C[0-9]+ tier|VIOLATION|KNOWN-FINDING|INFRA" out_$id.txt | cut -c1-300
  echo "$id rc=$rc"
done
