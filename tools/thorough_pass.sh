#!/bin/bash
source ./env.sh
./check --build-all >/dev/null 2>&1
for i in 01 02 03 04 05 06 07 08 09 10 11 12 13 14 15 16 17 18 19 20; do
  ./check C$i --tier thorough --seed ${SEED:-41} > out_C$i.txt 2>&1; rc=$?
  grep -E "^C[0-9]+ tier|VIOLATION|KNOWN-FINDING|INFRA" out_C$i.txt | cut -c1-300
  echo "C$i rc=$rc"
done
