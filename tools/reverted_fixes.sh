#!/bin/bash
# Reverts each "fix:" commit of /repo in a scratch worktree (tools/sens.sh -R:<commit>) and runs
# the checks that found the defect, at the quick tier. One block of lines per (fix, check).
# A later fix may have rewritten the same lines; then the old commit no longer reverts cleanly
# ("cannot revert") - such a repair can only be reverted together with its successor.
cd /verif
r() { c=$1; shift; for k in "$@"; do timeout 1800 tools/sens.sh $k -R:$c | head -2 | cut -c1-220; done; }
r eaa2135 C03 C05
r 71ed7d1 C18
r 5861c3a C17 C09
r 3753991 C09 C17
r 23085a7 C10 C13
r b45cdd4 C09
r 6263c21 C12
r 40b3613 C14
r 0874390 C17
r 947e3a2 C01 C13
r 052f2db C05
r dbe502c C16
r fcd62f4 C16
r 637c8b8 C20
r 2a5c907 C19
r 8756407 C06
r 587d417 C06 C13
r 156a3b7 C11
r 23e6727 C05
r 1a16f8b C14
r 1db7987 C15
r 21fcabc C09
r 5d2bf67 C04
r 855f1fc C13 C17
r 09280b5 C15
r 090679a C11
r 7d87d06 C20
r 7b33c0c C14
r 5c68a4a C14 C07
r 6169035 C15
r 2566766 C01
r 54f1cce C03
r c069836 C06
r e1d5cd1 C16
r c6ba349 C01
echo REVDONE
