#!/bin/bash
# usage: tools/sens.sh <check-id> <patch-file | -R:<commit>> [extra check args]
# Applies a change to /repo's working tree, runs the check, restores /repo.
set -u
id=$1; what=$2; shift 2
cd /repo || exit 2
if [ -n "$(git status --porcelain)" ]; then echo "repo dirty"; exit 2; fi
if [[ "$what" == -R:* ]]; then
  git show "${what#-R:}" | git apply -R || { echo "cannot revert"; git checkout -- .; exit 2; }
else
  git apply "$what" || { echo "cannot apply"; git checkout -- .; exit 2; }
fi
cd /verif
timeout 1800 ./check "$id" "$@" > /tmp/sens.$$.out 2>&1
rc=$?
git -C /repo checkout -- . ; git -C /repo clean -fdq -- . 2>/dev/null
echo "== $id on $what: exit=$rc"
grep -E "^violation class|^KNOWN-FINDING|^INFRA" /tmp/sens.$$.out | cut -c1-260 | head -8
rm -f /tmp/sens.$$.out
# evidence files were rewritten by a run on a modified tree: restore them
git -C /verif checkout -- evidence 2>/dev/null
exit 0
