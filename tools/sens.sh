#!/bin/bash
# usage: tools/sens.sh <check-id> <patch-file | -R:<commit>> [extra check args]
# Applies a change in a scratch worktree of /repo HEAD (outside /repo and /verif), runs the
# check against that tree (VERIF_REPO), removes the worktree. /repo itself is never touched,
# evidence and replays of such runs go to scratch directories.
set -u
export VERIF_STALL_S=${VERIF_STALL_S:-90}   # seeded changes may make a worker spin: do not wait ten minutes for each
id=$1; what=$2; shift 2
wt=/tmp/sens-wt-$$
git -C /repo worktree add -q --detach $wt HEAD || exit 2
cleanup() { git -C /repo worktree remove --force $wt >/dev/null 2>&1; rm -rf /tmp/sens-verif-$$; }
trap cleanup EXIT
if [[ "$what" == -R:* ]]; then
  git -C /repo show "${what#-R:}" | git -C $wt apply -R || { echo "cannot revert"; exit 2; }
else
  git -C $wt apply "$(realpath "$what")" || { echo "cannot apply"; exit 2; }
fi
# run from a scratch copy of the driver so that evidence/ and replays/ of /verif stay untouched
mkdir -p /tmp/sens-verif-$$
cd /verif
for f in check checks.json KNOWN_FINDINGS.json; do ln -s /verif/$f /tmp/sens-verif-$$/$f; done
ln -s /verif/sim /tmp/sens-verif-$$/sim
mkdir -p /tmp/sens-verif-$$/.build; ln -sf /verif/.build/ident-cache.json /tmp/sens-verif-$$/.build/ident-cache.json 2>/dev/null
cd /tmp/sens-verif-$$
VERIF_REPO=$wt timeout 1800 python3 ./check "$id" "$@" > out.txt 2>&1
rc=$?
echo "== $id on $what: exit=$rc"
grep -E "^violation class|^KNOWN-FINDING|^INFRA" out.txt | cut -c1-260 | head -8
exit 0
