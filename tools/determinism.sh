#!/bin/bash
# Determinism self-test (DESIGN.md 8.1 / 10.5).
# For one check: the same `runs` run indices (same VERIF_SEED) are executed by 96 separate OS
# processes - for each worker count NumCPU in {1,2,4} (the swarm knob that is recorded in every
# replay file, so it is held fixed inside a comparison) one round of 32 concurrent processes on
# the 16 cores (so that they compete for the machine; wall-clock dependence shows under load):
# 24 with GOMAXPROCS=1 (the registered configuration) pinned to different physical CPUs, plus 4
# each with GOMAXPROCS=4 and GOMAXPROCS=16 (informational: the registered commands never use
# them). Per-run event-log hashes, tape lengths and violation classes are compared.
# usage: tools/determinism.sh <ID> [runs] [seed]
# exit 0 = the registered configuration (GOMAXPROCS=1) never diverged; 1 = it diverged.
id=$1; runs=${2:-160}; seed=${3:-11}
cd /verif
. ./env.sh
lc=$(echo $id | tr A-Z a-z)
./check $id --build-only >/dev/null 2>&1   # make sure the binary is current (no evidence is written)
d=$(mktemp -d /tmp/det-$id-XXXX)
total=$(nproc)
n=0
launch() { # ncpu gmp tag
  local ncpu=$1 gmp=$2 tag=$3 first=$(( (n * 3) % total )) list=""
  n=$((n+1))
  for ((i=0;i<ncpu;i++)); do list="$list,$(( (first + i) % total ))"; done
  list=${list#,}
  mkdir -p $d/w-$tag
  ( cd $d/w-$tag && GOMAXPROCS=$gmp GODEBUG=asyncpreemptoff=1 VERIF_SEED=$seed VERIF_TIER=quick VERIF_RUNS=$runs VERIF_SHARD=0/1 \
    VERIF_DUMP_HASHES=$d/h-$tag.txt VERIF_OUT=$d/o-$tag.json VERIF_STDERR=$d/e-$tag.txt VERIF_REPLAY_DIR=$d/w-$tag \
    VERIF_IDENT_CACHE=/verif/.build/ident-cache.json VERIF_NO_MINIMISE=1 \
    taskset -c $list /verif/.build/$lc.test -test.run '^TestCheck$' -test.timeout 0 >/dev/null 2>&1 ) &
}
for ncpu in 1 2 4; do
  for rep in a b c d e f g h i j k l m n o p q r s t u v w x; do launch $ncpu 1 n$ncpu-g1-$rep; done
  for rep in a b c d; do launch $ncpu 4 n$ncpu-g4-$rep; done
  for rep in a b c d; do launch $ncpu 16 n$ncpu-g16-$rep; done
  wait
done
bad1=0; badN=0; lines=0
for ncpu in 1 2 4; do
  ref=$d/h-n$ncpu-g1-a.txt
  [ -s $ref ] || { echo "$id: no hash dump for NumCPU=$ncpu"; bad1=$((bad1+1)); continue; }
  lines=$((lines + $(wc -l < $ref)))
  for f in $d/h-n$ncpu-g1-*.txt; do
    if ! cmp -s $ref $f; then bad1=$((bad1+1)); echo "DIVERGED (GOMAXPROCS=1): $f"; diff $ref $f | head -4; fi
  done
  for f in $d/h-n$ncpu-g4-*.txt $d/h-n$ncpu-g16-*.txt; do
    if ! cmp -s $ref $f; then badN=$((badN+1)); echo "differs (GOMAXPROCS>1, informational): $(basename $f): $(diff $ref $f | grep -c '^<') of $(wc -l < $ref) runs"; fi
  done
done
echo "DET $id seed=$seed: $lines run-hashes compared across 96 processes; GOMAXPROCS=1 diverging processes: $bad1 of 72; GOMAXPROCS 4/16 differing processes: $badN of 24"
rm -rf $d
[ $bad1 -eq 0 ]
