#!/bin/bash
# Determinism self-test (DESIGN.md 8.1): for a check, run N seeds twice under GOMAXPROCS 1, 4, 16
# (separate processes, different CPU pinning) and compare per-run event-log hashes and tape lengths.
# usage: tools/determinism.sh <ID> [runs]
id=$1; runs=${2:-40}
cd /verif
lc=$(echo $id | tr A-Z a-z)
./check $id --runs 1 >/dev/null 2>&1   # make sure the binary is current
d=/tmp/det-$id-$$; mkdir -p $d
n=0
for gmp in 1 4 16; do for rep in a b; do
  n=$((n+1))
  cpus=$(( (n % 3) + 1 ))
  ( cd $d && GOMAXPROCS=$gmp GODEBUG=asyncpreemptoff=1 VERIF_SEED=11 VERIF_RUNS=$runs VERIF_DUMP_HASHES=$d/h-$gmp-$rep.txt \
    VERIF_OUT=$d/o-$gmp-$rep.json VERIF_REPLAY_DIR=$d VERIF_IDENT_CACHE=/verif/.build/ident-cache.json VERIF_MAX_CLASSES=100000 VERIF_KNOWN="$(printf 'x')" \
    taskset -c 0-$((cpus*4-1)) /verif/.build/$lc.test -test.run '^TestCheck$' -test.timeout 0 >/dev/null 2>&1 ) &
done; done
wait
ref=$d/h-1-a.txt
bad=0
for f in $d/h-*.txt; do
  if ! cmp -s $ref $f; then bad=$((bad+1)); echo "DIVERGED: $f"; diff $ref $f | head -5; fi
done
echo "$id: $(wc -l < $ref) runs x 6 processes (GOMAXPROCS 1,4,16 twice, NumCPU 4/8/12), diverging processes: $bad"
rm -rf $d
