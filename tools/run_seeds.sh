#!/bin/bash
# Runs every kept seeded change against the first check that is recorded to catch it
# (scratch worktree per change, /repo untouched) and prints one line per change.
# usage: [JOBS=n] tools/run_seeds.sh [name-pattern]
cd /verif
pat=${1:-.}
one() {
  d=$1; n=$(basename $d)
  if [ "$(jq -r '.superseded // empty | length' $d/meta.json)" != "" ]; then
    # a later repair of /repo made the tree robust against this change: its demonstration passes
    # again, it is no longer a change that breaks the property (kept for the record)
    still=$(jq -r '.superseded.still_reported_by | join(",")' $d/meta.json)
    echo "SUPERSEDED $n (since $(jq -r '.superseded.since_repo_commit' $d/meta.json)${still:+; still reported by $still})"; return
  fi
  c=$(jq -r '.caught_by[0]' $d/meta.json)
  out=$(timeout 2400 tools/sens.sh $c $d/patch.diff 2>&1)
  rc=$(echo "$out" | sed -n 's/^== .* exit=\([0-9]*\)$/\1/p')
  cls=$(echo "$out" | sed -n 's/^violation class=\([^ ]*\) .*/\1/p' | head -2 | tr '\n' ' ')
  if [ "$rc" = "1" ]; then echo "CAUGHT  $n by $c: $cls"; else echo "MISSED  $n by $c (exit=$rc) $(echo "$out" | grep -m1 -E 'cannot apply|INFRA' | cut -c1-120)"; fi
}
export -f one
ls -d seeded/*/ | sed 's#/$##' | grep -- "$pat" | xargs -P ${JOBS:-1} -I{} bash -c 'one {}' | sort -k2 > /tmp/run_seeds.$$
cat /tmp/run_seeds.$$
echo "seeded changes caught: $(grep -c '^CAUGHT' /tmp/run_seeds.$$), missed: $(grep -c '^MISSED' /tmp/run_seeds.$$), superseded by later repairs: $(grep -c '^SUPERSEDED' /tmp/run_seeds.$$)"
rm -f /tmp/run_seeds.$$
