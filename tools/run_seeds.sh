#!/bin/bash
# Runs every kept seeded change against the first check that is recorded to catch it
# (scratch worktree per change, /repo untouched) and prints one line per change.
# usage: tools/run_seeds.sh [name-pattern]
cd /verif
pat=${1:-.}
ok=0; bad=0
for d in seeded/*/; do
  n=$(basename $d)
  echo "$n" | grep -q -- "$pat" || continue
  c=$(jq -r '.caught_by[0]' $d/meta.json)
  out=$(timeout 2400 tools/sens.sh $c $d/patch.diff 2>&1)
  rc=$(echo "$out" | sed -n 's/^== .* exit=\([0-9]*\)$/\1/p')
  cls=$(echo "$out" | sed -n 's/^violation class=\([^ ]*\) .*/\1/p' | head -2 | tr '\n' ' ')
  if [ "$rc" = "1" ]; then ok=$((ok+1)); echo "CAUGHT  $n by $c: $cls"; else bad=$((bad+1)); echo "MISSED  $n by $c (exit=$rc)"; fi
done
echo "seeded changes caught: $ok, missed: $bad"
