#!/usr/bin/env python3
"""Keep a confirmed seeded change under /verif/seeded/<name>/ (patch.diff, demonstration, meta.json)."""
import json, os, shutil, subprocess, sys
src, name, prop, needs, caught, cls, note = sys.argv[1:8]
dst = os.path.join("/verif/seeded", name)
os.makedirs(dst, exist_ok=True)
for f in ("patch.diff", "zz_demo_test.go", "demo_pkg.txt", "notes.md"):
    if os.path.exists(os.path.join(src, f)):
        shutil.copy(os.path.join(src, f), os.path.join(dst, f))
conf = subprocess.run(["/verif/tools/confirm_seed.sh", dst], capture_output=True, text=True).stdout.strip().splitlines()[0]
meta = {
    "breaks_property": prop,
    "origin": "fresh sub-agent given only the property text and a scratch worktree",
    "needs_to_manifest": needs,
    "confirmed_in_scratch_worktree": json.loads(conf),
    "confirm_command": "tools/confirm_seed.sh seeded/%s  (demo without change passes; with change: build ok, existing suite passes, demo fails)" % name,
    "check_command": "tools/sens.sh %s seeded/%s/patch.diff" % (caught.split(",")[0], name),
    "caught_by": caught.split(","),
    "violation_class": cls,
    "note": note,
}
json.dump(meta, open(os.path.join(dst, "meta.json"), "w"), indent=1)
print(name, conf)
