#!/bin/bash
# usage: tools/confirm_seed.sh <seed-dir> ; seed-dir holds patch.diff, zz_demo_test.go, demo_pkg.txt
# Confirms in a scratch worktree of /repo HEAD: demo passes without the change; with the change the
# module builds, the existing suite passes, and the demo fails. Prints a JSON summary.
d=$(realpath "$1"); pkg=$(cat "$d/demo_pkg.txt" | tr -d ' \n' | sed 's#^\./##; s#/$##')
wt=/tmp/confirm-$$
export GOFLAGS=-mod=mod GOPROXY=off
git -C /repo worktree add -q --detach $wt HEAD || exit 2
trap 'git -C /repo worktree remove --force '$wt' >/dev/null 2>&1' EXIT
cp "$d/zz_demo_test.go" "$wt/$pkg/zz_demo_test.go"
cd $wt
go test -mod=mod -vet=off -count=1 -run TestSeededDemo ./$pkg/ > /tmp/confirm-$$.a 2>&1; without=$?
git apply "$d/patch.diff" || { echo '{"error":"patch does not apply"}'; exit 2; }
go build ./... > /tmp/confirm-$$.b 2>&1; build=$?
mv "$pkg/zz_demo_test.go" /tmp/confirm-$$.demo
# The pinned suite has flaky tests on the unchanged tree (m TestTable ~7 %, mgr timing tests):
# a failing run is repeated up to three times; "passes" = one complete green run.
for attempt in 1 2 3 4; do
  go test -mod=mod -vet=off -count=1 ./... > /tmp/confirm-$$.c 2>&1; suite=$?
  [ $suite -eq 0 ] && break
done
cp /tmp/confirm-$$.demo "$pkg/zz_demo_test.go"
go test -mod=mod -vet=off -count=1 -run TestSeededDemo ./$pkg/ > /tmp/confirm-$$.d 2>&1; with=$?
echo "{\"demo_without_change_exit\": $without, \"build_with_change_exit\": $build, \"suite_with_change_exit\": $suite, \"demo_with_change_exit\": $with}"
[ $suite -ne 0 ] && tail -5 /tmp/confirm-$$.c
rm -f /tmp/confirm-$$.*
