#!/usr/bin/env python3
"""Generate /verif/MANIFEST.json from checks.json (single source of per-check metadata)."""
import json, os, subprocess
ROOT = os.path.dirname(os.path.dirname(os.path.abspath(__file__)))
checks = json.load(open(os.path.join(ROOT, "checks.json")))
props = [json.loads(l)["id"] for l in open(os.path.join(ROOT, "properties.jsonl")) if l.strip()]
hook_commits = []
try:
    out = subprocess.run(["git", "-C", "/repo", "log", "--format=%H %s"], capture_output=True, text=True).stdout
    for l in out.splitlines():
        h, s = l.split(" ", 1)
        if s.startswith("verif hook:"):
            hook_commits.append(h)
except Exception:
    pass
man = {
    "version": 1,
    "setup_cmd": "cd /verif && ./check --build-all",
    "hooks": {
        "guard": "verif",
        "enable": "go test -tags verif (checks are test binaries of module /verif/sim with replace => /repo; every binary is built with a generated -overlay that changes four things in the Go runtime of the test binaries only (no wall-clock time slice, no periodic look at the global run queue, one fixed-seed state for the runtime's own random generators that is put back to its start value before every execution of a run, a stream of its own for the order of timers due at one fake instant; see DESIGN.md 3.2 and 10.5) and, for C03, C05, C08-C11 and C13-C20 (the list per check is the overlay entry in checks.json), rewrites import paths of os / sync / sync/atomic / net in storage, state, frame, peering, m, router, switchr, api/dns to the shims under /verif/sim (simos, simsync, simatomic, simsyncd, simtcp); /repo's files are never changed by it)",
        "baseline_off_cmd": "cd /repo && go test -mod=mod -json -vet=off -count=1 -timeout 25m ./...",
        "source_commits": hook_commits,
        "add_only": True,
    },
    "engines": [{
        "name": "mycosim",
        "path": "/verif/sim",
        "serves_properties": [p for p in props if p in checks and not checks[p].get("not_applicable")],
        "kind_free_text": "deterministic simulation with fault injection: seeded choice tape decides every schedule/fault/input choice; runs inside testing/synctest bubbles (fake clock, quiescence stepping) with crypto/rand pinned; simulated links, connections, disk; tape minimisation and exact replay",
    }],
    "checks": [],
    "not_applicable": [],
    "notes": "Exit codes: 0 held, 1 VIOLATION (new), 2 infrastructure. KNOWN_FINDINGS.json lists recorded and fixed defects. See DESIGN.md.",
}
for p in props:
    c = checks.get(p)
    if not c or c.get("not_applicable"):
        man["not_applicable"].append({"property_id": p, "reason": (c or {}).get("not_applicable", "no check built yet in this session; see DESIGN.md section 4 for the plan")})
        continue
    man["checks"].append({
        "property_id": p,
        "quick_cmd": "./check %s --tier quick" % p,
        "thorough_cmd": "./check %s --tier thorough" % p,
        "evidence_file": "/verif/evidence/%s.json" % p,
        "replay_cmd_template": "./check %s --replay {path}" % p,
        "engine": "mycosim",
        "level_claimed": {"category": c["level"], "text": c.get("level_text", c["rule"]), "design_ref": c.get("design_ref", "DESIGN.md section 4, " + p)},
        "level_note": "; ".join(c.get("assumptions", [])) or "see DESIGN.md",
        "technique": c.get("technique", "deterministic simulation with fault injection"),
    })
json.dump(man, open(os.path.join(ROOT, "MANIFEST.json"), "w"), indent=1)
print("checks:", [c["property_id"] for c in man["checks"]], "n/a:", len(man["not_applicable"]))
