#!/bin/bash
# Coverage experiment (not part of any registered command): which statements of /repo do the
# checks execute at the given tier? Builds every check with -cover -coverpkg=mycoria/..., runs it
# from a scratch copy of the driver directory (evidence/ and replays/ of /verif stay untouched),
# merges the shard profiles and prints per-function coverage of the whole module.
# usage: tools/coverage.sh [tier] [check ids...]   -> /verif/reports/coverage-<tier>.txt
set -u
tier=${1:-quick}; shift
ids=${*:-$(seq -f 'C%02g' 1 20)}
. /verif/env.sh
cov=/tmp/cov-$$; scratch=/tmp/cov-verif-$$
mkdir -p $cov $scratch/.build /verif/reports
for f in check checks.json KNOWN_FINDINGS.json sim; do ln -s /verif/$f $scratch/$f; done
ln -sf /verif/.build/ident-cache.json $scratch/.build/ident-cache.json 2>/dev/null
cd $scratch
for id in $ids; do
  VERIF_COVER=$cov python3 ./check $id --tier $tier > $scratch/$id.log 2>&1
  echo "$id exit=$? $(tail -1 $scratch/$id.log | cut -c1-100)"
done
python3 - $cov > $cov/merged.out <<'PY'
import sys,glob
seen={}
for f in sorted(glob.glob(sys.argv[1]+'/*.out')):
    for l in open(f):
        if l.startswith('mode:'): continue
        k,c=l.rsplit(' ',1)
        seen[k]=max(seen.get(k,0),int(c))
print('mode: set')
for k in sorted(seen): print(k,seen[k])
PY
cd /verif/sim && $GO tool cover -func=$cov/merged.out > /verif/reports/coverage-$tier.txt
cp $cov/merged.out /verif/reports/coverage-$tier.profile
tail -1 /verif/reports/coverage-$tier.txt
rm -rf $cov $scratch
