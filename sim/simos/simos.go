// Package simos is a drop-in for the subset of package os that a state-file
// writer plausibly uses, backed by an in-memory disk with an operation journal
// and crash injection. Fault model: process kill - every completed operation
// persists; the interrupted write persists an arbitrary prefix; nothing else.
//
// It is linked into /repo's storage package through a build-time overlay that
// rewrites only the import path "os".
package simos

import (
	"errors"
	"fmt"
	"io"
	"io/fs"
	"os"
	"path/filepath"
	"sort"
	"strings"
	"sync"
	"time"
)

// Re-exported constants and errors (identical values to package os).
const (
	O_RDONLY = os.O_RDONLY
	O_WRONLY = os.O_WRONLY
	O_RDWR   = os.O_RDWR
	O_APPEND = os.O_APPEND
	O_CREATE = os.O_CREATE
	O_EXCL   = os.O_EXCL
	O_SYNC   = os.O_SYNC
	O_TRUNC  = os.O_TRUNC

	ModePerm      = fs.ModePerm
	ModeDir       = fs.ModeDir
	PathSeparator = os.PathSeparator
)

var (
	ErrNotExist         = fs.ErrNotExist
	ErrExist            = fs.ErrExist
	ErrPermission       = fs.ErrPermission
	ErrClosed           = fs.ErrClosed
	ErrInvalid          = fs.ErrInvalid
	ErrDeadlineExceeded = os.ErrDeadlineExceeded
)

type (
	FileMode  = fs.FileMode
	FileInfo  = fs.FileInfo
	PathError = fs.PathError
	LinkError = os.LinkError
	DirEntry  = fs.DirEntry
)

// Crashed is the panic value thrown at the injected crash point.
type Crashed struct {
	Op     int
	Offset int
}

// Op is one journal entry.
type Op struct {
	Kind string // create, trunc, write, sync, close, rename, remove, chmod, mkdir, syncdir
	Path string
	To   string
	Off  int64
	Len  int
}

type inode struct {
	data []byte
	mode fs.FileMode
	mod  time.Time
}

// Disk is the simulated disk.
type Disk struct {
	mu      sync.Mutex
	files   map[string]*inode
	dirs    map[string]bool
	Journal []Op
	tmpSeq  int

	crashOp  int // journal index at which to crash (-1 = never)
	crashOff int // for writes: bytes that persist
	// ErrAt injects an error instead of performing op #ErrAt (-1 = never).
	ErrAt  int
	ErrVal error
}

var disk = NewDisk()

// NewDisk returns an empty disk.
func NewDisk() *Disk {
	return &Disk{files: map[string]*inode{}, dirs: map[string]bool{"/": true}, crashOp: -1, ErrAt: -1}
}

// Reset replaces the global disk by an empty one and returns it.
func Reset() *Disk {
	disk = NewDisk()
	return disk
}

// Current returns the global disk.
func Current() *Disk { return disk }

// Clone copies the disk image (journal reset, no crash armed).
func (d *Disk) Clone() *Disk {
	d.mu.Lock()
	defer d.mu.Unlock()
	n := NewDisk()
	for k, v := range d.files {
		n.files[k] = &inode{data: append([]byte(nil), v.data...), mode: v.mode, mod: v.mod}
	}
	for k := range d.dirs {
		n.dirs[k] = true
	}
	n.tmpSeq = d.tmpSeq
	return n
}

// Use makes d the global disk.
func Use(d *Disk) { disk = d }

// ArmCrash makes the disk panic with Crashed when journal entry #op is about
// to be performed; if that entry is a write, the first off bytes persist.
func (d *Disk) ArmCrash(op, off int) {
	d.mu.Lock()
	d.crashOp, d.crashOff = op, off
	d.mu.Unlock()
}

// Disarm removes any armed crash or error.
func (d *Disk) Disarm() {
	d.mu.Lock()
	d.crashOp = -1
	d.ErrAt = -1
	d.mu.Unlock()
}

// Files lists the file names on the disk (sorted).
func (d *Disk) Files() []string {
	d.mu.Lock()
	defer d.mu.Unlock()
	var out []string
	for k := range d.files {
		out = append(out, k)
	}
	sort.Strings(out)
	return out
}

// Content returns a copy of a file's bytes.
func (d *Disk) Content(name string) ([]byte, bool) {
	d.mu.Lock()
	defer d.mu.Unlock()
	f, ok := d.files[clean(name)]
	if !ok {
		return nil, false
	}
	return append([]byte(nil), f.data...), true
}

// Put stores a file directly (harness set-up; not journalled).
func (d *Disk) Put(name string, data []byte) {
	d.mu.Lock()
	defer d.mu.Unlock()
	d.files[clean(name)] = &inode{data: append([]byte(nil), data...), mode: 0o644}
}

func clean(name string) string {
	if !filepath.IsAbs(name) {
		name = "/cwd/" + name
	}
	return filepath.Clean(name)
}

// step journals an operation and fires an armed crash/error. Called with mu held.
// It returns (persistPrefix, crash, err): for a crashing write persistPrefix
// tells how many bytes to apply before panicking.
func (d *Disk) step(op Op) (int, bool, error) {
	idx := len(d.Journal)
	d.Journal = append(d.Journal, op)
	if idx == d.ErrAt {
		return 0, false, d.ErrVal
	}
	if idx == d.crashOp {
		return d.crashOff, true, nil
	}
	return 0, false, nil
}

func (d *Disk) crash(idx, off int) {
	d.mu.Unlock()
	panic(Crashed{Op: idx, Offset: off})
}

// ---- file handle ----

// File is an open file.
type File struct {
	d      *Disk
	name   string
	ino    *inode
	pos    int64
	flag   int
	closed bool
}

func (d *Disk) open(name string, flag int, perm fs.FileMode) (*File, error) {
	p := clean(name)
	d.mu.Lock()
	defer d.mu.Unlock()
	ino, ok := d.files[p]
	if d.dirs[p] {
		return &File{d: d, name: p, flag: flag}, nil
	}
	if !ok {
		if flag&O_CREATE == 0 {
			return nil, &fs.PathError{Op: "open", Path: name, Err: ErrNotExist}
		}
		off, cr, err := d.step(Op{Kind: "create", Path: p})
		if err != nil {
			return nil, &fs.PathError{Op: "open", Path: name, Err: err}
		}
		if cr {
			panic(Crashed{Op: len(d.Journal) - 1, Offset: off}) // deferred unlock runs
		}
		ino = &inode{mode: perm}
		d.files[p] = ino
	} else {
		if flag&O_CREATE != 0 && flag&O_EXCL != 0 {
			return nil, &fs.PathError{Op: "open", Path: name, Err: ErrExist}
		}
		if flag&O_TRUNC != 0 && flag&(O_WRONLY|O_RDWR) != 0 {
			off, cr, err := d.step(Op{Kind: "trunc", Path: p})
			if err != nil {
				return nil, &fs.PathError{Op: "open", Path: name, Err: err}
			}
			if cr {
				panic(Crashed{Op: len(d.Journal) - 1, Offset: off}) // deferred unlock runs
			}
			ino.data = nil
		}
	}
	return &File{d: d, name: p, ino: ino, flag: flag}, nil
}

// OpenFile mirrors os.OpenFile.
func OpenFile(name string, flag int, perm FileMode) (*File, error) {
	return disk.open(name, flag, perm)
}

// Open mirrors os.Open.
func Open(name string) (*File, error) { return disk.open(name, O_RDONLY, 0) }

// Create mirrors os.Create.
func Create(name string) (*File, error) { return disk.open(name, O_RDWR|O_CREATE|O_TRUNC, 0o666) }

// CreateTemp mirrors os.CreateTemp.
func CreateTemp(dir, pattern string) (*File, error) {
	if dir == "" {
		dir = TempDir()
	}
	prefix, suffix := pattern, ""
	if i := strings.LastIndex(pattern, "*"); i >= 0 {
		prefix, suffix = pattern[:i], pattern[i+1:]
	}
	for {
		disk.mu.Lock()
		disk.tmpSeq++
		n := disk.tmpSeq
		disk.mu.Unlock()
		name := filepath.Join(dir, fmt.Sprintf("%s%09d%s", prefix, n, suffix))
		f, err := disk.open(name, O_RDWR|O_CREATE|O_EXCL, 0o600)
		if errors.Is(err, ErrExist) {
			continue
		}
		return f, err
	}
}

// TempDir mirrors os.TempDir.
func TempDir() string { return "/tmp" }

// Name returns the file name.
func (f *File) Name() string { return f.name }

func (f *File) write(b []byte, at int64, advance bool) (int, error) {
	if f.closed {
		return 0, ErrClosed
	}
	if f.ino == nil || f.flag&(O_WRONLY|O_RDWR) == 0 {
		return 0, &fs.PathError{Op: "write", Path: f.name, Err: ErrPermission}
	}
	d := f.d
	d.mu.Lock()
	if f.flag&O_APPEND != 0 {
		at = int64(len(f.ino.data))
	}
	n := len(b)
	off, cr, err := d.step(Op{Kind: "write", Path: f.name, Off: at, Len: len(b)})
	if err != nil {
		d.mu.Unlock()
		return 0, &fs.PathError{Op: "write", Path: f.name, Err: err}
	}
	if cr {
		if off > n {
			off = n
		}
		n = off
	}
	end := at + int64(n)
	if int64(len(f.ino.data)) < end {
		f.ino.data = append(f.ino.data, make([]byte, end-int64(len(f.ino.data)))...)
	}
	copy(f.ino.data[at:end], b[:n])
	if cr {
		d.crash(len(d.Journal)-1, off)
	}
	if advance {
		f.pos = end
	}
	d.mu.Unlock()
	return n, nil
}

// Write mirrors (*os.File).Write.
func (f *File) Write(b []byte) (int, error) { return f.write(b, f.pos, true) }

// WriteString mirrors (*os.File).WriteString.
func (f *File) WriteString(s string) (int, error) { return f.write([]byte(s), f.pos, true) }

// WriteAt mirrors (*os.File).WriteAt.
func (f *File) WriteAt(b []byte, off int64) (int, error) { return f.write(b, off, false) }

// Read mirrors (*os.File).Read.
func (f *File) Read(b []byte) (int, error) {
	if f.closed {
		return 0, ErrClosed
	}
	if f.ino == nil {
		return 0, &fs.PathError{Op: "read", Path: f.name, Err: errors.New("is a directory")}
	}
	f.d.mu.Lock()
	defer f.d.mu.Unlock()
	if f.pos >= int64(len(f.ino.data)) {
		return 0, io.EOF
	}
	n := copy(b, f.ino.data[f.pos:])
	f.pos += int64(n)
	return n, nil
}

// ReadAt mirrors (*os.File).ReadAt.
func (f *File) ReadAt(b []byte, off int64) (int, error) {
	f.d.mu.Lock()
	defer f.d.mu.Unlock()
	if f.ino == nil || off >= int64(len(f.ino.data)) {
		return 0, io.EOF
	}
	n := copy(b, f.ino.data[off:])
	if n < len(b) {
		return n, io.EOF
	}
	return n, nil
}

// Seek mirrors (*os.File).Seek.
func (f *File) Seek(offset int64, whence int) (int64, error) {
	f.d.mu.Lock()
	defer f.d.mu.Unlock()
	switch whence {
	case io.SeekStart:
		f.pos = offset
	case io.SeekCurrent:
		f.pos += offset
	case io.SeekEnd:
		f.pos = int64(len(f.ino.data)) + offset
	}
	if f.pos < 0 {
		f.pos = 0
		return 0, ErrInvalid
	}
	return f.pos, nil
}

func (f *File) simple(kind string) error {
	if f.closed {
		return ErrClosed
	}
	d := f.d
	d.mu.Lock()
	off, cr, err := d.step(Op{Kind: kind, Path: f.name})
	if cr {
		d.crash(len(d.Journal)-1, off)
	}
	d.mu.Unlock()
	if err != nil {
		return &fs.PathError{Op: kind, Path: f.name, Err: err}
	}
	return nil
}

// Sync mirrors (*os.File).Sync.
func (f *File) Sync() error {
	if f.ino == nil {
		return f.simple("syncdir")
	}
	return f.simple("sync")
}

// Close mirrors (*os.File).Close.
func (f *File) Close() error {
	if err := f.simple("close"); err != nil {
		return err
	}
	f.closed = true
	return nil
}

// Chmod mirrors (*os.File).Chmod.
func (f *File) Chmod(mode FileMode) error {
	if err := f.simple("chmod"); err != nil {
		return err
	}
	if f.ino != nil {
		f.ino.mode = mode
	}
	return nil
}

// Truncate mirrors (*os.File).Truncate.
func (f *File) Truncate(size int64) error {
	d := f.d
	d.mu.Lock()
	off, cr, err := d.step(Op{Kind: "trunc", Path: f.name, Off: size})
	if err != nil {
		d.mu.Unlock()
		return &fs.PathError{Op: "truncate", Path: f.name, Err: err}
	}
	if cr {
		d.crash(len(d.Journal)-1, off)
	}
	if int64(len(f.ino.data)) > size {
		f.ino.data = f.ino.data[:size]
	} else {
		f.ino.data = append(f.ino.data, make([]byte, size-int64(len(f.ino.data)))...)
	}
	d.mu.Unlock()
	return nil
}

type fileInfo struct {
	name string
	size int64
	mode fs.FileMode
	dir  bool
}

func (fi fileInfo) Name() string       { return fi.name }
func (fi fileInfo) Size() int64        { return fi.size }
func (fi fileInfo) Mode() fs.FileMode  { return fi.mode }
func (fi fileInfo) ModTime() time.Time { return time.Time{} }
func (fi fileInfo) IsDir() bool        { return fi.dir }
func (fi fileInfo) Sys() any           { return nil }

// Stat mirrors (*os.File).Stat.
func (f *File) Stat() (FileInfo, error) { return Stat(f.name) }

// ---- package level functions ----

// ReadFile mirrors os.ReadFile.
func ReadFile(name string) ([]byte, error) {
	p := clean(name)
	disk.mu.Lock()
	defer disk.mu.Unlock()
	ino, ok := disk.files[p]
	if !ok {
		return nil, &fs.PathError{Op: "open", Path: name, Err: ErrNotExist}
	}
	return append([]byte(nil), ino.data...), nil
}

// WriteFile mirrors os.WriteFile: open with O_WRONLY|O_CREATE|O_TRUNC, write, close.
func WriteFile(name string, data []byte, perm FileMode) error {
	f, err := OpenFile(name, O_WRONLY|O_CREATE|O_TRUNC, perm)
	if err != nil {
		return err
	}
	_, err = f.Write(data)
	if err1 := f.Close(); err1 != nil && err == nil {
		err = err1
	}
	return err
}

// Rename mirrors os.Rename (atomic replace).
func Rename(oldpath, newpath string) error {
	o, n := clean(oldpath), clean(newpath)
	d := disk
	d.mu.Lock()
	ino, ok := d.files[o]
	if !ok {
		d.mu.Unlock()
		return &os.LinkError{Op: "rename", Old: oldpath, New: newpath, Err: ErrNotExist}
	}
	off, cr, err := d.step(Op{Kind: "rename", Path: o, To: n})
	if err != nil {
		d.mu.Unlock()
		return &os.LinkError{Op: "rename", Old: oldpath, New: newpath, Err: err}
	}
	if cr {
		d.crash(len(d.Journal)-1, off)
	}
	delete(d.files, o)
	d.files[n] = ino
	d.mu.Unlock()
	return nil
}

// Remove mirrors os.Remove.
func Remove(name string) error {
	p := clean(name)
	d := disk
	d.mu.Lock()
	if _, ok := d.files[p]; !ok {
		d.mu.Unlock()
		return &fs.PathError{Op: "remove", Path: name, Err: ErrNotExist}
	}
	off, cr, err := d.step(Op{Kind: "remove", Path: p})
	if err != nil {
		d.mu.Unlock()
		return &fs.PathError{Op: "remove", Path: name, Err: err}
	}
	if cr {
		d.crash(len(d.Journal)-1, off)
	}
	delete(d.files, p)
	d.mu.Unlock()
	return nil
}

// RemoveAll mirrors os.RemoveAll for files and prefixes.
func RemoveAll(name string) error {
	p := clean(name)
	disk.mu.Lock()
	defer disk.mu.Unlock()
	for k := range disk.files {
		if k == p || strings.HasPrefix(k, p+"/") {
			delete(disk.files, k)
		}
	}
	return nil
}

// Stat mirrors os.Stat.
func Stat(name string) (FileInfo, error) {
	p := clean(name)
	disk.mu.Lock()
	defer disk.mu.Unlock()
	if ino, ok := disk.files[p]; ok {
		return fileInfo{name: filepath.Base(p), size: int64(len(ino.data)), mode: ino.mode}, nil
	}
	if disk.dirs[p] {
		return fileInfo{name: filepath.Base(p), mode: fs.ModeDir | 0o755, dir: true}, nil
	}
	// A directory exists implicitly if any file lives below it.
	for k := range disk.files {
		if strings.HasPrefix(k, p+"/") {
			return fileInfo{name: filepath.Base(p), mode: fs.ModeDir | 0o755, dir: true}, nil
		}
	}
	return nil, &fs.PathError{Op: "stat", Path: name, Err: ErrNotExist}
}

// Lstat mirrors os.Lstat.
func Lstat(name string) (FileInfo, error) { return Stat(name) }

// MkdirAll mirrors os.MkdirAll.
func MkdirAll(path string, perm FileMode) error {
	disk.mu.Lock()
	defer disk.mu.Unlock()
	disk.dirs[clean(path)] = true
	return nil
}

// Mkdir mirrors os.Mkdir.
func Mkdir(path string, perm FileMode) error { return MkdirAll(path, perm) }

// Chmod mirrors os.Chmod.
func Chmod(name string, mode FileMode) error {
	p := clean(name)
	disk.mu.Lock()
	defer disk.mu.Unlock()
	if ino, ok := disk.files[p]; ok {
		ino.mode = mode
		return nil
	}
	return &fs.PathError{Op: "chmod", Path: name, Err: ErrNotExist}
}

// Truncate mirrors os.Truncate.
func Truncate(name string, size int64) error {
	f, err := OpenFile(name, O_WRONLY, 0)
	if err != nil {
		return err
	}
	defer f.Close()
	return f.Truncate(size)
}

// Getpid mirrors os.Getpid.
func Getpid() int { return 4242 }

// IsNotExist mirrors os.IsNotExist.
func IsNotExist(err error) bool { return errors.Is(err, ErrNotExist) }

// IsExist mirrors os.IsExist.
func IsExist(err error) bool { return errors.Is(err, ErrExist) }

// Getenv mirrors os.Getenv (no environment in the simulation).
func Getenv(string) string { return "" }

// Hostname mirrors os.Hostname.
func Hostname() (string, error) { return "simhost", nil }
