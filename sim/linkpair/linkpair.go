// Package linkpair sets up real peering stacks (peering + state + routing
// table, shipped listener/setup/reader/writer workers) on byte-level simulated
// connections, with the harness as the layer above the links.
package linkpair

import (
	"fmt"
	"net/netip"
	"runtime/debug"
	"sync"
	"time"

	"github.com/mycoria/mycoria/config"
	"github.com/mycoria/mycoria/frame"
	"github.com/mycoria/mycoria/m"
	"github.com/mycoria/mycoria/peering"

	"mycoverif/core"
	"mycoverif/node"
	"mycoverif/simnet"
)

// Stack is one router's peering stack.
type Stack struct {
	Node     *node.Node
	Up       chan frame.Frame
	Listener *simnet.SimListener
	URL      *m.PeeringURL
}

// Received is a frame that a link reader handed to the upper layer.
type Received struct {
	At   *Stack
	Data []byte
	Link frame.LinkAccessor
}

// NewStack builds and starts a stack and its listener.
func NewStack(e *core.Env, name string, id *m.Address, store config.Store, full bool) *Stack {
	return NewStackTun(e, name, id, store, full, false)
}

// NewStackTun is NewStack with an optional stub tun device (traffic enabled).
func NewStackTun(e *core.Env, name string, id *m.Address, store config.Store, full, tun bool) *Stack {
	up := make(chan frame.Frame, 4096)
	opts := node.Options{Upstream: up, LinkOnly: !full, Tun: tun}
	if full {
		opts.Upstream = nil
	}
	nd, err := node.New(name, id, store, opts)
	if err != nil {
		e.Infra("node: %v", err)
	}
	if err := nd.Start(); err != nil {
		e.Infra("start: %v", err)
	}
	s := &Stack{Node: nd, Up: up, Listener: simnet.NewListener(name)}
	s.URL, err = m.ParsePeeringURL("sim://" + name + ":1")
	if err != nil {
		e.Infra("url: %v", err)
	}
	nd.Peering.VerifStartListener("sim:"+name, s.Listener, s.URL)
	e.Cleanup(func() {
		_ = s.Listener.Close()
		nd.Kill()
	})
	return s
}

// Drain returns the frames delivered to the upper layer since the last call.
func (s *Stack) Drain() []Received {
	var out []Received
	for {
		select {
		case f := <-s.Up:
			d, err := f.FrameDataWithMargins(0, 0)
			if err == nil {
				out = append(out, Received{At: s, Data: append([]byte(nil), d...), Link: f.RecvLink()})
			}
			f.ReturnToPool()
		default:
			return out
		}
	}
}

// DialResult is the outcome of the client side link setup.
type DialResult struct {
	Link peering.Link
	Err  error
	Done bool
	// Panic holds the stack if the setup panicked (the shipped callers run it
	// inside a manager worker, which recovers; the harness goroutine must too).
	Panic string
}

// Attempt is one connection attempt.
type Attempt struct {
	Pair   *simnet.ConnPair
	Client *Stack
	Server *Stack
	Result *DialResult
}

// Dial opens a simulated connection from client to server: the server end goes
// through the shipped listener (accept loop + setup worker), the client end
// through the shipped handleSetup, in its own goroutine.
func Dial(cn *simnet.ConnNet, client, server *Stack) *Attempt {
	pair := cn.NewPair(fmt.Sprintf("%s>%s", client.Node.Name, server.Node.Name))
	a := &Attempt{Pair: pair, Client: client, Server: server, Result: &DialResult{}}
	if !server.Listener.Offer(pair.B) {
		a.Result.Done = true
		a.Result.Err = fmt.Errorf("listener closed")
		return a
	}
	go func() {
		defer func() {
			if r := recover(); r != nil {
				a.Result.Panic = fmt.Sprintf("panic: %v\n%s", r, debug.Stack())
				a.Result.Done = true
			}
		}()
		l, err := client.Node.Peering.VerifSetupLink(pair.A, server.URL, true)
		a.Result.Link, a.Result.Err, a.Result.Done = l, err, true
	}()
	simnet.Wait()
	return a
}

// ---- "sim" peering protocol for real top-level instances (C20) ----

// Fabric connects sim:// listeners and dialers through a ConnNet.
type Fabric struct {
	CN        *simnet.ConnNet
	mu        sync.Mutex
	listeners map[string]*simnet.SimListener
	Dials     int
	DialFails int
	// Started counts connection attempts from the moment the dialler calls the
	// protocol, i.e. before the attempt's latency has passed.
	Started int
	// DialLatency is the simulated time one connection attempt takes before
	// the listener sees it (a TCP connect is never instantaneous). Chosen per
	// run by the harness.
	DialLatency time.Duration
}

// NewFabric returns an empty fabric.
func NewFabric(cn *simnet.ConnNet) *Fabric {
	return &Fabric{CN: cn, listeners: map[string]*simnet.SimListener{}}
}

// Register makes an existing listener reachable under a host name.
func (f *Fabric) Register(host string, ln *simnet.SimListener) {
	f.mu.Lock()
	f.listeners[host] = ln
	f.mu.Unlock()
}

// StartedCount returns Started.
func (f *Fabric) StartedCount() int {
	f.mu.Lock()
	defer f.mu.Unlock()
	return f.Started
}

type simProtocol struct{ f *Fabric }

// Protocol returns the peering.Protocol to register with AddProtocol("sim", ...).
func (f *Fabric) Protocol() peering.Protocol { return simProtocol{f} }

func (sp simProtocol) Name() string { return "sim" }

// PeerWith does what protocol_tcp.go does after dialing: run the shipped link
// setup on the new connection.
func (sp simProtocol) PeerWith(p *peering.Peering, u *m.PeeringURL, ip netip.Addr) (peering.Link, error) {
	sp.f.mu.Lock()
	sp.f.Started++
	sp.f.mu.Unlock()
	if sp.f.DialLatency > 0 {
		time.Sleep(sp.f.DialLatency)
	}
	sp.f.mu.Lock()
	ln := sp.f.listeners[u.Domain]
	sp.f.Dials++
	sp.f.mu.Unlock()
	if ln == nil {
		sp.f.mu.Lock()
		sp.f.DialFails++
		sp.f.mu.Unlock()
		return nil, fmt.Errorf("connect to %s: connection refused", u.Domain)
	}
	pair := sp.f.CN.NewPair("dial:" + u.Domain)
	if !ln.Offer(pair.B) {
		_ = pair.A.Close()
		sp.f.mu.Lock()
		sp.f.DialFails++
		sp.f.mu.Unlock()
		return nil, fmt.Errorf("connect to %s: connection refused", u.Domain)
	}
	return p.VerifSetupLink(pair.A, u, true)
}

// StartListener does what protocol_tcp.go does after binding.
func (sp simProtocol) StartListener(p *peering.Peering, u *m.PeeringURL, ip netip.Addr) (peering.Listener, error) {
	ln := simnet.NewListener(u.Domain)
	sp.f.mu.Lock()
	sp.f.listeners[u.Domain] = ln
	sp.f.mu.Unlock()
	return p.VerifStartListener(u.String(), ln, u), nil
}
