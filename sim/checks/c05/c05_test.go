// C05 Link layer: post-handshake frames are encrypted, authenticated, once-only.
//
// Simulated system: two real peering stacks with an established real link
// (LinkBase reader/writer, LinkFrame crypto, framing) over a byte-level
// simulated connection. The harness is the layer above the links on both
// sides; the adversary owns the wire: bit flips, truncation, duplication,
// reordering, drops, injected garbage and records of other connections, short
// reads. Oracle: delivered is a subset of sent, byte-identical, at most once;
// after the last fault intact frames keep arriving or the link closes; no
// payload bytes in clear on the wire.
package c05

import (
	"bytes"
	"fmt"
	"sort"
	"testing"
	"time"

	"github.com/mycoria/mycoria/frame"
	"github.com/mycoria/mycoria/m"
	"github.com/mycoria/mycoria/peering"
	"github.com/mycoria/mycoria/state"

	"mycoverif/core"
	"mycoverif/ident"
	"mycoverif/linkpair"
	"mycoverif/node"
	"mycoverif/simnet"
	"mycoverif/simsync"
)

var msgTypes = []frame.MessageType{
	frame.RouterHopPingDeprecated, frame.RouterPing, frame.RouterCtrl, frame.RouterHopPing,
	frame.NetworkTraffic, frame.SessionCtrl, frame.SessionData,
}

type sentFrame struct {
	from    int
	data    []byte
	payload []byte
	got     int
}

func run(e *core.Env) {
	tp := e.Tape
	e.StartClock()
	cn := simnet.NewConnNet(e)
	perm := tp.Perm(10)
	var S [2]*linkpair.Stack
	for i := 0; i < 2; i++ {
		id := ident.Get(ident.Routable, perm[i])
		S[i] = linkpair.NewStack(e, fmt.Sprintf("r%d", i), id, node.BaseStore(id), false)
	}
	// In a third of the runs the two routers had a link before (a few frames each way, then
	// both ends closed it): what the adversary recorded there is injected into the new link.
	var earlier [][]byte
	if tp.Chance(1, 3) {
		cn.KeepLog = true
		c0 := tp.Intn(2) // who dialled then
		a0 := linkpair.Dial(cn, S[c0], S[1-c0])
		cn.DrainFIFO(tp, 100)
		l0, l1 := S[0].Node.Peering.GetLink(S[1].Node.IP), S[1].Node.Peering.GetLink(S[0].Node.IP)
		if l0 != nil && l1 != nil {
			hs := len(cn.Written)
			for k, n := 0, 2+tp.Intn(5); k < n; k++ {
				from, l := S[0], l0
				if tp.Chance(1, 2) {
					from, l = S[1], l1
				}
				f, err := from.Node.Inst.Builder.NewFrameV1(from.Node.IP, l.Peer(), frame.RouterPing, nil, append([]byte("EARLIER-LINK:"), tp.Bytes(20+tp.Intn(300))...), nil)
				if err == nil {
					_ = l.Send(f)
				}
				simnet.Wait()
				cn.DrainFIFO(tp, 50)
			}
			for _, r := range cn.Written[hs:] {
				if r.Conn == a0.Pair && !r.EOF {
					earlier = append(earlier, append([]byte(nil), r.Data...))
				}
			}
			l0.Close(nil)
			l1.Close(nil)
			cn.DrainFIFO(tp, 100)
			S[0].Drain()
			S[1].Drain()
			time.Sleep(time.Second + time.Duration(tp.Intn(2000))*time.Millisecond)
			simnet.Wait()
			e.Probe("routers_had_an_earlier_link")
		}
		cn.KeepLog = false
		cn.Written = nil
	}
	att := linkpair.Dial(cn, S[0], S[1])
	cn.DrainFIFO(tp, 100)
	var L [2]peering.Link
	L[0] = S[0].Node.Peering.GetLink(S[1].Node.IP)
	L[1] = S[1].Node.Peering.GetLink(S[0].Node.IP)
	if L[0] == nil || L[1] == nil {
		e.Infra("handshake did not complete (client err %v)", att.Result.Err)
	}
	// In a quarter of the runs both directions start a few frames before the 32-bit wrap of the
	// link's sequence numbers, so that the key roll-over of the link layer happens inside the
	// run (no link lives for 2^32 frames in a simulation). Reordering is left out of these runs:
	// a frame of the old epoch that arrives after the first frame of the new one is refused by
	// design, and so is everything of the old epoch behind it.
	nearWrap := tp.Chance(1, 4)
	if nearWrap {
		for i := 0; i < 2; i++ {
			if enc := peering.VerifLinkEncryption(L[i]); enc != nil {
				(&state.EncryptionSessionTestHelper{EncryptionSession: enc}).ReglSetOut(0xFFFFFFFF - uint32(tp.Intn(160)))
			}
		}
		e.Probe("link_starts_near_sequence_wrap")
	}
	// A second, unrelated connection provides foreign records for injection.
	var foreign [][]byte
	if tp.Chance(1, 2) {
		id := ident.Get(ident.Routable, perm[2])
		other := linkpair.NewStack(e, "r2", id, node.BaseStore(id), false)
		cn.KeepLog = true
		linkpair.Dial(cn, other, S[1])
		cn.DrainFIFO(tp, 100)
		if l := other.Node.Peering.GetLink(S[1].Node.IP); l != nil {
			for k := 0; k < 3; k++ {
				f, _ := other.Node.Inst.Builder.NewFrameV1(other.Node.IP, S[1].Node.IP, frame.RouterPing, nil, tp.Bytes(40+tp.Intn(200)), nil)
				_ = l.Send(f)
			}
			simnet.Wait()
			for _, r := range cn.Pending() {
				foreign = append(foreign, append([]byte(nil), r.Data...))
				cn.Remove(r)
			}
		}
		cn.KeepLog = false
		cn.Written = nil
		S[1].Drain()
	}

	foreign = append(foreign, earlier...)
	cn.KeepLog = true // from here on every record written is kept for the confidentiality check
	sent := map[string]*sentFrame{}
	tokSeq := 0
	var wire [][]byte // every record written after the handshake on the main connection
	send := func(from int, size int) {
		tokSeq++
		token := fmt.Sprintf("<%06d:%x>", tokSeq, tp.Bytes(6))
		if size < len(token) {
			size = len(token)
		}
		payload := append([]byte(token), tp.Bytes(size-len(token))...)
		mt := msgTypes[tp.Intn(len(msgTypes))]
		var apx []byte
		if tp.Chance(1, 5) {
			apx = tp.Bytes(tp.Intn(2000))
		}
		var sb []byte
		if tp.Chance(1, 4) {
			sb = tp.Bytes(tp.Intn(256))
		}
		to := 1 - from
		f, err := S[from].Node.Inst.Builder.NewFrameV1(S[from].Node.IP, S[to].Node.IP, mt, sb, payload, apx)
		if err != nil {
			e.Infra("frame: %v", err)
		}
		d, _ := f.FrameDataWithMargins(0, 0)
		sent[token] = &sentFrame{from: from, data: append([]byte(nil), d...), payload: payload}
		before := map[*simnet.Record]bool{}
		for _, r := range cn.Pending() {
			before[r] = true
		}
		if mt.IsPriority() {
			_ = L[from].SendPriority(f)
		} else {
			_ = L[from].Send(f)
		}
		simnet.Wait()
		// The one record this frame became on the wire carries the frame's token
		// as long as the adversary leaves its bytes alone.
		var fresh []*simnet.Record
		for _, r := range cn.Pending() {
			if !before[r] && r.Conn == att.Pair && r.Dir == from && !r.EOF {
				fresh = append(fresh, r)
			}
		}
		if len(fresh) == 1 {
			fresh[0].Tag = token
			e.Logf("send %.8s from=%d size=%d type=%d -> record seq=%d", token, from, size, mt, fresh[0].Seq)
		}
	}
	// Frames whose record reached the reader byte-identical and as one unit.
	intactDelivered := map[string]bool{}
	cn.OnDeliver = func(r *simnet.Record) {
		if r.Conn == att.Pair && r.Tag != "" {
			intactDelivered[r.Tag] = true
			e.Logf("deliver intact %.8s dir=%d seq=%d", r.Tag, r.Dir, r.Seq)
		}
	}
	// In a third of the runs the adversary keeps the record framing intact (whole records are
	// altered after the length prefix, dropped, duplicated, replayed, displaced by less than the
	// window, or forged with a genuine header whose counters are changed). Then the reader sees
	// every untouched record as a unit, and each of them must be delivered while the link is up.
	framed := tp.Chance(1, 3)
	if framed {
		e.Probe("framing_preserving_adversary")
	}
	collect := func() (n int) {
		for i := 0; i < 2; i++ {
			for _, r := range S[i].Drain() {
				n++
				// find the token
				st := bytes.IndexByte(r.Data, '<')
				var sf *sentFrame
				for st >= 0 && st+21 <= len(r.Data) {
					if r.Data[st+7] == ':' {
						if x, ok := sent[string(r.Data[st:st+21])]; ok {
							sf = x
							break
						}
					}
					nx := bytes.IndexByte(r.Data[st+1:], '<')
					if nx < 0 {
						break
					}
					st += 1 + nx
				}
				if sf == nil {
					e.Fail("delivered-frame-never-sent", "%s's upper layer received a %d-byte frame that no router sent on this link", S[i].Node.Name, len(r.Data))
				}
				if sf.from == i {
					e.Fail("frame-delivered-to-its-sender", "frame sent by %s was delivered to %s", S[i].Node.Name, S[i].Node.Name)
				}
				if !bytes.Equal(sf.data, r.Data) {
					e.Fail("altered-frame-delivered", "a frame arrived altered (%d bytes sent, %d received)", len(sf.data), len(r.Data))
				}
				sf.got++
				if sf.got > 1 {
					e.Fail("frame-delivered-twice", "the same link frame was delivered %d times to %s", sf.got, S[i].Node.Name)
				}
			}
		}
		return n
	}
	mainRecords := func() []*simnet.Record {
		var out []*simnet.Record
		for _, r := range cn.Pending() {
			if r.Conn == att.Pair {
				out = append(out, r)
			}
		}
		return out
	}
	noteWire := func() {}

	// Records that were delivered intact, per direction, for later replays.
	var intact [2][][]byte
	remember := func(r *simnet.Record) {
		if r.Conn == att.Pair && !r.EOF {
			intact[r.Dir] = append(intact[r.Dir], append([]byte(nil), r.Data...))
		}
	}
	// ---- traffic with faults ----
	nSteps := 10 + tp.Intn(60)
	faults := 0
	for s := 0; s < nSteps; s++ {
		e.Step()
		switch tp.Pick(6, 6, 5, 1) {
		case 3:
			// A stranger connects to one of the routers and, instead of a handshake, sends a few
			// complete records that do not parse as frames (right version byte, lengths that do
			// not add up, or noise), then hangs up. Whatever the router does with the buffers
			// of refused records, the frames of the established link stay what they are.
			v := tp.Intn(2)
			sp := cn.NewPair(fmt.Sprintf("stranger>%s", S[v].Node.Name))
			if S[v].Listener.Offer(sp.B) {
				simnet.Wait()
				for k, n := 0, 1+tp.Intn(3); k < n; k++ {
					body := tp.Bytes(68 + tp.Intn(400))
					body[0] = 1
					if tp.Chance(2, 3) {
						// a genuine frame whose inner lengths were changed
						if f, err := S[1-v].Node.Inst.Builder.NewFrameV1(S[1-v].Node.IP, S[v].Node.IP, frame.RouterPing, nil, tp.Bytes(20+tp.Intn(300)), nil); err == nil {
							d, _ := f.FrameDataWithMargins(0, 0)
							body = append([]byte(nil), d...)
							f.ReturnToPool()
							if tp.Chance(1, 2) {
								m.PutUint16(body[49:51], uint16(len(body)+tp.Intn(2000))) // message longer than the frame
							} else {
								body[48] = byte(200 + tp.Intn(56)) // switch block longer than the frame
							}
						}
					}
					rec := make([]byte, 2+len(body))
					m.PutUint16(rec[:2], uint16(len(rec)))
					copy(rec[2:], body)
					cn.DeliverBytes(sp.B, rec, false)
				}
				_ = sp.A.Close()
				_ = sp.B.Close()
				simnet.Wait()
				for _, r := range cn.Pending() {
					if r.Conn == sp {
						cn.Remove(r)
					}
				}
				faults++
				e.Fault("inject")
				e.Probe("stranger_sends_unparsable_records_to_the_listener")
			}
		case 0:
			size := 1 + tp.Intn(300)
			switch tp.Intn(6) {
			case 0:
				size = 1 + tp.Intn(10000)
			case 1:
				size = 9990 + tp.Intn(11)
			}
			send(tp.Intn(2), size)
			noteWire()
		case 1: // honest delivery of the oldest record of some direction
			noteWire()
			if r := cn.ChooseFIFO(tp); r != nil {
				remember(r)
				cn.Deliver(r)
			}
			// sometimes drain a whole burst in order, so that long intact runs exist
			if tp.Chance(1, 6) {
				for k := 0; k < 90; k++ {
					r := cn.ChooseFIFO(tp)
					if r == nil {
						send(tp.Intn(2), 1+tp.Intn(120))
						continue
					}
					remember(r)
					cn.Deliver(r)
				}
			}
		default: // adversary
			noteWire()
			recs := mainRecords()
			if len(recs) == 0 {
				send(tp.Intn(2), 1+tp.Intn(200))
				noteWire()
				recs = mainRecords()
			}
			if len(recs) == 0 {
				continue
			}
			r := recs[tp.Intn(len(recs))]
			if nearWrap {
				// no implicit reordering either: the adversary works on the oldest record of a direction
				for _, q := range recs {
					if q.Dir == r.Dir {
						r = q
						break
					}
				}
			}
			if r.EOF {
				continue
			}
			faults++
			dst := att.Pair.B
			if r.Dir == 1 {
				dst = att.Pair.A
			}
			kind := tp.Intn(16)
			if kind == 13 {
				// Not a fault at all for a byte stream: the oldest 2..4 records of one direction
				// reach the reader back to back, as one chunk (TCP coalesces segments, a busy
				// reader finds several records waiting).
				var run []*simnet.Record
				for _, q := range recs {
					if q.Dir == r.Dir && !q.EOF && len(run) < 2+tp.Intn(3) {
						run = append(run, q)
					}
				}
				if len(run) >= 2 {
					var chunk []byte
					for _, q := range run {
						chunk = append(chunk, q.Data...)
						cn.Remove(q)
						remember(q)
						if cn.OnDeliver != nil {
							cn.OnDeliver(q)
						}
					}
					dstEnd := att.Pair.B
					if r.Dir == 1 {
						dstEnd = att.Pair.A
					}
					cn.DeliverBytes(dstEnd, chunk, false)
					e.Fault("coalesced_records")
					faults--
				} else {
					faults--
				}
				collect()
				continue
			}
			e.Logf("adversary kind=%d on record dir=%d seq=%d tag=%.8s len=%d", kind, r.Dir, r.Seq, r.Tag, len(r.Data))
			if nearWrap && kind == 4 {
				kind = 3
			}
			if framed && kind == 2 {
				kind = 11 // no truncation in framing-preserving runs
			}
			switch kind {
			case 14, 15: // reflect: a genuine record of this connection turns up in the opposite
				// direction, at the end that sealed it (the pending one, or one delivered earlier)
				src := r.Data
				if hist := intact[r.Dir]; len(hist) > 0 && tp.Chance(1, 2) {
					src = hist[len(hist)-1-tp.Intn(min(len(hist), 5))]
				}
				back := att.Pair.A
				if r.Dir == 1 {
					back = att.Pair.B
				}
				cn.DeliverBytes(back, append([]byte(nil), src...), false)
				e.Fault("reflect_record")
			case 11, 12: // forge: a genuine record with one of its header counters moved forward (or the
				// whole body randomised as well); the length prefix stays right
				src := r.Data
				if hist := intact[r.Dir]; len(hist) > 0 && tp.Chance(1, 2) {
					src = hist[len(hist)-1-tp.Intn(min(len(hist), 3))]
				}
				g := append([]byte(nil), src...)
				if len(g) < 20 {
					faults--
					break
				}
				off := 2 + 2*tp.Intn(8)
				delta := []uint32{1, 1, 2, 3, 4, 63, 64, 65, 1 << 16}[tp.Intn(9)]
				v := uint32(g[off])<<24 | uint32(g[off+1])<<16 | uint32(g[off+2])<<8 | uint32(g[off+3])
				v += delta
				g[off], g[off+1], g[off+2], g[off+3] = byte(v>>24), byte(v>>16), byte(v>>8), byte(v)
				if tp.Chance(1, 2) {
					copy(g[18:], tp.Bytes(len(g)-18))
				}
				cn.DeliverBytes(dst, g, false)
				e.Fault("inject_forged_header")
			case 9, 10: // replay a record that was delivered earlier, at an exact distance behind the newest
				hist := intact[r.Dir]
				if len(hist) == 0 {
					faults--
					break
				}
				d := []int{0, 1, 2, 3, 62, 63, 64, 65, 66, tp.Intn(len(hist))}[tp.Intn(10)]
				if d >= len(hist) {
					d = tp.Intn(len(hist))
				}
				cn.DeliverBytes(dst, append([]byte(nil), hist[len(hist)-1-d]...), false)
				e.Fault("replay_old")
				if d >= 62 && d <= 66 {
					e.Probe("replay_at_window_edge")
				}
			case 0, 1: // flip a bit anywhere: length prefix, header, ciphertext, MAC
				pos := tp.Intn(len(r.Data))
				if tp.Chance(1, 3) {
					pos = tp.Intn(min(12, len(r.Data)))
				} else if tp.Chance(1, 3) {
					pos = len(r.Data) - 1 - tp.Intn(min(16, len(r.Data)))
				}
				if framed && pos < 2 {
					pos = 2 + tp.Intn(min(10, len(r.Data)-2))
				}
				r.Data[pos] ^= 1 << tp.Intn(8)
				r.Tag = ""
				cn.Deliver(r)
				e.Fault("corrupt_bit")
				if pos < 2 {
					e.Probe("length_prefix_corrupted")
				}
			case 2:
				r.Data = r.Data[:tp.Intn(len(r.Data))]
				r.Tag = ""
				cn.Deliver(r)
				e.Fault("truncate")
			case 3:
				cp := append([]byte(nil), r.Data...)
				cn.Deliver(r)
				cn.DeliverBytes(dst, cp, false)
				e.Fault("dup")
			case 4: // deliver out of order (any record of the direction, displacement up to 80)
				var same []*simnet.Record
				for _, q := range recs {
					if q.Dir == r.Dir && !q.EOF {
						same = append(same, q)
					}
				}
				reach := 80
				if framed {
					reach = 40
				}
				q := same[tp.Intn(min(len(same), reach))]
				cn.Deliver(q)
				if q != same[0] {
					e.Fault("reorder")
				}
			case 5:
				// Wave 14: a run of lost records. The oldest record of the direction arrives, the
				// next 61..65 are lost, the one after them arrives - the newest number jumps by
				// 62..66, 64 being the width of the receiver's window - and then the record from
				// before the gap (or the one after it) turns up again.
				var run []*simnet.Record
				if !nearWrap && tp.Chance(1, 3) {
					for k := 0; k < 70; k++ {
						send(r.Dir, 1+tp.Intn(40))
					}
					noteWire()
					for _, q := range mainRecords() {
						if q.Dir == r.Dir && !q.EOF {
							run = append(run, q)
						}
					}
				}
				if len(run) >= 68 {
					k := 61 + tp.Intn(5)
					before := append([]byte(nil), run[0].Data...)
					remember(run[0])
					cn.Deliver(run[0])
					for _, q := range run[1 : 1+k] {
						cn.Remove(q)
					}
					after := append([]byte(nil), run[1+k].Data...)
					remember(run[1+k])
					cn.Deliver(run[1+k])
					again := before
					if tp.Chance(1, 4) {
						again = after
					}
					cn.DeliverBytes(dst, again, false)
					if tp.Chance(1, 3) {
						cn.DeliverBytes(dst, append([]byte(nil), before...), false)
					}
					e.Fault("drop_run_then_replay")
					if k == 63 {
						e.Probe("replay_after_a_jump_of_exactly_64")
					}
					break
				}
				cn.Remove(r)
				e.Fault("drop")
			case 6: // inject garbage with a plausible length prefix, or pure noise
				g := tp.Bytes(4 + tp.Intn(600))
				if framed || tp.Chance(1, 2) {
					m.PutUint16(g[:2], uint16(len(g)))
				}
				cn.DeliverBytes(dst, g, false)
				e.Fault("inject")
			case 7: // a record of another connection
				if len(foreign) > 0 {
					cn.DeliverBytes(dst, append([]byte(nil), foreign[tp.Intn(len(foreign))]...), false)
					e.Fault("inject_foreign_record")
				} else {
					faults--
				}
			case 8: // short reads: no fault for the stream, only for the reader loop
				cuts := []int{1 + tp.Intn(len(r.Data)), 1 + tp.Intn(len(r.Data)), 2}
				for i := 0; i < len(cuts); i++ {
					for j := i + 1; j < len(cuts); j++ {
						if cuts[j] < cuts[i] {
							cuts[i], cuts[j] = cuts[j], cuts[i]
						}
					}
				}
				cn.DeliverSplit(r, cuts)
				e.Fault("short_read")
				faults--
			}
		}
		collect()
		for i := 0; i < 2; i++ {
			if len(S[i].Node.PanicAlerts()) > 0 {
				st := node.PanicStacks(node.NewStderr())
				cls := "unknown"
				if len(st) > 0 {
					cls = core.PanicClass(st[0])
				}
				e.Fail("worker-panic:"+cls, "link worker panicked")
			}
		}
	}

	// ---- progress after the last fault ----
	cn.DrainFIFO(tp, 5000)
	collect()
	postBytes := 0
	okStreak := [2]int{}
	closed := func() bool { return L[0].IsClosing() || L[1].IsClosing() }
	for round := 0; !closed(); round++ {
		if okStreak[0] >= 20 && okStreak[1] >= 20 {
			break
		}
		if postBytes > 8<<20 {
			e.Fail("link-silently-wedged", "after the last fault %d bytes of intact frames were sent; neither are they delivered (streaks %v) nor is the link closed", postBytes, okStreak)
		}
		for from := 0; from < 2; from++ {
			size := 7000 + tp.Intn(3000)
			before := tokSeq
			send(from, size)
			postBytes += size
			cn.DrainFIFO(tp, 200)
			collect()
			tokName := ""
			for tk := range sent {
				if tk[1:7] == fmt.Sprintf("%06d", before+1) {
					tokName = tk
				}
			}
			if sf := sent[tokName]; sf != nil && sf.got == 1 {
				okStreak[from]++
			} else {
				okStreak[from] = 0
			}
		}
		noteWire()
	}
	if closed() {
		e.Probe("link_closed_after_faults")
		cn.DrainFIFO(tp, 2000)
	} else {
		e.Probe("link_recovered_after_faults")
	}
	collect()
	if framed && !closed() {
		var toks []string
		for tk := range intactDelivered {
			toks = append(toks, tk)
		}
		sort.Strings(toks)
		for _, tk := range toks {
			if sf := sent[tk]; sf != nil && sf.got == 0 {
				e.Fail("intact-frame-lost-while-link-stays-up", "frame %s (%d bytes) reached the reader byte-identical and as one record, the adversary never broke the record framing and displaced nothing by more than 40 records, the link is still up - but the frame was never delivered", tk[:8], len(sf.data))
			}
		}
		e.Probe("framed_run_link_up_at_end")
	}
	if faults > 0 && postBytes > 64<<10 {
		e.Probe("recovery_needed_more_than_64KiB")
	}

	// ---- frames handed to a link that is being closed (a quarter of the runs with a live link) ----
	// One end closes the link while other workers of that router still hold it: the closing
	// goroutine is held at its first lock of the link registry (peering/ is compiled against the
	// yielding lock shim), frames are handed to the link meanwhile and the adversary injects a
	// frame that was never sealed. Until the connection is really closed the link stays what it
	// was: whatever is still written is sealed, whatever is still read must be.
	if !closed() && tp.Chance(1, 4) {
		i := tp.Intn(2)
		hold := make(chan struct{})
		armed := true
		simsync.Blocking = true
		simsync.Yield = func(op string) {
			if armed && op == "lock" {
				armed = false
				<-hold
			}
		}
		done := make(chan struct{})
		go func() {
			defer close(done)
			L[i].Close(nil)
		}()
		simnet.Wait()
		if !armed {
			w0 := len(cn.Written)
			t0 := tokSeq
			for k, n := 0, 1+tp.Intn(4); k < n; k++ {
				send(i, 60+tp.Intn(400))
			}
			for _, r := range cn.Written[w0:] {
				if r.Conn != att.Pair || r.EOF {
					continue
				}
				for tk, sf := range sent {
					var seq int
					fmt.Sscanf(tk[1:7], "%d", &seq)
					if seq > t0 && bytes.Contains(r.Data, sf.payload[20:36]) {
						e.Fail("payload-bytes-in-clear-on-the-wire/link-being-closed", "a frame handed to %s's link while that link was being closed (connection still open) went over the wire with its payload in clear", S[i].Node.Name)
					}
				}
			}
			if f, err := S[1-i].Node.Inst.Builder.NewFrameV1(S[1-i].Node.IP, S[i].Node.IP, frame.RouterPing, nil, []byte("never sealed, injected while the link is being closed"), nil); err == nil {
				d, _ := f.FrameDataWithMargins(0, 0)
				rec := make([]byte, 2+len(d))
				m.PutUint16(rec[:2], uint16(len(rec)))
				copy(rec[2:], d)
				f.ReturnToPool()
				end := att.Pair.A
				if i == 1 {
					end = att.Pair.B
				}
				cn.DeliverBytes(end, rec, false)
				simnet.Wait()
				collect() // an injected frame that reaches the upper layer is "never sent"
				e.Fault("inject")
			}
			e.Probe("frames_handed_to_a_link_that_is_being_closed")
		}
		close(hold)
		simnet.Wait()
		<-done
		simsync.Yield = nil
		simsync.Blocking = false
		collect()
	}

	// ---- confidentiality ----
	var all []byte
	for _, r := range cn.Written {
		if r.Conn == att.Pair && !r.EOF {
			all = append(all, r.Data...)
		}
	}
	_ = wire
	checked := 0
	var allToks []string
	for tk := range sent {
		allToks = append(allToks, tk)
	}
	sort.Strings(allToks)
	for _, tk := range allToks {
		sf := sent[tk]
		if len(sf.payload) < 37 || checked >= 40 {
			continue
		}
		checked++
		for _, off := range []int{0, 21, len(sf.payload) - 16} {
			if off < 0 || off+16 > len(sf.payload) {
				continue
			}
			if bytes.Contains(all, sf.payload[off:off+16]) {
				e.Fail("payload-bytes-in-clear-on-the-wire", "16 payload bytes at offset %d of a %d-byte frame appear on the wire after the handshake", off, len(sf.data))
			}
		}
	}
	delivered := 0
	for _, sf := range sent {
		delivered += sf.got
	}
	e.Ev("done", uint64(len(sent)), uint64(delivered), uint64(faults), uint64(postBytes))
	e.Sample("%d frames sent, %d delivered, %d wire faults, %d bytes of post-fault traffic, link closed=%v", len(sent), delivered, faults, postBytes, closed())
}

func TestCheck(t *testing.T) {
	core.Main(t, &core.Check{
		ID:             "C05",
		QuickRuns:      600,
		ThoroughRuns:   60000,
		MinimiseBudget: 120,
		Run:            run,
	})
}
