// C19 Name resolution: .myco only, fixed precedence, learned mappings cannot shadow.
//
// Simulated system: the real dns.Server including the real miekg server loop on
// a simulated packet connection (deadlines on the fake clock), the real
// MemStorage as mapping source and a configuration from the real parser. The
// tape generates configurations with names colliding across all four sources
// and the built-in / forbidden names, interleaves query datagrams (case
// variants, IDN, non-.myco, all types and classes, malformed and truncated
// packets) with mapping saves/deletes, duplicates / reorders / drops
// datagrams and makes reply writes fail. The empty-question case is also
// presented to ServeDNS directly with a recording writer.
package c19

import (
	"fmt"
	"net"
	"net/netip"
	"runtime"
	"strings"
	"sync"
	"testing"
	"time"

	mdns "github.com/miekg/dns"

	"github.com/mycoria/mycoria/api/dns"
	"github.com/mycoria/mycoria/config"
	"github.com/mycoria/mycoria/mgr"
	"github.com/mycoria/mycoria/storage"

	"mycoverif/core"
	"mycoverif/ident"
	"mycoverif/node"
	"mycoverif/simnet"
	"mycoverif/simsync"
)

// Specification constants from the statement / user-visible behaviour.
var (
	builtin   = map[string]bool{"router.myco": true, "open.myco": true}
	forbidden = map[string]bool{"wpad.myco": true, "myco.myco": true}
	apiAddr   = config.DefaultAPIAddress
)

type model struct {
	resolve  map[string]netip.Addr
	friends  map[string]netip.Addr
	mappings map[string]netip.Addr
}

// lookup is the reference precedence function from the statement.
func (mo *model) lookup(name string) (netip.Addr, string) {
	if builtin[name] {
		return apiAddr, "internal"
	}
	if ip, ok := mo.resolve[name]; ok {
		return ip, "resolve-config"
	}
	if forbidden[name] {
		return netip.Addr{}, ""
	}
	if fn, ok := strings.CutSuffix(name, ".myco"); ok {
		if ip, ok := mo.friends[fn]; ok {
			return ip, "friend"
		}
	}
	if ip, ok := mo.mappings[name]; ok {
		return ip, "mapping"
	}
	return netip.Addr{}, ""
}

type clientAddr string

func (a clientAddr) Network() string { return "udp" }
func (a clientAddr) String() string  { return string(a) }

type recWriter struct {
	msgs []*mdns.Msg
}

func (w *recWriter) LocalAddr() net.Addr         { return clientAddr("[fd00::b909]:53") }
func (w *recWriter) RemoteAddr() net.Addr        { return clientAddr("[fd00::1]:4242") }
func (w *recWriter) WriteMsg(m *mdns.Msg) error  { w.msgs = append(w.msgs, m); return nil }
func (w *recWriter) Write(b []byte) (int, error) { return len(b), nil }
func (w *recWriter) Close() error                { return nil }
func (w *recWriter) TsigStatus() error           { return nil }
func (w *recWriter) TsigTimersOnly(bool)         {}
func (w *recWriter) Hijack()                     {}

var labels = []string{"router", "open", "wpad", "myco", "alice", "bob", "svc", "a.b", "xn--bcher-kva", "bücher", "x", "alice.bob"}

func run(e *core.Env) {
	tp := e.Tape
	e.StartClock()
	node.CaptureStderr()
	id := ident.Get(ident.Routable, tp.Intn(4))
	st := node.BaseStore(id)
	mo := &model{resolve: map[string]netip.Addr{}, friends: map[string]netip.Addr{}, mappings: map[string]netip.Addr{}}
	ipOf := func(k int) netip.Addr { return ident.Get(ident.Routable, 10+k%12).IP }

	// Configuration with collisions across sources.
	st.ResolveConfig = map[string]string{}
	for k, n := 0, tp.Intn(6); k < n; k++ {
		l := labels[tp.Intn(len(labels))]
		name := l + ".myco"
		if tp.Chance(1, 4) {
			name = strings.ToUpper(name[:1]) + name[1:] + "."
		}
		cleaned, valid := config.CleanDomain(name)
		if !valid {
			continue
		}
		ip := ipOf(tp.Intn(12))
		if _, dup := mo.resolve[cleaned]; dup {
			continue // two spellings of one name: the parser's result would depend on map order
		}
		st.ResolveConfig[name] = ip.String()
		mo.resolve[cleaned] = ip
	}
	for k, n := 0, tp.Intn(5); k < n; k++ {
		l := labels[tp.Intn(8)] // lower-case ASCII names only (see DESIGN: friend-name case is unspecified)
		if _, dup := mo.friends[l]; dup {
			continue
		}
		ip := ipOf(tp.Intn(12))
		if len(st.FriendConfigs) > 0 && tp.Chance(1, 3) {
			// wave 15: a second name for a router that is a friend already (two entries, one address)
			prev := st.FriendConfigs[tp.Intn(len(st.FriendConfigs))]
			ip = netip.MustParseAddr(prev.IP)
			e.Probe("two_friend_names_for_one_router")
		}
		st.FriendConfigs = append(st.FriendConfigs, config.FriendConfig{Name: l, IP: ip.String()})
		mo.friends[l] = ip
	}
	var cfg *config.Config
	func() {
		defer func() {
			if r := recover(); r != nil {
				e.Infra("config: %v", r)
			}
		}()
		cfg = config.MakeTestConfig(st)
	}()
	inst := yieldingInst{&node.Inst{Ver: "sim", Cfg: cfg, ID: id}}
	mem := storage.NewMemStorage()
	pc := simnet.NewPacketConn()
	srv, err := dns.New(inst, pc, mem)
	if err != nil {
		e.Infra("dns.New: %v", err)
	}
	alerts := mgr.NewAlertMgr(nil)
	srv.Manager().SetWorkerErrorMgr(alerts)
	// api/dns is compiled against the yielding lock and atomic shims: in half of the runs a seeded
	// coin hands the processor to another runnable goroutine at its lock and atomic operations,
	// so that queries that arrive together are answered side by side - also the very first ones.
	if every := []int{0, 0, 1, 2, 3}[tp.Intn(5)]; every > 0 {
		ys := tp.Uint64() | 1
		var ymu sync.Mutex
		simsync.Blocking = true
		simsync.Yield = func(op string) {
			ymu.Lock()
			ys += 0x9e3779b97f4a7c15
			z := ys
			z = (z ^ (z >> 30)) * 0xbf58476d1ce4e5b9
			z = (z ^ (z >> 27)) * 0x94d049bb133111eb
			z ^= z >> 31
			ymu.Unlock()
			if z%uint64(every) == 0 {
				runtime.Gosched()
			}
		}
		e.Cleanup(func() {
			simsync.Yield = nil
			simsync.Blocking = false
		})
		e.Fault("task_switch")
	}
	if err := srv.Start(); err != nil {
		e.Infra("start: %v", err)
	}
	e.Cleanup(func() {
		_ = srv.Stop()
		srv.Manager().Cancel()
		srv.Manager().WaitForWorkers(time.Minute)
	})
	simnet.Wait()
	e.Logf("resolve=%v friends=%v", mo.resolve, mo.friends)

	panics := func(where string) {
		for _, a := range alerts.Export().Alerts {
			if strings.HasPrefix(a.ID, "worker-panic") {
				stk := node.PanicStacks(node.NewStderr())
				cls := "unknown"
				if len(stk) > 0 {
					cls = core.PanicClass(stk[0])
				}
				e.Fail("worker-panic:"+cls, "%s: %s", where, a.Message)
			}
		}
	}

	type pending struct {
		id    uint16
		name  string
		qtype uint16
		class uint16
		// expectation fixed at the moment the query is delivered
		wantIP  netip.Addr
		wantSrc string
		nx      bool
		dupOK   bool
		again   bool // same spelling was answered from a mapping before
	}
	// Spellings that were answered from the stored mappings: the only mutable
	// source, so these are the names whose answer must follow later changes.
	var answered []string
	outstanding := map[uint16]*pending{}
	var idSeq uint16 = 100
	var queue []simnet.Datagram // datagrams the adversary still holds
	var queueMeta []*pending

	expect := func(p *pending) {
		n := strings.TrimSuffix(strings.ToLower(p.name), ".")
		okType := p.qtype == mdns.TypeA || p.qtype == mdns.TypeAAAA || p.qtype == mdns.TypeSVCB || p.qtype == mdns.TypeHTTPS || p.qtype == mdns.TypeANY
		okClass := p.class == mdns.ClassINET || p.class == mdns.ClassANY
		if !strings.HasSuffix(n, ".myco") || !okType || !okClass {
			p.nx = true
			return
		}
		ip, src := mo.lookup(n)
		if src == "" {
			p.nx = true
			return
		}
		p.wantIP, p.wantSrc = ip, src
	}

	checkReplies := func() {
		for _, d := range pc.TakeOut() {
			var m mdns.Msg
			if err := m.Unpack(d.Data); err != nil {
				e.Fail("reply-not-a-dns-message", "server wrote %d bytes that do not unpack: %v", len(d.Data), err)
			}
			p := outstanding[m.Id]
			if p == nil {
				continue // reply to a malformed or duplicated packet
			}
			if !p.dupOK {
				delete(outstanding, m.Id)
			}
			desc := fmt.Sprintf("query %q type %s class %d", p.name, mdns.Type(p.qtype), p.class)
			if p.nx {
				if m.Rcode != mdns.RcodeNameError {
					e.Fail("expected-name-error", "%s: rcode %s, answers %v, extra %v", desc, mdns.RcodeToString[m.Rcode], m.Answer, m.Extra)
				}
				if len(m.Answer) != 0 {
					e.Fail("name-error-with-answer", "%s", desc)
				}
				e.Probe("name_error")
				continue
			}
			if m.Rcode != mdns.RcodeSuccess {
				e.Fail("expected-answer/"+p.wantSrc, "%s: expected %s from source %s, got rcode %s", desc, p.wantIP, p.wantSrc, mdns.RcodeToString[m.Rcode])
			}
			var gotIP netip.Addr
			gotSrc := ""
			for _, rr := range append(append([]mdns.RR{}, m.Answer...), m.Extra...) {
				switch v := rr.(type) {
				case *mdns.AAAA:
					a, _ := netip.AddrFromSlice(v.AAAA)
					gotIP = a
				case *mdns.TXT:
					if len(v.Txt) == 1 {
						gotSrc = strings.TrimPrefix(v.Txt[0], "answer source: ")
					}
				}
			}
			if gotIP != p.wantIP || gotSrc != p.wantSrc {
				e.Fail("wrong-answer/"+p.wantSrc+"-shadowed-by-"+gotSrc,
					"%s: expected %s from %s, got %s from %s (resolve %v friends %v mappings %v)", desc, p.wantIP, p.wantSrc, gotIP, gotSrc, mo.resolve, mo.friends, mo.mappings)
			}
			e.Probe("answer_from_" + p.wantSrc)
			if p.wantSrc == "mapping" {
				if p.again {
					e.Probe("mapping_changed_between_two_queries_for_one_spelling")
				}
				answered = append(answered, p.name)
			}
		}
	}

	nOps := 10 + tp.Intn(60)
	for op := 0; op < nOps; op++ {
		e.Step()
		switch tp.Pick(8, 3, 2, 3, 1, 1, 2) {
		case 6: // the adversary releases several held datagrams in the same instant: the server
			// answers each on a goroutine of its own (and the processor changes hands between
			// them at lock and atomic operations of api/dns, see the hook above). No mapping
			// changes in between, so every one of them has the answer of this moment.
			if len(queue) < 2 {
				continue
			}
			k := 2 + tp.Intn(min(3, len(queue)-1))
			for i := 0; i < k; i++ {
				expect(queueMeta[i])
				outstanding[queueMeta[i].id] = queueMeta[i]
			}
			for i := 0; i < k; i++ {
				pc.Feed(queue[i])
			}
			queue, queueMeta = queue[k:], queueMeta[k:]
			simnet.Wait()
			checkReplies()
			e.Fault("burst")
			e.Probe("queries_answered_side_by_side")
		case 0: // build a query datagram; the adversary may hold it
			l := labels[tp.Intn(len(labels))]
			name := l + ".myco."
			again, againName := false, ""
			if len(answered) > 0 && tp.Chance(1, 4) {
				again, againName = true, answered[tp.Intn(len(answered))]
			}
			switch tp.Intn(11) {
			case 0:
				name = strings.ToUpper(name)
			case 1:
				name = l + ".MyCo."
			case 2:
				name = l + ".example.org."
			case 3:
				name = l + ".myco.evil."
			case 4:
				name = "myco."
			case 5:
				name = "sub." + l + ".myco."
			case 6:
				name = "." // the root name (e.g. a priming query)
			case 7:
				name = []string{"com.", "org.", "local.", "arpa."}[tp.Intn(4)]
			case 8:
				name = l + `\.myco.` // an escaped dot: one label, not in the zone
			}
			if again {
				name = againName
			}
			qt := []uint16{mdns.TypeAAAA, mdns.TypeAAAA, mdns.TypeA, mdns.TypeSVCB, mdns.TypeHTTPS, mdns.TypeANY, mdns.TypeTXT, mdns.TypeMX, mdns.TypeCNAME, mdns.TypeNS, mdns.TypePTR, uint16(tp.Intn(65536))}[tp.Intn(12)]
			cl := []uint16{mdns.ClassINET, mdns.ClassINET, mdns.ClassINET, mdns.ClassANY, mdns.ClassCHAOS, mdns.ClassNONE, uint16(tp.Intn(65536))}[tp.Intn(7)]
			if again {
				qt, cl = mdns.TypeAAAA, mdns.ClassINET
			}
			idSeq++
			q := new(mdns.Msg)
			q.Id = idSeq
			q.RecursionDesired = tp.Chance(1, 2)
			q.Question = []mdns.Question{{Name: name, Qtype: qt, Qclass: cl}}
			raw, err := q.Pack()
			if err != nil {
				continue
			}
			queue = append(queue, simnet.Datagram{Data: raw, Addr: clientAddr("[fd00::1]:4242")})
			queueMeta = append(queueMeta, &pending{id: idSeq, name: name, qtype: qt, class: cl, again: again})
		case 1: // mapping save / delete (the only mutable source)
			l := labels[tp.Intn(len(labels))]
			cleaned, valid := config.CleanDomain(l + ".myco")
			if len(answered) > 0 && tp.Chance(1, 2) {
				// change a mapping a client has already asked for
				cleaned, valid = config.CleanDomain(answered[tp.Intn(len(answered))])
			}
			if !valid {
				continue
			}
			if tp.Chance(2, 3) {
				ip := ipOf(tp.Intn(12))
				_ = mem.SaveMapping(cleaned, ip)
				mo.mappings[cleaned] = ip
				e.Ev("save", uint64(len(mo.mappings)))
			} else {
				_ = mem.DeleteMapping(cleaned)
				delete(mo.mappings, cleaned)
				e.Ev("delete", uint64(len(mo.mappings)))
			}
		case 2: // malformed / truncated datagram
			var raw []byte
			switch tp.Intn(3) {
			case 0:
				raw = tp.Bytes(tp.Intn(64))
				if len(raw) > 0 {
					raw[0] = 0xFF // message ids of garbage never collide with those of real queries
				}
			case 1:
				q := new(mdns.Msg)
				q.SetQuestion("alice.myco.", mdns.TypeAAAA)
				q.Id = 0xFFF0
				raw, _ = q.Pack()
				raw = raw[:tp.Intn(len(raw))]
			default:
				q := new(mdns.Msg)
				q.SetQuestion("alice.myco.", mdns.TypeAAAA)
				q.Question = append(q.Question, mdns.Question{Name: "bob.myco.", Qtype: mdns.TypeAAAA, Qclass: mdns.ClassINET})
				q.Id = 0xFFF1
				raw, _ = q.Pack()
			}
			pc.Feed(simnet.Datagram{Data: raw, Addr: clientAddr("[fd00::1]:666")})
			simnet.Wait()
			e.Fault("malformed_datagram")
		case 3: // the adversary releases a held datagram: any order, maybe twice, maybe never
			if len(queue) == 0 {
				continue
			}
			k := tp.Intn(len(queue))
			if k != 0 {
				e.Fault("reorder")
			}
			d, p := queue[k], queueMeta[k]
			queue = append(queue[:k], queue[k+1:]...)
			queueMeta = append(queueMeta[:k], queueMeta[k+1:]...)
			switch tp.Pick(6, 1, 1) {
			case 1:
				e.Fault("drop")
				continue
			case 2:
				// duplicate: both copies are answered; the mapping state does not change in between
				p.dupOK = true
				expect(p)
				outstanding[p.id] = p
				pc.Feed(d)
				pc.Feed(d)
				e.Fault("dup")
			default:
				expect(p)
				outstanding[p.id] = p
				pc.Feed(d)
			}
			simnet.Wait()
			checkReplies()
		case 4: // reply writes fail for a while
			pc.SetWriteErr(simnet.ErrSimIO)
			if len(queue) > 0 {
				pc.Feed(queue[0])
				queue, queueMeta = queue[1:], queueMeta[1:]
				simnet.Wait()
			}
			pc.SetWriteErr(nil)
			e.Fault("reply_write_error")
		case 5: // time passes (read deadlines of the server loop fire)
			time.Sleep(time.Duration(1+tp.Intn(3000)) * time.Millisecond)
			simnet.Wait()
		}
		panics(fmt.Sprintf("after op %d", op))
	}
	// Release everything still held, in order.
	for i, d := range queue {
		expect(queueMeta[i])
		outstanding[queueMeta[i].id] = queueMeta[i]
		pc.Feed(d)
		simnet.Wait()
		checkReplies()
	}
	panics("end")
	for _, p := range outstanding {
		if !p.dupOK {
			e.Fail("query-not-answered", "query %q type %d class %d got no reply", p.name, p.qtype, p.class)
		}
	}

	// ---- direct path: empty question section ----
	w := &recWriter{}
	q := new(mdns.Msg)
	q.Id = 7
	if e.Guard("panic-in-ServeDNS", func() { srv.ServeDNS(w, q) }) {
		e.Fail("", "")
	}
	for _, a := range alerts.Export().Alerts {
		if strings.HasPrefix(a.ID, "worker-panic") {
			stk := node.PanicStacks(node.NewStderr())
			cls := "unknown"
			if len(stk) > 0 {
				cls = core.PanicClass(stk[0])
			}
			e.Fail("worker-panic-on-empty-question:"+cls, "ServeDNS with an empty question section: %s", a.Message)
		}
	}
	for _, m := range w.msgs {
		if m.Rcode == mdns.RcodeSuccess && len(m.Answer) > 0 {
			e.Fail("answer-to-empty-question", "an answer was given to a query without question")
		}
	}
	e.Probe("empty_question_presented")
	e.Sample("resolve=%d friends=%d mappings=%d ops=%d", len(mo.resolve), len(mo.friends), len(mo.mappings), nOps)
}

// yieldingInst is the instance the server sees: a call into it is a point at which the
// processor may change hands, like a lock operation of the server's own package.
type yieldingInst struct{ *node.Inst }

func (y yieldingInst) Config() *config.Config {
	if h := simsync.Yield; h != nil {
		h("call")
	}
	return y.Inst.Config()
}

func TestCheck(t *testing.T) {
	core.Main(t, &core.Check{
		ID:             "C19",
		QuickRuns:      800,
		ThoroughRuns:   120000,
		MinimiseBudget: 150,
		Run:            run,
	})
}
