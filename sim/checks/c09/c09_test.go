// C09 Gossip reach and termination in honest meshes.
//
// Simulated system: 2..16 real router nodes (state, router, switch, peering
// registry, routing table) on frame-level simulated links with harness-chosen
// 1- and 2-byte labels. The shipped announce worker fires 5 s after start; the
// tape picks which link delivers next (links are FIFO per direction) until the
// network has drained. Oracles: full reach by exact-destination route plus a
// label-switched probe through the real switches; per-crossing flood rules;
// per-instance loop-free-path bound.
package c09

import (
	"fmt"
	"net/netip"
	"slices"
	"sort"
	"strings"
	"testing"
	"time"

	"github.com/mycoria/mycoria/frame"
	"github.com/mycoria/mycoria/m"

	"mycoverif/core"
	"mycoverif/fullmesh"
	"mycoverif/mesh"
	"mycoverif/simnet"
)

func run(e *core.Env) {
	tp := e.Tape
	if tp.Intn(10) == 0 {
		runFullStack(e)
		return
	}
	e.StartClock()
	opts := mesh.Options{MinNodes: 2, MaxNodes: 16, MaxExtraEdges: 3, TwoByteLabels: true, BigInfo: true}
	switch tp.Intn(8) {
	case 0:
		// a dense mesh of 13..16 routers of which all but one lie in one foreign continent
		// prefix: every destination is held over several paths, so this is where a router's
		// per-prefix table limits come closest to what a 16-router mesh needs
		opts.MinNodes, opts.Kinds, opts.Continents = 13, []string{"relays"}, true
		e.Probe("dense_mesh_in_one_foreign_continent")
	case 1, 2:
		opts.RoamingSome = true
	case 3:
		// routers started seconds apart: their first announcement may find no link yet, and
		// the periodic workers of neighbours may fire in the same millisecond; judged after
		// the second announcement round
		opts.LongStagger, opts.Prompt, opts.MaxNodes = true, true, 6
		e.Probe("routers_started_seconds_apart")
	}
	ms := mesh.Build(e, opts)
	n := len(ms.Nodes)
	parser := frame.NewFrameBuilder()
	// Flood rules are checked on every announcement a router hands to a link.
	type inst struct {
		crossings int
		paths     map[string]bool
		origin    int
	}
	insts := map[string]*inst{}
	var floodViolation, floodDetail string
	ms.Net.OnSend = func(c *simnet.Crossing) {
		f, err := mesh.ParseCrossing(parser, c.Data)
		if err != nil {
			return
		}
		defer f.ReturnToPool()
		v, ok := mesh.ViewAnnounce(f)
		if !ok {
			return
		}
		oi, known := ms.ByIP[v.Origin]
		if !known {
			return
		}
		in := insts[v.Instance]
		if in == nil {
			in = &inst{paths: map[string]bool{}, origin: oi}
			insts[v.Instance] = in
		}
		in.crossings++
		if e.Trace {
			e.Logf("ann %s>%s origin=%d depth=%d t=%s", c.From.Name, c.To.Name, oi, len(v.Hops), time.Now().Format("05.000"))
		}
		set := func(cls, format string, args ...any) {
			if floodViolation == "" {
				floodViolation, floodDetail = cls, fmt.Sprintf(format, args...)
			}
		}
		if c.To.IP == v.Origin {
			set("announcement-sent-to-its-origin", "%s sent announcement of %s back to the origin (hops %v)", c.From.Name, v.Origin, v.Hops)
		}
		for _, h := range v.Hops {
			if h == c.To.IP {
				set("announcement-sent-to-router-in-hop-list", "%s sent announcement of %s to %s which is already in hops %v", c.From.Name, v.Origin, c.To.Name, v.Hops)
			}
		}
		// arrival link: the sender got it from hops[1] (or from the origin).
		if len(v.Hops) >= 1 {
			prev := v.Origin
			if len(v.Hops) >= 2 {
				prev = v.Hops[1]
			}
			if prev == c.To.IP {
				set("announcement-sent-back-over-arrival-link", "%s sent announcement of %s back to %s", c.From.Name, v.Origin, c.To.Name)
			}
			if v.Hops[0] != c.From.IP {
				set("outermost-hop-is-not-sender", "%s sent announcement whose outermost hop record is %s", c.From.Name, v.Hops[0])
			}
		}
		var pb strings.Builder
		for i := len(v.Hops) - 1; i >= 0; i-- {
			pb.WriteString(v.Hops[i].String())
			pb.WriteByte('>')
		}
		pb.WriteString(c.To.IP.String())
		key := pb.String()
		if in.paths[key] {
			set("loop-free-path-crossed-twice", "announcement %s crossed path %s twice", v.Instance[:40], key)
		}
		in.paths[key] = true
	}

	// Wave 15: a link of a router goes away while that router announces itself (its peer hung
	// up): the router is in the middle of its walk over its links. The link is chosen so that
	// the rest stays a connected honest mesh (a leaf, which is then left out of the judgement,
	// or an edge on a cycle) and so that it is neither the first nor the last link of the
	// walk. Every remaining router still has to learn about every other one in this round.
	// Routes are not followed in these runs (routers that are not next to the lost link may
	// keep a route over it until it expires; the statement is about the mesh as it is).
	lostAt, lostPeer, linkLostWhileAnnouncing := -1, -1, false
	if n >= 4 && !opts.LongStagger && tp.Chance(1, 5) {
		type cand struct{ o, l int }
		var cands []cand
		for o := 0; o < n; o++ {
			nb := append([]int(nil), ms.Adj[o]...)
			sort.Slice(nb, func(a, b int) bool { return ms.Nodes[nb[a]].IP.Compare(ms.Nodes[nb[b]].IP) < 0 })
			for k := 1; k+1 < len(nb); k++ {
				l := nb[k]
				if len(ms.Adj[l]) == 1 || connectedWithout(ms.Adj, o, l) {
					cands = append(cands, cand{o, l})
				}
			}
		}
		if len(cands) > 0 {
			c := cands[tp.Intn(len(cands))]
			O, L := ms.Nodes[c.o], ms.Nodes[c.l]
			lostAt, lostPeer = c.o, c.l
			fired := false
			ms.Net.BeforeSend = func(l *simnet.Link, f frame.Frame) {
				if mt := f.MessageType(); fired || l.Local != O || (mt != frame.RouterHopPing && mt != frame.RouterHopPingDeprecated) || f.SrcIP() != O.IP {
					return
				}
				fired = true
				if lk, ok := O.Peering.GetLink(L.IP).(*simnet.Link); ok && lk != l {
					lk.Close(nil)
					linkLostWhileAnnouncing = true
					e.Fault("link_lost_while_its_router_announces")
					e.Logf("link %s-%s closed while %s announces (sending to %s)", O.Name, L.Name, O.Name, l.Remote.Name)
				}
			}
		}
	}

	// Wave 16: the clock ticks while a router announces itself. A router signs one frame per
	// peer; on a real machine a millisecond boundary now and then falls between two of them, so
	// the copies of one announcement round carry different stamps and a relayed copy with a
	// later stamp can reach a router before the direct copy with the earlier one. The announcing
	// worker is held for 1..3 simulated milliseconds after some of its sends (bits drawn here).
	// (After a send, never between signing a frame and handing it over: a frame held back
	// there is overtaken by the router's own newer frames and refused as delayed - a loss the
	// statement does not ask an honest mesh to survive, 10.4 no. 33.)
	if ms.Net.BeforeSend == nil && tp.Chance(1, 2) {
		mask := tp.Uint64() | tp.Uint64()
		if tp.Chance(1, 2) {
			mask = ^uint64(0) // a tick after every send: every copy of a round has a stamp of its own
		}
		calls := 0
		ms.Net.AfterSend = func(l *simnet.Link, mt frame.MessageType, src netip.Addr) {
			if (mt != frame.RouterHopPing && mt != frame.RouterHopPingDeprecated) || src != l.Local.IP {
				return
			}
			calls++
			if mask>>(uint(calls)%64)&1 == 1 {
				time.Sleep(time.Duration(1+calls%3) * time.Millisecond)
			}
		}
		e.Fault("clock_ticks_while_a_router_announces")
	}

	// Let the shipped announce workers fire (5 s after each start), then drain.
	rounds := 1
	if tp.Chance(1, 6) || opts.LongStagger {
		rounds = 2
	}
	// Wave 16: a mesh that has been up for a quarter of an hour and more. Routers announce
	// themselves every five minutes, routes carry an expiry and every router cleans its table once
	// a minute: what was learned in the first round has to be kept alive by the later ones. The
	// mesh is judged at a seeded moment between two rounds, not right after one.
	longUptime := !opts.LongStagger && n <= 9 && tp.Chance(1, 10)
	if longUptime {
		rounds = 3 + tp.Intn(3)
		e.Probe("mesh_up_for_a_quarter_of_an_hour_or_more")
	}
	totalSteps := 0
	for r := 0; r < rounds; r++ {
		steps := 0
		if r == 0 {
			steps += ms.Net.RunFor(tp, 5*time.Second+100*time.Millisecond, 60000)
		} else {
			steps += ms.Net.RunFor(tp, 5*time.Minute+time.Second, 60000)
			e.Probe("second_announce_round")
		}
		simnet.Wait()
		steps += ms.Net.DrainFIFO(tp, 60000)
		totalSteps += steps
		if steps >= 60000 {
			e.Fail("flood-does-not-terminate", "more than 60000 deliveries in a %s mesh of %d nodes (edges %v)", ms.Kind, n, ms.Edges)
		}
		ms.CheckPanics("worker-panic")
		if floodViolation != "" {
			e.Fail(floodViolation, "%s", floodDetail)
		}
	}
	if longUptime {
		totalSteps += ms.Net.RunFor(tp, time.Duration(10+tp.Intn(280))*time.Second, 60000)
		simnet.Wait()
		totalSteps += ms.Net.DrainFIFO(tp, 60000)
		ms.CheckPanics("worker-panic")
	}
	e.Ev("drained", uint64(totalSteps), uint64(len(insts)))
	for u := 0; u < n; u++ {
		for _, en := range ms.Nodes[u].Router.Table().VerifEntries() {
			e.Ev("rt", uint64(u), uint64(ms.ByIP[en.DstIP]), uint64(ms.ByIP[en.NextHop]), uint64(en.Path.TotalHops))
		}
	}
	for name, in := range insts {
		bound := mesh.CountSimplePaths(ms.Adj, in.origin, 1<<20)
		if in.crossings > bound {
			e.Fail("more-crossings-than-loop-free-paths", "announcement %s crossed %d links; only %d loop-free paths start at its origin", name[:40], in.crossings, bound)
		}
	}
	if len(insts) > 0 {
		e.Probe("announce_instances_seen")
	}
	maxDepth := 0
	for _, in := range insts {
		for p := range in.paths {
			if d := strings.Count(p, ">"); d > maxDepth {
				maxDepth = d
			}
		}
	}
	if maxDepth >= 4 {
		e.Probe("announce_depth>=4")
	}
	if maxDepth >= 8 {
		e.Probe("announce_depth>=8")
	}

	type want struct{ u, v int }
	var pairs []want
	reach := func(tag string) {
		pairs = nil
		// ---- reach ----
		for u := 0; u < n; u++ {
			for v := 0; v < n; v++ {
				if u != v {
					pairs = append(pairs, want{u, v})
				}
			}
		}
		for _, pr := range pairs {
			u, v := ms.Nodes[pr.u], ms.Nodes[pr.v]
			rte, isDst := u.Router.Table().LookupNearest(v.IP)
			if rte == nil || rte.DstIP != v.IP || !isDst {
				got := "nothing"
				if rte != nil {
					got = rte.DstIP.String()
				}
				e.Fail("no-exact-route-after-drain"+tag, "%s mesh n=%d edges=%v: %s has no exact route to %s (lookup gave %s); %d announce instances, max depth %d",
					ms.Kind, n, ms.Edges, u.Name, v.Name, got, len(insts), maxDepth)
			}
		}
		// Label-switched probes along the stored forward blocks (sampled pairs).
		nProbe := min(len(pairs), 12)
		for _, k := range tp.Perm(len(pairs))[:nProbe] {
			pr := pairs[k]
			u, v := ms.Nodes[pr.u], ms.Nodes[pr.v]
			rte, _ := u.Router.Table().LookupNearest(v.IP)
			if len(rte.Path.Hops) < 2 {
				continue // direct peer route registered by AddLink carries no labels
			}
			var hopIPs []netip.Addr
			for _, h := range rte.Path.Hops {
				hopIPs = append(hopIPs, h.Router)
			}
			var block, final []byte
			var next m.SwitchLabel
			var err error
			e.Guard("panic", func() { block, next, final, err = ms.FinalBlock(slices.Clone(rte.Path.ForwardBlock), hopIPs) })
			if e.Failed() {
				e.Fail("", "")
			}
			if err != nil {
				e.Fail("forward-block-unusable"+tag, "%s route to %s hops %v block %x: %v", u.Name, v.Name, hopNames(ms, rte), rte.Path.ForwardBlock, err)
			}
			e.Logf("probe %s>%s fwd=%x start=%x first=%d final=%x", u.Name, v.Name, rte.Path.ForwardBlock, block, next, final)
			ms.TakeProbes()
			f, err := ms.NewProbeFrame(u, v.IP, block, final, false, fmt.Sprintf("probe %d>%d", pr.u, pr.v))
			if err != nil {
				e.Infra("probe frame: %v", err)
			}
			if err := u.Switch.ForwardByLabel(f, next); err != nil {
				e.Fail("forward-label-has-no-link"+tag, "%s: first forward label %d of route to %s has no link: %v", u.Name, next, v.Name, err)
			}
			simnet.Wait()
			if e.Trace {
				if ss := v.State.GetSession(u.IP); ss != nil {
					e.Logf("  session at %s for %s: key=%x want=%x", v.Name, u.Name, ss.Address().PublicKey, u.ID.PublicKey)
				}
				for _, p := range ms.Net.Pending() {
					if pf, err := mesh.ParseCrossing(parser, p.Data); err == nil {
						fv := pf.(*frame.FrameV1)
						nx, rerr := m.NextRotateSwitchBlock(fv.SwitchBlock(), p.To.SwitchLabel())
						fv.SetTTL(0)
						fv.SetFlowControl(0)
						e.Logf("  offline: recv label %d next=%d err=%v block=%x verify=%v seqtime=%v", p.To.SwitchLabel(), nx, rerr, fv.SwitchBlock(), fv.VerifyRaw(u.ID.PublicKey), fv.SequenceTime())
					}
					e.Logf("  in flight after probe send: %s->%s %x", p.From.Local.Name, p.To.Local.Name, p.Data[:min(len(p.Data), 80)])
				}
			}
			ms.Net.DrainFIFO(tp, 2000)
			got := ms.TakeProbes()
			okAtV := false
			for _, g := range got {
				if g.At != pr.v {
					e.Fail("probe-escalated-at-wrong-router"+tag, "probe %s>%s along hops %v was handed to %s", u.Name, v.Name, hopNames(ms, rte), ms.Nodes[g.At].Name)
				}
				okAtV = true
			}
			if !okAtV {
				e.Fail("forward-labels-do-not-reach-destination"+tag, "%s mesh n=%d: probe %s>%s along hops %v (block %x) was not handed to the destination",
					ms.Kind, n, u.Name, v.Name, hopNames(ms, rte), rte.Path.ForwardBlock)
			}
			e.Probe("label_switched_probe_delivered")
			ms.CheckPanics("worker-panic")
		}
	}
	if linkLostWhileAnnouncing {
		// "After each router has announced itself": the router that lost a link in the middle of
		// its walk has handed its own announcement to every link it still has. (That every
		// router then holds a route to every other one is not demanded here: a router keeps three
		// routes per destination, all three may have led over the lost link, and the others are
		// only learned again with the next round - the statement is about a mesh that stays as
		// it is.)
		O := ms.Nodes[lostAt]
		for _, p := range ms.Adj[lostAt] {
			if p == lostPeer {
				continue
			}
			P := ms.Nodes[p]
			if O.Peering.GetLink(P.IP) == nil {
				continue
			}
			got := false
			for _, in := range insts {
				if in.origin == lostAt && in.paths[P.IP.String()] {
					got = true
				}
			}
			if !got {
				e.Fail("router-did-not-announce-itself-to-a-live-peer/link-lost-while-it-announced", "%s mesh n=%d edges=%v: the link %s-%s went away while %s was announcing itself; %s never handed its announcement to its live link to %s in that round",
					ms.Kind, n, ms.Edges, O.Name, ms.Nodes[lostPeer].Name, O.Name, O.Name, P.Name)
			}
		}
		e.Probe("announcement_round_checked_after_a_link_was_lost_in_the_middle_of_it")
		return
	}
	reach("")

	// ---- links come back with other switch labels (a quarter of the runs) ----
	// Links of one router go down and come up again under other labels - swapped between two
	// of its links where it has two, a fresh label otherwise (a reconnect assigns labels anew).
	// The mesh is the same connected mesh as before; after every router has announced itself
	// again and the network has drained, the routes must lead to their destinations over the
	// labels the links have now.
	if n >= 3 && !opts.LongStagger && tp.Chance(1, 4) {
		// (The copies of the re-announcement round carry one stamp per origin again: with stamps
		// that differ between copies, a copy that arrives later over the shorter path is refused
		// as delayed and a route over the relabelled link keeps its old labels - DESIGN 10.3,
		// observation (ab): a history of label changes, which C09 does not quantify over.)
		ms.Net.AfterSend = nil
		b := tp.Intn(n)
		for tries := 0; tries < 8 && len(ms.Adj[b]) < 2; tries++ {
			b = tp.Intn(n)
		}
		nb := append([]int(nil), ms.Adj[b]...)
		k := 1
		if len(nb) >= 2 {
			k = 2
			p := tp.Perm(len(nb))
			nb = []int{nb[p[0]], nb[p[1]]}
		} else {
			nb = nb[:1]
		}
		type end struct {
			c            int
			atB, atC     m.SwitchLabel
			lat          uint16
			liteB, liteC bool
		}
		var ends []end
		B := ms.Nodes[b]
		for _, c := range nb[:k] {
			C := ms.Nodes[c]
			lb, _ := B.Peering.GetLink(C.IP).(*simnet.Link)
			lc, _ := C.Peering.GetLink(B.IP).(*simnet.Link)
			if lb == nil || lc == nil {
				e.Infra("link objects of edge %d-%d not found", b, c)
			}
			ends = append(ends, end{c: c, atB: lb.SwitchLabel(), atC: lc.SwitchLabel(), lat: lb.Latency(), liteB: lc.Lite(), liteC: lb.Lite()})
			lb.Close(nil)
		}
		simnet.Wait()
		ms.Net.DrainFIFO(tp, 60000)
		for _, en := range ends {
			if B.Peering.GetLink(ms.Nodes[en.c].IP) != nil || ms.Nodes[en.c].Peering.GetLink(B.IP) != nil {
				e.Infra("link %d-%d still registered after close", b, en.c)
			}
		}
		time.Sleep(time.Duration(1+tp.Intn(3000)) * time.Millisecond)
		newAtB := make([]m.SwitchLabel, len(ends))
		if len(ends) == 2 {
			newAtB[0], newAtB[1] = ends[1].atB, ends[0].atB
		} else {
			for {
				l := m.SwitchLabel(1 + tp.Intn(120))
				if l != ends[0].atB && B.Peering.GetLinkByLabel(l) == nil {
					newAtB[0] = l
					break
				}
			}
		}
		for i, en := range ends {
			atC := en.atC
			if tp.Chance(1, 2) {
				for {
					l := m.SwitchLabel(1 + tp.Intn(120))
					if l != en.atC && ms.Nodes[en.c].Peering.GetLinkByLabel(l) == nil {
						atC = l
						break
					}
				}
			}
			if _, _, err := ms.Net.Connect(B, ms.Nodes[en.c], simnet.ConnectOpts{LabelAtA: newAtB[i], LabelAtB: atC, LatencyMs: en.lat, LiteA: en.liteB, LiteB: en.liteC}); err != nil {
				e.Infra("reconnect: %v", err)
			}
		}
		e.Fault("link_flap_new_labels")
		steps := ms.Net.RunFor(tp, 5*time.Minute+time.Second, 60000)
		simnet.Wait()
		steps += ms.Net.DrainFIFO(tp, 60000)
		if steps >= 60000 {
			e.Fail("flood-does-not-terminate", "more than 60000 deliveries after a link flap in a %s mesh of %d nodes", ms.Kind, n)
		}
		ms.CheckPanics("worker-panic")
		if floodViolation != "" {
			e.Fail(floodViolation, "%s", floodDetail)
		}
		reach("/after-links-came-back-with-other-labels")
		e.Probe("links_came_back_with_other_labels")
	}
	e.Sample("%d announce instances, %d deliveries, max hop depth %d, %d pairs reach-checked", len(insts), totalSteps, maxDepth, len(pairs))
}

// runFullStack is the same claim on the complete shipped stack: 3..6 real top-level router
// instances (mycoria.New with the tun interface disabled) that listen on and dial the simulated
// loopback interface with the shipped TCP peering protocol, so that the peering handshake, the
// link layer with its reader and writer workers, keep-alives, the switch and the router all run
// as shipped; only the byte transport is simulated. The tape orders the byte records in flight
// (FIFO per connection direction). After every router has announced itself over its links
// (the shipped announce worker: 5 s after start, then every 5 minutes) and the network has
// drained, every router must hold an exact-destination route to every other router, and a
// routed probe ping from any router must be handed to the destination's handler and to no
// other router's. In a third of the runs one connection then breaks (EOF or I/O error); the
// shipped connect manager re-dials, and after the next announcement round the same must hold.
func runFullStack(e *core.Env) {
	tp := e.Tape
	e.StartClock()
	ms := fullmesh.Build(e, fullmesh.Options{MinNodes: 3, MaxNodes: 6, IdentBase: 8 * tp.Intn(2)})
	n := len(ms.Insts)
	e.Probe("fullstack_run")
	waitLinked := func(max int) bool {
		for k := 0; k < max && !ms.AllLinked(); k++ {
			ms.CN.RunFor(tp, 10*time.Second, 40000)
		}
		return ms.AllLinked()
	}
	// The connect manager retries every second (then every five) while a router has no link
	// at all, and once a minute otherwise.
	if !waitLinked(14) {
		// Whether two honest routers peer is C20's subject; without a connected mesh C09
		// claims nothing. Counted, not judged.
		e.Probe("fullstack_mesh_did_not_come_up")
		return
	}
	ms.CheckPanics("after peering")
	reach := func(tag string) {
		for u := 0; u < n; u++ {
			for v := 0; v < n; v++ {
				if u == v {
					continue
				}
				U, V := ms.Insts[u], ms.Insts[v]
				rte, isDst := U.In.RoutingTable().LookupNearest(V.IP)
				if rte == nil || rte.DstIP != V.IP || !isDst {
					got := "nothing"
					if rte != nil {
						got = rte.DstIP.String()
					}
					e.Fail("full-stack/no-exact-route-after-drain"+tag, "%s mesh of %d real instances, edges %v: %s has no exact route to %s (lookup gave %s)", ms.Kind, n, ms.Edges, U.Name, V.Name, got)
				}
			}
		}
		// routed probes between sampled pairs
		type pr struct{ u, v int }
		var pairs []pr
		for u := 0; u < n; u++ {
			for v := 0; v < n; v++ {
				if u != v {
					pairs = append(pairs, pr{u, v})
				}
			}
		}
		for _, k := range tp.Perm(len(pairs))[:min(len(pairs), 8)] {
			p := pairs[k]
			ms.TakeProbes()
			payload := fmt.Sprintf("probe %d>%d", p.u, p.v)
			if err := ms.SendProbe(p.u, p.v, payload); err != nil {
				e.Fail("full-stack/probe-not-routable"+tag, "%s cannot route a probe to %s although it holds an exact route: %v", ms.Insts[p.u].Name, ms.Insts[p.v].Name, err)
			}
			ms.CN.RunFor(tp, 2*time.Second, 20000)
			at := false
			for _, g := range ms.TakeProbes() {
				if g.Payload != payload {
					continue
				}
				if g.At != p.v {
					e.Fail("full-stack/probe-handled-at-wrong-router"+tag, "probe %s>%s was handed to %s", ms.Insts[p.u].Name, ms.Insts[p.v].Name, ms.Insts[g.At].Name)
				}
				if g.Src != ms.Insts[p.u].IP {
					e.Fail("full-stack/probe-source-changed"+tag, "probe of %s arrived with source %s", ms.Insts[p.u].Name, g.Src)
				}
				at = true
			}
			if !at {
				e.Fail("full-stack/routed-probe-not-delivered"+tag, "%s mesh of %d real instances, edges %v: probe %s>%s was not handed to the destination within 2 s of a quiet, converged mesh", ms.Kind, n, ms.Edges, ms.Insts[p.u].Name, ms.Insts[p.v].Name)
			}
			e.Probe("fullstack_routed_probe_delivered")
		}
		ms.CheckPanics("reach" + tag)
	}
	// One full announcement round with all links up, then drain.
	ms.CN.RunFor(tp, 5*time.Minute+10*time.Second, 400000)
	ms.CN.DrainFIFO(tp, 20000)
	if !ms.AllLinked() {
		e.Probe("fullstack_link_lost_without_fault")
		return
	}
	reach("")
	e.Probe("fullstack_reach_checked")
	if tp.Chance(1, 3) {
		ps := ms.CN.Pairs()
		var live []*simnet.ConnPair
		for _, p := range ps {
			if !p.A.IsClosed() && !p.B.IsClosed() {
				live = append(live, p)
			}
		}
		if len(live) > 0 {
			p := live[tp.Intn(len(live))]
			if tp.Chance(1, 2) {
				p.A.FailReads(simnet.ErrSimIO)
			} else {
				ms.CN.DeliverBytes(p.B, nil, true)
			}
			e.Fault("link_break")
			ms.CN.RunFor(tp, 5*time.Second, 40000)
			if !waitLinked(14) {
				e.Probe("fullstack_mesh_did_not_come_back")
				return
			}
			ms.CN.RunFor(tp, 5*time.Minute+10*time.Second, 400000)
			ms.CN.DrainFIFO(tp, 20000)
			if !ms.AllLinked() {
				e.Probe("fullstack_link_lost_without_fault")
				return
			}
			reach("/after-a-connection-broke-and-was-redialled")
			e.Probe("fullstack_reach_checked_after_redial")
		}
	}
	e.Sample("full stack: %s mesh of %d real instances, %d connections", ms.Kind, n, len(ms.CN.Pairs()))
}

// connectedWithout reports whether the graph stays connected without the edge a-b.
func connectedWithout(adj [][]int, a, b int) bool {
	seen := make([]bool, len(adj))
	stack := []int{0}
	seen[0] = true
	for len(stack) > 0 {
		u := stack[len(stack)-1]
		stack = stack[:len(stack)-1]
		for _, v := range adj[u] {
			if (u == a && v == b) || (u == b && v == a) || seen[v] {
				continue
			}
			seen[v] = true
			stack = append(stack, v)
		}
	}
	for _, s := range seen {
		if !s {
			return false
		}
	}
	return true
}

func hopNames(ms *mesh.Mesh, rte *m.RoutingTableEntry) []string {
	var out []string
	for _, h := range rte.Path.Hops {
		if i, ok := ms.ByIP[h.Router]; ok {
			out = append(out, fmt.Sprintf("%s(f%d,r%d)", ms.Nodes[i].Name, h.ForwardLabel, h.ReturnLabel))
		} else {
			out = append(out, h.Router.String())
		}
	}
	return out
}

var _ = netip.Addr{}

func TestCheck(t *testing.T) {
	core.Main(t, &core.Check{
		ID:             "C09",
		QuickRuns:      480,
		ThoroughRuns:   30000,
		MinimiseBudget: 120,
		Run:            run,
	})
}
