// C15 Sequence numbers never repeat under one key; key rollover stays in sync.
//
// Simulated system: the real state package compiled against simsync/simatomic
// (import-path overlay), so that every Lock/Unlock/atomic operation is a
// scheduling point of a cooperative scheduler that runs exactly one task at a
// time and picks the next one from the tape. 2..8 sender tasks call the real
// Frame.Seal / LinkFrame.Seal on one session whose regular sequence starts
// within +-300 of the 32-bit wrap; the receiver unseals in order or with
// displacement <= 8.
package c15

import (
	"bytes"
	"fmt"
	"sort"
	"testing"

	"golang.org/x/crypto/chacha20poly1305"

	"github.com/mycoria/mycoria/frame"
	"github.com/mycoria/mycoria/peering"
	"github.com/mycoria/mycoria/state"

	"mycoverif/core"
	"mycoverif/ident"
	"mycoverif/node"
	"mycoverif/simsync"
)

type sealedFrame struct {
	prio  bool
	seq   uint32
	epoch int
	data  []byte
	task  int
}

func trialOpen(key []byte, link bool, data []byte) bool {
	c, err := chacha20poly1305.New(key)
	if err != nil {
		return false
	}
	if link {
		_, err = c.Open(nil, data[:12], data[12:], nil)
		return err == nil
	}
	// End-to-end frame without switch block: nonce = bytes 4..15, associated
	// data = header + switch block length + message length with TTL and flow
	// flags cleared, ciphertext = message + MAC.
	aad := append([]byte(nil), data[:51]...)
	aad[1], aad[2] = 0, 0
	_, err = c.Open(nil, data[4:16], data[51:], aad)
	return err == nil
}

func run(e *core.Env) {
	tp := e.Tape
	if tp.Chance(1, 8) {
		runStrayThenRekeyThenWrap(e)
		return
	}
	e.StartClock()
	mk := func(name string, i int) *node.Node {
		id := ident.Get(ident.Routable, i)
		n, err := node.New(name, id, node.BaseStore(id), node.Options{})
		if err != nil {
			e.Infra("node: %v", err)
		}
		return n
	}
	S, R := mk("S", 0), mk("R", 1)
	_ = S.State.AddRouter(&R.ID.PublicAddress)
	_ = R.State.AddRouter(&S.ID.PublicAddress)
	sSess, rSess := S.State.GetSession(R.IP), R.State.GetSession(S.IP)
	kx, kxt, err := sSess.Encryption().InitKeyClientStart()
	if err != nil {
		e.Infra("kx: %v", err)
	}
	kx2, kxt2, err := rSess.Encryption().InitKeyServer(kx, kxt)
	if err != nil {
		e.Infra("kx: %v", err)
	}
	if err := sSess.Encryption().InitKeyClientComplete(kx2, kxt2); err != nil {
		e.Infra("kx: %v", err)
	}
	link := tp.Chance(1, 3)
	sEnc, rEnc := sSess.Encryption(), rSess.Encryption()
	if link {
		sEnc, err = sSess.Encryption().DeriveSessionFromKX(true, "link layer crypt")
		if err != nil {
			e.Infra("derive: %v", err)
		}
		rEnc, err = rSess.Encryption().DeriveSessionFromKX(false, "link layer crypt")
		if err != nil {
			e.Infra("derive: %v", err)
		}
		e.Probe("link_session")
	} else {
		e.Probe("end_to_end_session")
	}
	sSess.Encryption().InitCleanup()
	rSess.Encryption().InitCleanup()
	sh := &state.EncryptionSessionTestHelper{EncryptionSession: sEnc}

	// Start the regular sequence within +-300 of the wrap.
	off := tp.Intn(601) - 300
	var start uint32
	if off > 0 {
		start = 0xFFFFFFFF - uint32(off)
	} else {
		start = uint32(-off)
	}
	sh.ReglSetOut(start)
	if !link && tp.Chance(1, 2) {
		sh.PrioSetOut(uint32(tp.Intn(5000)))
	}
	k0 := append([]byte(nil), sh.OutKey()...)

	nTasks := 2 + tp.Intn(7)
	total := 40 + tp.Intn(560)
	per := total / nTasks
	var sealed []*sealedFrame
	prioShare := tp.Intn(4) // 0: none .. 3: many
	mkTask := func(id int) func() {
		return func() {
			for i := 0; i < per; i++ {
				prio := !link && prioShare > 0 && tp.Intn(6) < prioShare
				payload := []byte(fmt.Sprintf("task %d frame %d ..............................", id, i))
				if link {
					inner, err := S.Inst.Builder.NewFrameV1(S.IP, R.IP, frame.RouterPing, nil, payload, nil)
					if err != nil {
						panic(err)
					}
					d, err := inner.FrameDataWithMargins(peering.FrameOffset, peering.FrameOverhead)
					if err != nil {
						panic(err)
					}
					lf := peering.LinkFrame(d)
					if err := lf.Seal(sEnc); err != nil {
						panic("seal: " + err.Error())
					}
					sealed = append(sealed, &sealedFrame{seq: lf.SequenceNum(), data: append([]byte(nil), d...), task: id})
					inner.ReturnToPool()
					continue
				}
				mt := frame.NetworkTraffic
				if prio {
					mt = frame.RouterCtrl
				}
				f, err := S.Inst.Builder.NewFrameV1(S.IP, R.IP, mt, nil, payload, nil)
				if err != nil {
					panic(err)
				}
				if err := f.Seal(sSess); err != nil {
					panic("seal: " + err.Error())
				}
				d, _ := f.FrameDataWithMargins(0, 0)
				sealed = append(sealed, &sealedFrame{prio: prio, seq: f.SequenceNum(), data: append([]byte(nil), d...), task: id})
				f.ReturnToPool()
			}
		}
	}
	var fns []func()
	for i := 0; i < nTasks; i++ {
		fns = append(fns, mkTask(i))
	}
	// In a quarter of the end-to-end runs a key setup is *refused* on the live session while the
	// senders seal: a hello request of the peer whose exchange key is a low-order point (32 zero
	// bytes: accepted as a key, refused by the exchange), or a completion without a pending
	// exchange. A refused setup installs nothing - the keys stay, and so must the counters.
	refusedSetup, refusedErr := false, error(nil)
	if !link && tp.Chance(1, 4) {
		refusedSetup = true
		lowOrder := tp.Chance(1, 2)
		fns = append(fns, func() {
			if lowOrder {
				_, _, refusedErr = sEnc.InitKeyServer(make([]byte, 32), kxt)
			} else {
				refusedErr = sEnc.InitKeyClientComplete(kx2, kxt2)
			}
		})
	}
	// Swarm: per run a different appetite for switching (tight vs long runs).
	switchDen := []int{2, 3, 5, 10, 40}[tp.Intn(5)]
	stats := simsync.RunTasks(func(n, cur int) int {
		if cur >= 0 && !tp.Chance(1, switchDen) {
			return cur
		}
		return tp.Intn(n)
	}, fns)
	e.ProbeN("task_switches", stats.Switches)
	e.ProbeN("scheduling_points", stats.Yields)
	e.Fault("task_switch")
	if stats.Deadlock {
		e.Fail("sender-tasks-deadlock", "concurrent Seal calls deadlocked")
	}
	for _, p := range stats.Panics {
		e.Fail("seal-failed-or-panicked", "a sender task failed: %v", p)
	}
	if refusedSetup {
		if refusedErr == nil {
			// the setup went through: new keys, another history than the one this run is about
			e.Probe("key_setup_expected_to_be_refused_went_through")
			return
		}
		e.Probe("key_setup_refused_on_the_live_session")
	}
	k1 := append([]byte(nil), sh.OutKey()...)
	rolled := !bytes.Equal(k0, k1)
	if rolled {
		e.Probe("rollover_crossed")
	}
	nReg := 0
	for _, sf := range sealed {
		if !sf.prio {
			nReg++
		}
	}
	wantRoll := off > 0 && uint64(nReg) >= (1<<32)-uint64(start)
	e.Logf("link=%v off=%d tasks=%d frames=%d rolled=%v", link, off, nTasks, len(sealed), rolled)

	// ---- (1) no sequence number twice under one key and class ----
	type ck struct {
		prio  bool
		epoch int
		seq   uint32
	}
	seen := map[ck]*sealedFrame{}
	for _, sf := range sealed {
		switch {
		case trialOpen(k0, link, sf.data):
			sf.epoch = 0
		case rolled && trialOpen(k1, link, sf.data):
			sf.epoch = 1
		default:
			e.Fail("frame-sealed-under-neither-epoch-key", "frame class prio=%v number %d opens neither under the key before nor under the key after the run", sf.prio, sf.seq)
		}
		key := ck{sf.prio, sf.epoch, sf.seq}
		if other := seen[key]; other != nil {
			e.Fail("sequence-number-reused-under-one-key", "tasks %d and %d both sealed a frame with number %d (priority=%v) under the same key: the AEAD nonce repeats",
				other.task, sf.task, sf.seq, sf.prio)
		}
		seen[key] = sf
		if sf.seq == 0 {
			e.Fail("sequence-number-zero-used", "a frame carries sequence number 0")
		}
	}
	if wantRoll != rolled {
		e.Fail("rollover-expectation-mismatch", "start %#x, %d regular frames: sender rolled=%v", start, nReg, rolled)
	}

	// ---- order the frames as an in-order receiver would see them ----
	var e0, e1r, e1p []*sealedFrame
	for _, sf := range sealed {
		switch {
		case sf.epoch == 0:
			e0 = append(e0, sf)
		case sf.prio:
			e1p = append(e1p, sf)
		default:
			e1r = append(e1r, sf)
		}
	}
	bySeq := func(s []*sealedFrame) {
		sort.Slice(s, func(i, j int) bool {
			if s[i].prio != s[j].prio {
				return !s[i].prio
			}
			return s[i].seq < s[j].seq
		})
	}
	// epoch 0: regular and priority interleaved but each class ascending
	var e0r, e0p []*sealedFrame
	for _, sf := range e0 {
		if sf.prio {
			e0p = append(e0p, sf)
		} else {
			e0r = append(e0r, sf)
		}
	}
	bySeq(e0r)
	bySeq(e0p)
	bySeq(e1r)
	bySeq(e1p)
	merge := func(a, b []*sealedFrame) []*sealedFrame {
		var out []*sealedFrame
		for len(a) > 0 || len(b) > 0 {
			if len(b) == 0 || (len(a) > 0 && tp.Chance(1, 2)) {
				out, a = append(out, a[0]), a[1:]
			} else {
				out, b = append(out, b[0]), b[1:]
			}
		}
		return out
	}
	stream := merge(e0r, e0p)
	if len(e1r) > 0 {
		stream = append(stream, e1r[0])
		stream = append(stream, merge(e1r[1:], e1p)...)
	} else {
		stream = append(stream, e1p...)
	}

	deliver := func(sf *sealedFrame) error {
		if link {
			return peering.LinkFrame(append([]byte(nil), sf.data...)).Unseal(rEnc)
		}
		ps := R.Inst.Builder.GetPooledSlice(len(sf.data) + 28)
		copy(ps[12:], sf.data)
		f, err := R.Inst.Builder.ParseFrame(ps[12:12+len(sf.data)], ps, 12)
		if err != nil {
			return err
		}
		defer f.ReturnToPool()
		return f.Unseal(rSess)
	}

	reorder := tp.Chance(1, 2) && len(e0r) >= 12
	if reorder {
		// displacement <= 8: swaps stay inside blocks of nine (swapping along the whole
		// stream can carry one frame further than the receive window reaches, and a frame
		// more than 64 behind the newest is refused by design)
		for b := 0; b < len(stream); b += 9 {
			n := min(9, len(stream)-b)
			for k := 0; k < n; k++ {
				if j := tp.Intn(n); j != k && tp.Chance(1, 3) {
					stream[b+k], stream[b+j] = stream[b+j], stream[b+k]
				}
			}
		}
		e.Fault("reorder")
	}
	// The session is duplex: in half of the end-to-end runs the receiver also sends priority
	// frames back while it works through the stream. Its own out key never changes in the run, so
	// none of its priority numbers may repeat - also not when the *peer's* sequence wraps - and
	// each of its frames unseals once at the other side, not twice.
	duplex := !link && tp.Chance(1, 2)
	backRegular := tp.Chance(1, 2) // the receiver's own frames: priority only, or both classes
	type backFrame struct {
		prio bool
		seq  uint32
		key  string
		data []byte
	}
	var back []backFrame
	rh := &state.EncryptionSessionTestHelper{EncryptionSession: rSess.Encryption()}
	sendBack := func() {
		// its own frames are of both classes: neither counter may be touched by the peer's wrap
		prio := backRegular == false || tp.Chance(1, 2)
		mt := frame.RouterCtrl
		if !prio {
			mt = frame.NetworkTraffic
		}
		f, err := R.Inst.Builder.NewFrameV1(R.IP, S.IP, mt, nil, []byte("frame of the receiving router .........."), nil)
		if err != nil {
			e.Infra("frame: %v", err)
		}
		if err := f.Seal(rSess); err != nil {
			e.Fail("seal-failed-or-panicked", "the receiver cannot seal a frame of its own (priority=%v): %v", prio, err)
		}
		d, _ := f.FrameDataWithMargins(0, 0)
		bf := backFrame{prio: prio, seq: f.SequenceNum(), key: string(rh.OutKey()), data: append([]byte(nil), d...)}
		f.ReturnToPool()
		for _, o := range back {
			if o.prio == bf.prio && o.seq == bf.seq && o.key == bf.key {
				e.Fail("sequence-number-reused-under-one-key/reverse-direction",
					"the receiving router sealed two frames of its own (priority=%v) with number %d under one unchanged out key (after %d own frames; the peer's sequence wrapped: %v)", bf.prio, bf.seq, len(back), rolled)
			}
		}
		back = append(back, bf)
	}
	unsealAtS := func(bf backFrame) error {
		ps := S.Inst.Builder.GetPooledSlice(len(bf.data) + 28)
		copy(ps[12:], bf.data)
		f, err := S.Inst.Builder.ParseFrame(ps[12:12+len(bf.data)], ps, 12)
		if err != nil {
			return err
		}
		defer f.ReturnToPool()
		return f.Unseal(sSess)
	}
	if duplex {
		e.Probe("duplex_run")
		for k := 0; k < 3; k++ {
			sendBack()
		}
	}
	rEpoch := 0
	for i, sf := range stream {
		if duplex && tp.Chance(1, 6) {
			sendBack()
		}
		if !sf.prio && sf.epoch == 1 && rEpoch == 0 {
			rEpoch = 1 // the first regular frame of the new epoch moves the receiver on
		}
		want := sf.epoch == rEpoch
		var err error
		if e.Guard("panic-in-unseal", func() { err = deliver(sf) }) {
			e.Fail("", "")
		}
		e.Ev("rx", b2u(sf.prio), uint64(sf.seq), uint64(sf.epoch), b2u(err == nil))
		switch {
		case want && err != nil:
			where := "in-order"
			if reorder {
				where = "reordered"
			}
			side := "same-epoch"
			if rolled {
				side = "around-wrap"
			}
			e.Fail("fresh-frame-refused/"+where+"/"+side,
				"delivery %d/%d (%s): frame priority=%v number %d of epoch %d refused while the receiver is in epoch %d: %v",
				i, len(stream), where, sf.prio, sf.seq, sf.epoch, rEpoch, err)
		case !want && err == nil:
			e.Fail("frame-of-other-epoch-accepted", "frame priority=%v number %d sealed in epoch %d unsealed although the receiver is in epoch %d", sf.prio, sf.seq, sf.epoch, rEpoch)
		}
		if !want {
			e.Probe("old_epoch_frame_refused_after_rollover")
		}
	}
	if duplex {
		for k := 0; k < 3; k++ {
			sendBack()
		}
		// The receiver's frames arrive at the (wrapped) sender: each once.
		for i, bf := range back {
			if err := unsealAtS(bf); err != nil {
				e.Fail("fresh-frame-refused/reverse-direction", "frame %d of the receiving router (priority=%v number %d) does not unseal at its peer: %v", i, bf.prio, bf.seq, err)
			}
		}
		for _, i := range []int{0, len(back) / 2, len(back) - 1} {
			if err := unsealAtS(back[i]); err == nil {
				e.Fail("dup-accepted/reverse-direction", "frame %d of the receiving router (priority=%v number %d) unseals a second time at its peer (peer's own sequence wrapped: %v)", i, back[i].prio, back[i].seq, rolled)
			}
		}
	}
	// ---- at the end both are in the same epoch: one more frame of each class ----
	classes := []bool{false}
	if !link {
		classes = append(classes, true)
	}
	for _, prio := range classes {
		var sf *sealedFrame
		if link {
			inner, _ := S.Inst.Builder.NewFrameV1(S.IP, R.IP, frame.RouterPing, nil, []byte("final"), nil)
			d, _ := inner.FrameDataWithMargins(peering.FrameOffset, peering.FrameOverhead)
			lf := peering.LinkFrame(d)
			if err := lf.Seal(sEnc); err != nil {
				e.Fail("seal-failed-or-panicked", "final seal: %v", err)
			}
			sf = &sealedFrame{seq: lf.SequenceNum(), data: append([]byte(nil), d...)}
		} else {
			mt := frame.NetworkTraffic
			if prio {
				mt = frame.RouterCtrl
			}
			f, _ := S.Inst.Builder.NewFrameV1(S.IP, R.IP, mt, nil, []byte("final frame of the run"), nil)
			if err := f.Seal(sSess); err != nil {
				e.Fail("seal-failed-or-panicked", "final seal: %v", err)
			}
			d, _ := f.FrameDataWithMargins(0, 0)
			sf = &sealedFrame{prio: prio, seq: f.SequenceNum(), data: append([]byte(nil), d...)}
		}
		if err := deliver(sf); err != nil {
			e.Fail("sender-and-receiver-out-of-sync-at-end", "after the run a fresh frame (priority=%v number %d) does not unseal: %v (sender rolled=%v)", prio, sf.seq, err, rolled)
		}
	}
	// ---- a second wrap on the same session (a third of the runs that wrapped once) ----
	// Sequential and in order: whatever the first roll-over left behind on either side meets
	// the next one.
	if rolled && tp.Chance(1, 3) {
		sh.ReglSetOut(0xFFFFFFFF - uint32(2+tp.Intn(20)))
		sealOne := func(k int) *sealedFrame {
			if link {
				inner, _ := S.Inst.Builder.NewFrameV1(S.IP, R.IP, frame.RouterPing, nil, []byte(fmt.Sprintf("second wrap %d", k)), nil)
				d, _ := inner.FrameDataWithMargins(peering.FrameOffset, peering.FrameOverhead)
				lf := peering.LinkFrame(d)
				if err := lf.Seal(sEnc); err != nil {
					e.Fail("seal-failed-or-panicked", "seal around the second wrap: %v", err)
				}
				return &sealedFrame{seq: lf.SequenceNum(), data: append([]byte(nil), d...)}
			}
			f, _ := S.Inst.Builder.NewFrameV1(S.IP, R.IP, frame.NetworkTraffic, nil, []byte(fmt.Sprintf("second wrap frame %d ..........", k)), nil)
			if err := f.Seal(sSess); err != nil {
				e.Fail("seal-failed-or-panicked", "seal around the second wrap: %v", err)
			}
			d, _ := f.FrameDataWithMargins(0, 0)
			return &sealedFrame{seq: f.SequenceNum(), data: append([]byte(nil), d...)}
		}
		for k := 0; k < 45; k++ {
			sf := sealOne(k)
			if err := deliver(sf); err != nil {
				e.Fail("fresh-frame-refused/in-order/second-wrap", "frame %d around the second wrap of one session (number %d) does not unseal: %v", k, sf.seq, err)
			}
		}
		e.Probe("second_wrap_on_one_session")
	}
	// ---- two receive workers at the wrap (a quarter of the end-to-end runs) ----
	// A router unseals end-to-end frames on one worker per CPU. The last frame of the old epoch
	// and the first one of the new epoch are unsealed by two tasks at once, the tape choosing
	// who runs at every lock boundary of the session; either may be refused (it lost the race
	// for the key change), but afterwards the receiver must be where the sender is: the next
	// frames of the new epoch unseal.
	// (Only where moving the counter forward cannot repeat a number already used under the
	// current key: after the main run wrapped, or when it started far below the wrap.)
	if !link && (rolled || off <= 0) && tp.Chance(1, 3) {
		sh.ReglSetOut(0xFFFFFFFF - uint32(3+tp.Intn(6)))
		sealReg := func(k int) *sealedFrame {
			f, _ := S.Inst.Builder.NewFrameV1(S.IP, R.IP, frame.NetworkTraffic, nil, []byte(fmt.Sprintf("two workers at the wrap, frame %d ......", k)), nil)
			if err := f.Seal(sSess); err != nil {
				e.Fail("seal-failed-or-panicked", "seal around the wrap: %v", err)
			}
			d, _ := f.FrameDataWithMargins(0, 0)
			sf := &sealedFrame{seq: f.SequenceNum(), data: append([]byte(nil), d...)}
			f.ReturnToPool()
			return sf
		}
		sealPrioFrame := func(k int) *sealedFrame {
			f, _ := S.Inst.Builder.NewFrameV1(S.IP, R.IP, frame.RouterCtrl, nil, []byte(fmt.Sprintf("two workers at the wrap, priority frame %d", k)), nil)
			if err := f.Seal(sSess); err != nil {
				return nil // (the priority class may have been wrapped by the scenario before)
			}
			d, _ := f.FrameDataWithMargins(0, 0)
			sf := &sealedFrame{prio: true, seq: f.SequenceNum(), data: append([]byte(nil), d...)}
			f.ReturnToPool()
			return sf
		}
		// in half of the cases the frame in flight at the wrap is a priority frame of the old key
		var prioOld *sealedFrame
		if tp.Chance(1, 2) {
			if tp.Chance(2, 3) {
				// the priority class has seen some traffic under the old key (the counter only
				// moves forward): the old frame's number lies far above the first numbers of the
				// next epoch
				if probe := sealPrioFrame(-1); probe != nil && probe.seq < 0xFFFF0000 {
					sh.PrioSetOut(probe.seq + 65 + uint32(tp.Intn(3000))) // (the probe frame itself is lost)
				}
			}
			prioOld = sealPrioFrame(0)
		}
		var fs []*sealedFrame
		for k := 0; k < 14; k++ {
			fs = append(fs, sealReg(k))
		}
		var prioNew []*sealedFrame
		if prioOld != nil {
			for k := 1; k <= 3; k++ {
				if sf := sealPrioFrame(k); sf != nil {
					prioNew = append(prioNew, sf)
				}
			}
		}
		lastOld := -1
		for i, sf := range fs {
			if sf.seq == 0xFFFFFFFF {
				lastOld = i
			}
		}
		if lastOld >= 1 && lastOld+3 < len(fs) && fs[lastOld+1].seq == 1 {
			for _, sf := range fs[:lastOld] {
				if err := deliver(sf); err != nil {
					e.Fail("fresh-frame-refused/in-order/before-the-wrap", "frame number %d before the wrap does not unseal: %v", sf.seq, err)
				}
			}
			var errOld, errNew error
			inFlight := fs[lastOld]
			if prioOld != nil {
				// the last regular frame of the old key is delivered first; the priority frame of
				// the old key is the one that races with the key change
				if err := deliver(fs[lastOld]); err != nil {
					e.Fail("fresh-frame-refused/in-order/before-the-wrap", "frame number %d before the wrap does not unseal: %v", fs[lastOld].seq, err)
				}
				inFlight = prioOld
				e.Probe("priority_frame_in_flight_at_the_wrap")
			}
			st := simsync.RunTasks(func(n, cur int) int {
				if cur >= 0 && !tp.Chance(1, 2) {
					return cur
				}
				return tp.Intn(n)
			}, []func(){
				func() { errOld = deliver(inFlight) },
				func() { errNew = deliver(fs[lastOld+1]) },
			})
			if st.Deadlock {
				e.Fail("receiver-tasks-deadlock", "two concurrent Unseal calls deadlocked")
			}
			for _, p := range st.Panics {
				e.Fail("panic-in-unseal", "a receive task panicked: %v", p)
			}
			e.Ev("two-rx", b2u(errOld == nil), b2u(errNew == nil))
			if errNew != nil {
				// the first frame of the new epoch lost: the sender would go on, so does the test
				e.Probe("first_frame_of_new_epoch_refused_under_concurrency")
			}
			for _, sf := range fs[lastOld+2:] {
				if err := deliver(sf); err != nil {
					e.Fail("fresh-frame-refused/two-receive-workers-at-the-wrap",
						"the last frame of the old epoch (result: %v) and the first of the new one (result: %v) were unsealed by two workers at once; afterwards frame number %d of the new epoch does not unseal: %v",
						errOld, errNew, sf.seq, err)
				}
			}
			if errNew == nil {
				for _, sf := range prioNew {
					if err := deliver(sf); err != nil {
						e.Fail("fresh-frame-refused/two-receive-workers-at-the-wrap",
							"a priority frame of the old epoch (result: %v) and the first regular frame of the new one were unsealed by two workers at once; afterwards priority frame number %d of the new epoch does not unseal: %v",
							errOld, sf.seq, err)
					}
				}
			}
			e.Probe("two_receive_workers_at_the_wrap")
		}
	}

	// ---- the priority class wraps on its own (a quarter of the end-to-end runs) ----
	// The sender refuses to seal at the wrap (that refusal is outside the claim). What it must
	// not do is carry on: without a new key every further priority number was used before.
	// The counter is moved forward by the harness (standing in for four billion frames); the
	// numbers sealed before the jump are remembered per key.
	if !link && tp.Chance(1, 4) {
		type pk struct {
			key string
			seq uint32
		}
		used := map[pk]bool{}
		refusals := 0
		sealPrio := func(k int) {
			f, _ := S.Inst.Builder.NewFrameV1(S.IP, R.IP, frame.RouterCtrl, nil, []byte(fmt.Sprintf("priority wrap frame %d", k)), nil)
			defer f.ReturnToPool()
			if err := f.Seal(sSess); err != nil {
				refusals++
				return
			}
			id := pk{string(sh.OutKey()), f.SequenceNum()}
			if used[id] {
				e.Fail("sequence-number-reused-under-one-key/priority-class-wrapped", "priority number %d sealed twice under one key (after the priority class wrapped and was refused %d times): the AEAD nonce repeats", f.SequenceNum(), refusals)
			}
			used[id] = true
		}
		sh.PrioSetOut(0)
		for k, n := 0, 5+tp.Intn(40); k < n; k++ {
			sealPrio(k)
		}
		sh.PrioSetOut(0xFFFFFFFF - uint32(tp.Intn(12)))
		for k, n := 0, 14+tp.Intn(50); k < n; k++ {
			sealPrio(100 + k)
			if tp.Chance(1, 5) {
				// regular traffic goes on (far from its own wrap)
				f, _ := S.Inst.Builder.NewFrameV1(S.IP, R.IP, frame.NetworkTraffic, nil, []byte("regular in between"), nil)
				_ = f.Seal(sSess)
				f.ReturnToPool()
			}
		}
		if refusals > 0 {
			e.Probe("priority_class_wrapped_and_was_refused")
		}
	}
	// ---- the same key-setup request is served twice (a quarter of the end-to-end runs) ----
	// S starts a new key setup the way the hello ping does (an exchange on an object of its own);
	// its request reaches R's live session, R seals frames under the new keys - and then a copy of
	// the very same request is served once more (the layer above remembers handled requests for
	// a while, not for ever). Whatever R answers the second time, no frame R seals afterwards may
	// repeat a (key, class, number) of a frame it sealed before.
	if !link && tp.Chance(1, 4) {
		type pk struct {
			key  string
			prio bool
			seq  uint32
		}
		used := map[pk]string{}
		rh2 := &state.EncryptionSessionTestHelper{EncryptionSession: rSess.Encryption()}
		sealAtR := func(tag string, k int) {
			prio := tp.Chance(1, 3)
			mt := frame.NetworkTraffic
			if prio {
				mt = frame.RouterCtrl
			}
			f, _ := R.Inst.Builder.NewFrameV1(R.IP, S.IP, mt, nil, []byte(fmt.Sprintf("%s frame %d", tag, k)), nil)
			defer f.ReturnToPool()
			if err := f.Seal(rSess); err != nil {
				return
			}
			id := pk{string(rh2.OutKey()), prio, f.SequenceNum()}
			if before, dup := used[id]; dup {
				e.Fail("sequence-number-reused-under-one-key/same-setup-request-served-twice", "number %d (priority=%v) sealed %s was already sealed under the same key %s: the AEAD nonce repeats", f.SequenceNum(), prio, tag, before)
			}
			used[id] = tag
		}
		for k, n := 0, tp.Intn(6); k < n; k++ {
			sealAtR("before the new setup", k)
		}
		cl := state.NewEncryptionSession()
		ckx, ckxt, err := cl.InitKeyClientStart()
		if err != nil {
			e.Infra("kx: %v", err)
		}
		if _, _, err := rSess.Encryption().InitKeyServer(ckx, ckxt); err != nil {
			e.Infra("kx: %v", err)
		}
		for k, n := 0, 1+tp.Intn(30); k < n; k++ {
			sealAtR("after the request was served", k)
		}
		_, _, _ = rSess.Encryption().InitKeyServer(ckx, ckxt)
		for k, n := 0, 1+tp.Intn(30); k < n; k++ {
			sealAtR("after a copy of the request was served", k)
		}
		e.Probe("same_setup_request_served_twice")
	}
	if rolled && !link && len(e1p) > 0 {
		e.Probe("prio_reset_after_rollover")
	}
	e.Sample("link=%v start offset %d from the wrap, %d tasks, %d frames, %d task switches, rolled=%v, reordered delivery=%v", link, off, nTasks, len(sealed), stats.Switches, rolled, reorder)
}

func b2u(b bool) uint64 {
	if b {
		return 1
	}
	return 0
}

func TestCheck(t *testing.T) {
	core.Main(t, &core.Check{
		ID:             "C15",
		QuickRuns:      600,
		ThoroughRuns:   80000,
		MinimiseBudget: 120,
		Run:            run,
	})
}
