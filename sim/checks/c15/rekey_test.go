package c15

// Wave 15: a stray frame inside the roll-over window, then new keys on the same session object,
// then the wrap. The receiver is within 255 numbers of the wrap when it is handed a frame with a
// small number that does not authenticate (garbage, or a frame of a peer whose keys it does not
// have): whatever the receiver prepares for "the next key" at that moment belongs to the keys it
// holds now. New keys are then set up the way the hello ping does it (the receiver serves the
// request on its live session object, the sender installs a fresh object). When the regular
// sequence then wraps under the new keys, sender and receiver must move to the same next key:
// every frame sealed just before and after the wrap unseals, in order.

import (
	"bytes"
	"fmt"

	"github.com/mycoria/mycoria/frame"
	"github.com/mycoria/mycoria/state"

	"mycoverif/core"
	"mycoverif/ident"
	"mycoverif/node"
)

func runStrayThenRekeyThenWrap(e *core.Env) {
	tp := e.Tape
	e.StartClock()
	e.Probe("stray_frame_then_new_keys_then_wrap")
	mk := func(name string, i int) *node.Node {
		id := ident.Get(ident.Routable, i)
		n, err := node.New(name, id, node.BaseStore(id), node.Options{})
		if err != nil {
			e.Infra("node: %v", err)
		}
		return n
	}
	S, R := mk("S", 0), mk("R", 1)
	_ = S.State.AddRouter(&R.ID.PublicAddress)
	_ = R.State.AddRouter(&S.ID.PublicAddress)
	sSess, rSess := S.State.GetSession(R.IP), R.State.GetSession(S.IP)
	setup := func() {
		cl := state.NewEncryptionSession()
		kx, kxt, err := cl.InitKeyClientStart()
		if err != nil {
			e.Infra("kx: %v", err)
		}
		kx2, kxt2, err := rSess.Encryption().InitKeyServer(kx, kxt)
		if err != nil {
			e.Infra("kx: %v", err)
		}
		if err := cl.InitKeyClientComplete(kx2, kxt2); err != nil {
			e.Infra("kx: %v", err)
		}
		cl.InitCleanup()
		sSess.SetEncryptionSession(cl)
	}
	setup()
	parser := R.Inst.Builder
	seal := func(k int) (uint32, []byte) {
		f, err := S.Inst.Builder.NewFrameV1(S.IP, R.IP, frame.NetworkTraffic, nil, []byte(fmt.Sprintf("frame %d ...............", k)), nil)
		if err != nil {
			e.Infra("frame: %v", err)
		}
		defer f.ReturnToPool()
		if err := f.Seal(sSess); err != nil {
			e.Fail("seal-failed-or-panicked", "seal: %v", err)
		}
		d, _ := f.FrameDataWithMargins(0, 0)
		return f.SequenceNum(), append([]byte(nil), d...)
	}
	unseal := func(d []byte) error {
		buf := parser.GetPooledSlice(len(d))
		copy(buf, d)
		f, err := parser.ParseFrame(buf[:len(d)], buf, 0)
		if err != nil {
			parser.ReturnPooledSlice(buf)
			return err
		}
		defer f.ReturnToPool()
		return f.Unseal(rSess)
	}
	// ---- first keys: the receiver comes close to the wrap ----
	a := 3 + tp.Intn(250)
	sh := &state.EncryptionSessionTestHelper{EncryptionSession: sSess.Encryption()}
	sh.ReglSetOut(0xFFFFFFFF - uint32(a))
	var last []byte
	for k, n := 0, 1+tp.Intn(a-2); k < n; k++ {
		num, d := seal(k)
		if err := unseal(d); err != nil {
			e.Fail("fresh-frame-refused/in-order/before-the-stray-frame", "frame number %d, delivered in order under the first keys, is refused: %v", num, err)
		}
		last = d
	}
	// ---- stray frames with small numbers ----
	for k, n := 0, 1+tp.Intn(4); k < n; k++ {
		g := append([]byte(nil), last...)
		small := uint32(tp.Intn(256))
		g[8], g[9], g[10], g[11] = byte(small>>24), byte(small>>16), byte(small>>8), byte(small)
		if tp.Chance(1, 2) {
			copy(g[52:], tp.Bytes(len(g)-52)) // body and tag are noise as well
		}
		if err := unseal(g); err == nil {
			e.Fail("stray-frame-accepted", "a frame whose number was rewritten to %d unseals", small)
		}
		e.Fault("inject")
	}
	// the live traffic goes on
	if num, d := seal(1000); true {
		if err := unseal(d); err != nil {
			e.Fail("fresh-frame-refused/in-order/after-a-stray-frame", "frame number %d under the first keys is refused after a stray frame was refused: %v", num, err)
		}
	}
	// ---- new keys, set up on the receiver's live session object ----
	setup()
	e.Fault("key_exchange_started_on_live_session")
	sh = &state.EncryptionSessionTestHelper{EncryptionSession: sSess.Encryption()}
	rh := &state.EncryptionSessionTestHelper{EncryptionSession: rSess.Encryption()}
	if !bytes.Equal(sh.OutKey(), rh.InKey()) {
		e.Fail("sender-and-receiver-out-of-sync-at-end/after-new-keys", "after the second key setup the sender's key is not the receiver's")
	}
	b := 2 + tp.Intn(40)
	sh.ReglSetOut(0xFFFFFFFF - uint32(b))
	k0 := append([]byte(nil), sh.OutKey()...)
	var old []byte
	for k, n := 0, b+2+tp.Intn(40); k < n; k++ {
		num, d := seal(2000 + k)
		if err := unseal(d); err != nil {
			e.Fail("fresh-frame-refused/in-order/around-wrap/after-stray-frame-and-new-keys", "frame %d of %d (number %d), delivered in order around the wrap under the second keys, is refused: %v (a stray frame with a small number had been refused under the first keys)", k, n, num, err)
		}
		if k == 0 {
			old = d
		}
	}
	if bytes.Equal(k0, sh.OutKey()) {
		e.Infra("the sender did not wrap")
	}
	if !bytes.Equal(sh.OutKey(), rh.InKey()) {
		e.Fail("sender-and-receiver-out-of-sync-at-end", "after the wrap under the second keys the sender's key is not the receiver's")
	}
	if err := unseal(old); err == nil {
		e.Fail("old-epoch-frame-accepted-after-rollover", "a frame sealed under the previous key unseals after the roll-over")
	}
	e.Probe("rollover_crossed")
	e.Sample("stray frame %d before the wrap, new keys, wrap after %d frames", a, b)
}
