// C01 Self-certifying addresses: an identity is accepted only if address = hash(key).
//
// Simulated system: a victim router V (full real node with a byte-level
// listener) and an honest authenticated peer P on a frame-level link. Router
// identities - valid by construction, or a valid one with exactly one field
// corrupted - are presented at the four entry points: (a) a peering request
// from an attacker endpoint that speaks the protocol and signs with a key it
// really holds (incoming and outgoing role), (b) the header of a first-contact
// ping forwarded by P, (c) an inner hop record of a real announcement delivered
// by P, (d) the stored form through m.AddressFromStorage. The generator is run
// with seeded acceptable / ignored prefix sets.
package c01

import (
	"bytes"
	"context"
	"crypto/ed25519"
	"encoding/hex"
	"fmt"
	"net/netip"
	"strings"
	"testing"
	"time"

	"github.com/fxamacker/cbor/v2"

	"github.com/mycoria/crop"
	"github.com/mycoria/mycoria/frame"
	"github.com/mycoria/mycoria/m"
	"github.com/mycoria/mycoria/router"
	"github.com/mycoria/mycoria/storage"

	"mycoverif/core"
	"mycoverif/ident"
	"mycoverif/linkpair"
	"mycoverif/mesh"
	"mycoverif/node"
	"mycoverif/simnet"
)

type presented struct {
	pa    m.PublicAddress
	priv  ed25519.PrivateKey
	valid bool
	what  string
}

type peeringRequest struct {
	RouterVersion string          `cbor:"v,omitempty"`
	Universe      string          `cbor:"u,omitempty"`
	LiteMode      bool            `cbor:"lm,omitempty"`
	Address       m.PublicAddress `cbor:"a,omitempty"`
	Challenge     []byte          `cbor:"c,omitempty"`
	LinkVersion   int             `cbor:"lv,omitempty"`
	TunMTU        int             `cbor:"tmtu,omitempty"`
}

var idCounter = 0

// freshValid returns a valid identity nobody has presented in this run.
func freshValid(used map[netip.Addr]bool) *m.Address {
	for {
		id := ident.Get(ident.Routable, 40+idCounter%80)
		idCounter++
		if !used[id.IP] {
			used[id.IP] = true
			return id
		}
	}
}

var highEasingCache = map[string]*m.Address{}

// highEasing returns a valid identity for the key of base whose easing value needs more than
// 32 bits: the address really is the digest of (key, easing), found by search.
func highEasing(e *core.Env, base *m.Address, k int) *m.Address {
	key := fmt.Sprintf("%s/%d", base.IP, k)
	if a, ok := highEasingCache[key]; ok {
		return a
	}
	start := uint64(1+k) << 32
	for i := uint64(0); i < 3000000; i++ {
		ip, err := m.DigestToAddress(base.Hash, base.Type, base.PublicKey, start+i)
		if err != nil || m.GetAddressType(ip) != m.TypeGeoMarked {
			continue
		}
		a, err := m.AddressFromStorage(m.AddressStorage{IP: ip.String(), Hash: base.Hash, Type: base.Type, Easing: start + i,
			PublicKey: hex.EncodeToString(base.PublicKey), PrivateKey: hex.EncodeToString(base.PrivateKey)})
		if err != nil {
			e.Fail("valid-identity-rejected/storage", "identity with easing %d whose address %s is the digest of its key is refused: %v", start+i, ip, err)
		}
		highEasingCache[key] = a
		return a
	}
	e.Infra("no high-easing identity found")
	return nil
}

// corrupt changes exactly one field of a valid identity.
func corrupt(e *core.Env, tp *core.Tape, base *m.Address, allowEasing, allowHuge bool) presented {
	p := presented{pa: base.PublicAddress, priv: base.PrivateKey}
	p.pa.PublicKey = append(ed25519.PublicKey(nil), base.PublicKey...)
	for {
		switch tp.Intn(14) {
		case 13: // a key whose digest lies outside fd00::/8, presented with the digest's bytes
			// except for the leading 1..3, which are taken from a genuine routable address: the
			// address is inside the range and agrees with the digest everywhere else
			for c := uint64(0); ; c++ {
				pub, priv := ident.FromCounter(ident.Roaming, 4_000_000+c+uint64(tp.Intn(1000))*1000)
				ip, err := m.DigestToAddress(m.AddressDigestAlg, m.AddressKeyToolID, pub, 0)
				if err == nil && !m.BaseNetPrefix.Contains(ip) {
					a, b := ip.As16(), base.IP.As16()
					k := 1 + tp.Intn(3)
					copy(a[:k], b[:k])
					if netip.AddrFrom16(a) == ip {
						continue
					}
					p.pa.IP, p.pa.PublicKey, p.priv = netip.AddrFrom16(a), pub, priv
					break
				}
			}
			p.what = "digest outside fd00::/8 moved into the range by its leading bytes"
			e.Probe("foreign_digest_moved_into_the_range")
		case 12: // the address of an identity that was verified a moment ago in this process (by
			// another router of the simulation, as V itself would have before it pruned the record),
			// now presented with the key pair of somebody else, who also signs: whatever a router
			// remembers about verified addresses must not vouch for another key
			if err := base.PublicAddress.VerifyAddress(); err != nil {
				e.Infra("valid identity does not verify: %v", err)
			}
			pub, priv := ident.FromCounter(ident.Roaming, 3_000_000+uint64(tp.Intn(1<<20)))
			p.pa.PublicKey, p.priv = pub, priv
			p.what = "an address verified earlier in this process, with another identity's key"
			e.Probe("verified_address_presented_with_foreign_key")
		case 11: // a real key pair under a key-type name nobody knows, its address honestly derived
			// from that name and key: everything fits together, only the type does not exist
			name := []crop.KeyPairType{"NoSuchKeyType", "ed25519", "Ed25519 ", "X25519", "RSA"}[tp.Intn(5)]
			ctr := uint64(tp.Intn(1 << 20))
			for c := uint64(0); ; c++ {
				pub, priv := ident.FromCounter(ident.Roaming, 2_000_000+ctr*4096+c)
				ip, err := m.DigestToAddress(m.AddressDigestAlg, name, pub, 0)
				if err == nil && m.GetAddressType(ip) == m.TypeGeoMarked {
					p.pa.IP, p.pa.Type, p.pa.PublicKey, p.pa.Easing, p.priv = ip, name, pub, 0, priv
					break
				}
				if c > 200000 {
					e.Infra("no identity found for key type %q", name)
				}
			}
			p.what = "unknown key-type name with an address derived from it"
			e.Probe("unknown_key_type_with_matching_address")
		case 10: // same 16 bytes, but a scoped address: not the digest, not inside fd00::/8
			p.pa.IP = p.pa.IP.WithZone([]string{"x", "eth0", "1", "fd00"}[tp.Intn(4)])
			p.what = "address carries an IPv6 zone"
			e.Probe("zoned_address_presented")
		case 0:
			a := p.pa.IP.As16()
			bit := tp.Intn(128)
			a[bit/8] ^= 1 << (bit % 8)
			p.pa.IP = netip.AddrFrom16(a)
			p.what = fmt.Sprintf("address bit %d flipped", bit)
		case 1: // key-matching address outside fd00::/8
			for c := uint64(0); ; c++ {
				pub, priv := ident.FromCounter(ident.Roaming, 1_000_000+c+uint64(tp.Intn(1000))*1000)
				ip, err := m.DigestToAddress(m.AddressDigestAlg, m.AddressKeyToolID, pub, 0)
				if err == nil && !m.BaseNetPrefix.Contains(ip) {
					p.pa.IP, p.pa.PublicKey, p.priv = ip, pub, priv
					break
				}
			}
			p.what = "address equals the key digest but lies outside fd00::/8"
		case 2:
			p.pa.Hash = []crop.Hash{"nope", "", "SHA2_256", "BLAKE2b_256", crop.Hash(strings.Repeat("h", 300)), "blake3"}[tp.Intn(6)]
			p.what = fmt.Sprintf("hash algorithm %.12q", string(p.pa.Hash))
		case 3:
			p.pa.Type = []crop.KeyPairType{"", "X25519", crop.KeyPairType(strings.Repeat("k", 300)), "ed25519"}[tp.Intn(4)]
			p.what = fmt.Sprintf("key type %.12q", string(p.pa.Type))
		case 4:
			bit := tp.Intn(256)
			p.pa.PublicKey[bit/8] ^= 1 << (bit % 8)
			p.what = "public key bit flipped"
		case 5:
			n := []int{0, 1, 31, 33, 64}[tp.Intn(5)]
			if allowHuge && tp.Chance(1, 4) {
				n = 70000
			}
			k := make([]byte, n)
			copy(k, base.PublicKey)
			p.pa.PublicKey = k
			p.what = fmt.Sprintf("public key of %d bytes", n)
		case 6: // odd-sized key whose digest really matches the address
			n := []int{31, 33, 16, 64}[tp.Intn(4)]
			seed := tp.Bytes(8)
			for c := 0; ; c++ {
				k := make([]byte, n)
				copy(k, seed)
				k[8], k[9], k[10] = byte(c), byte(c>>8), byte(c>>16)
				ip, err := m.DigestToAddress(m.AddressDigestAlg, m.AddressKeyToolID, k, 0)
				if err == nil && m.GetAddressType(ip) == m.TypeGeoMarked {
					p.pa.IP, p.pa.PublicKey = ip, k
					break
				}
				if c > 2000000 {
					e.Infra("no odd-size identity found")
				}
			}
			p.what = fmt.Sprintf("%d-byte key whose digest matches the address", n)
			e.Probe("odd_size_key_with_matching_digest")
		case 7, 8, 9:
			if !allowEasing {
				continue
			}
			switch {
			case tp.Chance(1, 3):
				p.pa.Easing ^= 1 << (32 + tp.Intn(32))
				p.what = "a high bit of the easing value flipped"
			case p.pa.Easing == 0:
				p.pa.Easing = uint64(1 + tp.Intn(1000))
				p.what = "easing added"
			case tp.Chance(1, 2):
				p.pa.Easing = 0
				p.what = "easing removed"
			default:
				p.pa.Easing += uint64(1 + tp.Intn(5))
				p.what = "easing changed"
			}
		}
		return p
	}
}

func run(e *core.Env) {
	tp := e.Tape
	idCounter = 0
	e.StartClock()
	node.CaptureStderr()
	node.NewStderr()
	idCounter = tp.Intn(80)
	used := map[netip.Addr]bool{}

	cn := simnet.NewConnNet(e)
	vID, pID := ident.Get(ident.Routable, tp.Intn(8)), ident.Get(ident.Routable, 8+tp.Intn(8))
	used[vID.IP], used[pID.IP] = true, true
	VS := linkpair.NewStack(e, "V", vID, node.BaseStore(vID), true)
	V := VS.Node
	P, err := node.New("P", pID, node.BaseStore(pID), node.Options{})
	if err != nil {
		e.Infra("node: %v", err)
	}
	fn := simnet.New(e)
	e.Cleanup(fn.Shutdown)
	if err := fn.AddNode(P); err != nil {
		e.Infra("start: %v", err)
	}
	lPV, _, err := fn.Connect(P, V, simnet.ConnectOpts{LabelAtA: 7, LabelAtB: 9})
	if err != nil {
		e.Infra("connect: %v", err)
	}
	pump := func(d time.Duration) {
		end := time.Now().Add(d)
		for g := 0; g < 20000; g++ {
			if p := fn.ChooseFIFO(tp); p != nil {
				fn.Deliver(p)
				continue
			}
			if r := cn.ChooseFIFO(tp); r != nil {
				cn.Deliver(r)
				continue
			}
			if !time.Now().Before(end) {
				return
			}
			time.Sleep(50 * time.Millisecond)
			simnet.Wait()
		}
	}
	pump(5*time.Second + 300*time.Millisecond)

	panics := func(where string) {
		if st := node.PanicStacks(node.NewStderr()); len(st) > 0 {
			first := strings.TrimSpace(st[0])
			if i := strings.Index(first, "\n"); i > 0 {
				first = first[:i]
			}
			e.Fail("worker-panic:"+core.PanicClass(st[0]), "%s (%s)", first, where)
		}
		if len(V.PanicAlerts()) > 0 {
			e.Fail("worker-panic:alert-without-stack", "worker-panic alert (%s)", where)
		}
	}
	known := func(ip netip.Addr) (bool, string) {
		if !ip.IsValid() {
			return false, ""
		}
		if s := V.State.GetSession(ip); s != nil {
			return true, "session"
		}
		if r, err := V.Storage.GetRouter(ip); err == nil && r != nil {
			return true, "stored record"
		}
		if V.Peering.GetLink(ip) != nil {
			return true, "link"
		}
		return false, ""
	}
	var knownTo []m.PublicAddress // valid identities V has accepted so far in this run
	var knownPr []presented       // ... with the keys they were presented with
	judge := func(entry string, pr presented) {
		panics(entry + ": " + pr.what)
		got, how := known(pr.pa.IP)
		e.Ev("present", uint64(len(entry)), b2u(pr.valid), b2u(got))
		e.Case(0x01, uint64(len(entry)), uint64(len(pr.what)), b2u(pr.valid), uint64(len(pr.pa.PublicKey)))
		e.Sample("%s: %s (key %d bytes, easing %d) -> known=%v", entry, pr.what, len(pr.pa.PublicKey), pr.pa.Easing, got)
		// What V keeps for an accepted identity must be that identity: the address with the key
		// it is derived from - in the session and in the stored record.
		if pr.valid && got {
			if sess := V.State.GetSession(pr.pa.IP); sess != nil && sess.Address() != nil {
				if a := sess.Address(); a.IP != pr.pa.IP || !bytes.Equal(a.PublicKey, pr.pa.PublicKey) {
					e.Fail("accepted-identity-kept-under-another-identity/"+entry, "via %s: the session V keeps for %s names %s with a key that is not the presented one", entry, pr.pa.IP, a.IP)
				}
			}
			if r, err := V.Storage.GetRouter(pr.pa.IP); err == nil && r != nil && r.Address != nil {
				if r.Address.IP != pr.pa.IP || !bytes.Equal(r.Address.PublicKey, pr.pa.PublicKey) {
					e.Fail("accepted-identity-kept-under-another-identity/"+entry, "via %s: the record V stores under %s carries address %s and another key", entry, pr.pa.IP, r.Address.IP)
				}
			}
		}
		switch {
		case pr.valid && !got:
			e.Fail("valid-identity-rejected/"+entry, "a by-construction valid identity %s (easing %d) left no session at V via %s", pr.pa.IP, pr.pa.Easing, entry)
		case !pr.valid && got:
			e.Fail("corrupted-identity-accepted/"+entry+"/"+slug(pr.what), "identity with %s presented via %s: V now holds a %s for %s", pr.what, entry, how, pr.pa.IP)
		}
		if !pr.valid {
			e.Fault("corrupt_field")
			e.Probe("rejected_via_" + entry)
		} else {
			e.Probe("accepted_via_" + entry)
			if got && pr.pa.Easing == 0 && len(pr.pa.PublicKey) == ed25519.PublicKeySize {
				knownTo = append(knownTo, pr.pa)
				knownPr = append(knownPr, pr)
			}
		}
	}
	var eased []*m.Address
	next := func(allowEasing, allowHuge bool) presented {
		base := freshValid(used)
		if allowEasing && len(eased) > 0 && tp.Chance(1, 2) {
			base, eased = eased[0], eased[1:]
			e.Probe("eased_identity_presented")
		} else if allowEasing && tp.Chance(1, 6) {
			base = highEasing(e, base, tp.Intn(3))
			used[base.IP] = true
			e.Probe("identity_with_easing_above_32_bits")
		}
		if tp.Chance(1, 3) {
			return presented{pa: base.PublicAddress, priv: base.PrivateKey, valid: true, what: "valid"}
		}
		return corrupt(e, tp, base, allowEasing, allowHuge)
	}

	nOps := 6 + tp.Intn(14)
	for op := 0; op < nOps; op++ {
		e.Step()
		switch tp.Pick(4, 4, 3, 4, 1) {
		case 0: // (a) peering request
			pr := next(true, false)
			// A router V already knows presents itself again - with its genuine key, which also
			// signs, but with another hash algorithm, key-type name or easing value than the ones
			// its address is derived from. What V has on record for an address does not make the
			// presented combination a valid identity: the request is refused (V ends the
			// connection) like the same identity at first contact.
			again := false
			if len(knownPr) > 0 && tp.Chance(1, 4) {
				k := knownPr[tp.Intn(len(knownPr))]
				pr = presented{pa: k.pa, priv: k.priv}
				pr.pa.PublicKey = append(ed25519.PublicKey(nil), k.pa.PublicKey...)
				switch tp.Intn(3) {
				case 0:
					pr.pa.Hash = []crop.Hash{"SHA2_256", "BLAKE2b_256", "BLAKE4", ""}[tp.Intn(4)]
					pr.what = fmt.Sprintf("known router again, hash algorithm %q", string(pr.pa.Hash))
				case 1:
					pr.pa.Type = []crop.KeyPairType{"Ed448", "ed25519", ""}[tp.Intn(3)]
					pr.what = fmt.Sprintf("known router again, key type %q", string(pr.pa.Type))
				default:
					pr.pa.Easing += uint64(1 + tp.Intn(1000))
					pr.what = "known router again, another easing value"
				}
				again = true
				e.Probe("known_router_presents_changed_identity_fields")
			}
			req := peeringRequest{RouterVersion: "sim", Address: pr.pa, Challenge: tp.Bytes(32), LinkVersion: 1}
			body, _ := cbor.Marshal(&req)
			if len(body) > 9000 || !pr.pa.IP.IsValid() {
				continue
			}
			f, err := frame.NewFrameBuilder().NewFrameV1(pr.pa.IP, m.RouterAddress, frame.RouterPing, nil, body, nil)
			if err != nil {
				continue
			}
			f.SetTTL(0)
			f.SetSequenceTime(time.Now().Round(time.Millisecond))
			_ = f.SignRaw(pr.priv)
			f.SetTTL(1)
			d, _ := f.FrameDataWithMargins(0, 0)
			rec := make([]byte, 2+len(d))
			m.PutUint16(rec[:2], uint16(len(rec)))
			copy(rec[2:], d)
			pair := cn.NewPair("attacker")
			outgoing := tp.Chance(1, 3)
			entry := "peering-request"
			if outgoing {
				entry = "peering-request-outgoing"
				go func() {
					defer func() { _ = recover() }()
					_, _ = V.Peering.VerifSetupLink(pair.A, VS.URL, true)
				}()
				simnet.Wait()
				cn.DeliverBytes(pair.A, rec, false)
			} else {
				if !VS.Listener.Offer(pair.B) {
					e.Infra("listener closed")
				}
				simnet.Wait()
				cn.DeliverBytes(pair.B, rec, false)
			}
			pump(10 * time.Millisecond)
			if again {
				vEnd := pair.B
				if outgoing {
					vEnd = pair.A
				}
				panics(entry + ": " + pr.what)
				e.Ev("present-again", uint64(len(entry)), b2u(vEnd.IsClosed()))
				e.Case(0x01, uint64(len(entry)), uint64(len(pr.what)), 2)
				if !vEnd.IsClosed() {
					e.Fail("corrupted-identity-accepted/"+entry+"/known-router-again", "identity of a %s presented via %s: V goes on with the handshake instead of refusing the request", pr.what, entry)
				}
				e.Fault("corrupt_field")
				e.Probe("rejected_via_" + entry)
			} else {
				judge(entry, pr)
			}
			_ = pair.A.Close()
			_ = pair.B.Close()
			pump(10 * time.Millisecond)

		case 1: // (b) first-contact ping header, forwarded by the honest peer
			pr := next(false, false)
			if !pr.pa.IP.IsValid() {
				continue
			}
			hdr := router.PingHeader{PingID: uint64(tp.Uint32()) + 1, PingType: "pong", AddrHash: pr.pa.Hash, KeyType: pr.pa.Type, PublicKey: pr.pa.PublicKey}
			hd, _ := cbor.Marshal(&hdr)
			if len(hd) > 255 {
				// cannot be expressed in a ping header: nothing to present
				continue
			}
			msg, _ := cbor.Marshal(map[string]string{"msg": "ping"})
			body := append([]byte{1, byte(len(hd))}, append(hd, msg...)...)
			f, err := P.Inst.Builder.NewFrameV1(pr.pa.IP, V.IP, frame.RouterPing, nil, body, nil)
			if err != nil {
				continue
			}
			f.SetTTL(0)
			f.SetSequenceTime(time.Now().Round(time.Millisecond))
			_ = f.SignRaw(pr.priv)
			f.SetTTL(31)
			_ = lPV.SendPriority(f)
			pump(10 * time.Millisecond)
			judge("ping-header", pr)

		case 2: // (c) inner hop record of an announcement delivered by P
			pr := next(true, false)
			origin := freshValid(used)
			// In a quarter of the cases the record claims the address of a router V already knows -
			// with the key of another identity, which also signs it. The key V trusts for an
			// address is the one the address is derived from, not whatever a record carries.
			var claimed *m.PublicAddress
			if len(knownTo) > 0 && pr.valid && pr.pa.Easing == 0 && tp.Chance(1, 4) {
				k := knownTo[tp.Intn(len(knownTo))]
				claimed = &k
				pr.pa.IP = k.IP
				pr.valid, pr.what = false, "the address of a router V knows, with another identity's key"
				e.Probe("known_address_presented_with_foreign_key")
			}
			if !pr.pa.IP.IsValid() {
				continue
			}
			amsg := router.AnnouncePingMsg{Info: &m.RouterInfo{Version: "sim"}, ReturnLabel: 5, Expires: time.Now().Add(time.Hour)}
			inner, _ := cbor.Marshal(&amsg)
			hdr := router.PingHeader{PingID: uint64(tp.Uint32()) + 1, PingType: "announce", AddrHash: origin.Hash, KeyType: origin.Type, PublicKey: origin.PublicKey}
			hd, _ := cbor.Marshal(&hdr)
			body := append([]byte{1, byte(len(hd))}, append(hd, inner...)...)
			f, err := P.Inst.Builder.NewFrameV1(origin.IP, m.RouterAddress, frame.RouterHopPingDeprecated, nil, body, nil)
			if err != nil {
				continue
			}
			f.SetTTL(0)
			f.SetSequenceTime(time.Now().Round(time.Millisecond))
			_ = f.SignRaw(origin.PrivateKey)
			f.SetTTL(30)
			ctx := make([]byte, 88)
			copy(ctx[:16], origin.IP.AsSlice())
			m.PutUint64(ctx[16:24], uint64(f.SequenceTime().UnixMilli()))
			copy(ctx[24:], f.AuthData())
			// inner record by the presented identity (signed with the key it really holds)
			rec1 := router.AnnouncePingAttachment{Router: pr.pa, Delay: 3, ForwardLabel: 11, ReturnLabel: 12}
			d1, _ := cbor.Marshal(rec1)
			if len(d1) > 4000 {
				f.ReturnToPool()
				continue
			}
			var s1 []byte
			if len(pr.priv) == ed25519.PrivateKeySize {
				s1, _ = pr.priv.Sign(nil, d1, &ed25519.Options{Context: string(ctx)})
			}
			if len(s1) != 64 {
				s1 = make([]byte, 64)
			}
			l1 := append(d1, s1...)
			// In half of the cases a further valid router relayed between the presented identity
			// and P (two routers V has never seen in one announcement); it is judged as well.
			var mid *m.Address
			if tp.Chance(1, 2) {
				mid = freshValid(used)
				recM := router.AnnouncePingAttachment{Router: mid.PublicAddress, Delay: 2, ForwardLabel: 21, ReturnLabel: 22, NextAttachment: l1}
				dM, _ := cbor.Marshal(recM)
				sM, _ := mid.SignWithContext(dM, ctx)
				l1 = append(dM, sM...)
			}
			rec0 := router.AnnouncePingAttachment{Router: P.ID.PublicAddress, Delay: 4, ForwardLabel: 13, ReturnLabel: 7, NextAttachment: l1}
			d0, _ := cbor.Marshal(rec0)
			s0, _ := P.ID.SignWithContext(d0, ctx)
			if err := f.SetAppendixData(append(d0, s0...)); err != nil {
				f.ReturnToPool()
				continue
			}
			_ = lPV.SendPriority(f)
			pump(10 * time.Millisecond)
			if claimed != nil {
				// V knows the address (rightly): what must not happen is that the announcement is
				// accepted, or that the key V keeps for the address changes.
				panics("hop-record: " + pr.what)
				for _, en := range V.Router.Table().VerifEntries() {
					if en.DstIP == origin.IP {
						e.Fail("corrupted-identity-accepted/hop-record/"+slug(pr.what), "an announcement whose hop record claims %s with a foreign key was accepted: V holds a route to its origin %s", claimed.IP, origin.IP)
					}
				}
				if sess := V.State.GetSession(claimed.IP); sess != nil && sess.Address() != nil && !bytes.Equal(sess.Address().PublicKey, claimed.PublicKey) {
					e.Fail("accepted-identity-kept-under-another-identity/hop-record", "after a hop record with a foreign key the session V keeps for %s carries another key", claimed.IP)
				}
				e.Fault("corrupt_field")
				e.Probe("rejected_via_hop-record")
				continue
			}
			judge("hop-record", pr)
			if mid != nil && pr.valid {
				judge("hop-record", presented{pa: mid.PublicAddress, priv: mid.PrivateKey, valid: true, what: "valid"})
			}

		case 3: // (d) stored form
			pr := next(true, true)
			st := m.AddressStorage{Hash: pr.pa.Hash, Type: pr.pa.Type, PublicKey: hex.EncodeToString(pr.pa.PublicKey),
				PrivateKey: hex.EncodeToString(pr.priv), Easing: pr.pa.Easing}
			if pr.pa.IP.IsValid() {
				st.IP = pr.pa.IP.String()
			}
			if pr.valid && tp.Chance(1, 5) {
				// key fields of odd sizes in the stored form (a truncated or hand-edited file)
				n := []int{0, 1, 10, 31, 32, 63, 65}[tp.Intn(7)]
				st.PrivateKey = hex.EncodeToString(append(make([]byte, 0, 65), append(append([]byte(nil), pr.priv...), 0)...)[:n])
				if tp.Chance(1, 2) {
					st.PublicKey = ""
				}
				pr.valid, pr.what = false, fmt.Sprintf("private key of %d bytes in the stored form", n)
				e.Probe("stored_form_with_odd_key_sizes")
			}
			if pr.valid && tp.Chance(1, 4) {
				// private key that does not belong to the public key
				other := freshValid(used)
				st.PrivateKey = hex.EncodeToString(other.PrivateKey)
				pr.valid, pr.what = false, "private key of another identity"
			}
			var addr *m.Address
			var aerr error
			if e.Guard("panic-in-AddressFromStorage", func() { addr, aerr = m.AddressFromStorage(st) }) {
				e.Fail("", "")
			}
			e.Case(0x01, 4, uint64(len(pr.what)), b2u(pr.valid))
			switch {
			case pr.valid && aerr != nil:
				e.Fail("valid-identity-rejected/storage", "valid stored identity refused: %v", aerr)
			case !pr.valid && aerr == nil:
				e.Fail("corrupted-identity-accepted/storage/"+slug(pr.what), "stored identity with %s loads without error as %s", pr.what, addr.IP)
			case pr.valid:
				if addr.IP != pr.pa.IP || !bytes.Equal(addr.PublicKey, pr.pa.PublicKey) || addr.Easing != pr.pa.Easing || addr.Hash != pr.pa.Hash || addr.Type != pr.pa.Type {
					e.Fail("stored-identity-loads-differently", "identity changed on load")
				}
				e.Probe("accepted_via_storage")
			default:
				e.Probe("rejected_via_storage")
				e.Fault("corrupt_field")
			}

		case 4: // the generator
			bits := 9 + tp.Intn(4)
			if core.Tier() == "thorough" {
				bits = 9 + tp.Intn(6)
			}
			mkPrefix := func(b int) netip.Prefix {
				var a [16]byte
				copy(a[:], tp.Bytes(16))
				a[0] = 0xfd
				a[1] &= 0x7f
				p, _ := netip.AddrFrom16(a).Prefix(b)
				return p
			}
			var acc, ign []netip.Prefix
			for i, n := 0, 1+tp.Intn(3); i < n; i++ {
				acc = append(acc, mkPrefix(bits-tp.Intn(2)))
			}
			if tp.Chance(1, 6) {
				// a requested prefix that reaches beyond fd00::/8 (what "mycoria generate" is
				// given is up to the user): whatever is returned must still be a valid identity
				wide := []string{"fc00::/7", "fc00::/6", "f800::/5", "f000::/4", "8000::/1"}[tp.Intn(5)]
				acc = []netip.Prefix{netip.MustParsePrefix(wide)}
				e.Probe("generator_prefix_reaches_beyond_fd00")
			}
			for i, n := 0, tp.Intn(3); i < n; i++ {
				if tp.Chance(1, 2) {
					ign = append(ign, mkPrefix(bits+1+tp.Intn(3))) // may cut into an acceptable prefix
				} else {
					p := acc[tp.Intn(len(acc))]
					sub, _ := p.Addr().Prefix(min(128, p.Bits()+1+tp.Intn(2)))
					ign = append(ign, sub)
				}
			}
			maxEasing := uint64(tp.Intn(4))
			var addr *m.Address
			var gerr error
			if e.Guard("panic-in-generator", func() { addr, _, gerr = m.GenerateRoutableAddress(context.Background(), acc, ign, maxEasing) }) {
				e.Fail("", "")
			}
			if gerr != nil {
				e.Probe("generator_gave_up")
				continue
			}
			if err := addr.VerifyAddress(); err != nil {
				e.Fail("generated-identity-does-not-verify", "%v", err)
			}
			in := false
			for _, p := range acc {
				if p.Contains(addr.IP) {
					in = true
				}
			}
			if !in {
				e.Fail("generated-identity-outside-requested-prefixes", "%s not in %v", addr.IP, acc)
			}
			for _, p := range ign {
				if p.Contains(addr.IP) {
					e.Fail("generated-identity-in-ignored-range", "%s in ignored %s", addr.IP, p)
				}
			}
			if m.InternalPrefix.Contains(addr.IP) {
				e.Fail("generated-identity-in-internal-range", "%s", addr.IP)
			}
			re, err := m.AddressFromStorage(addr.Store())
			if err != nil {
				e.Fail("generated-identity-does-not-reload", "%v", err)
			}
			if re.IP != addr.IP || !bytes.Equal(re.PublicKey, addr.PublicKey) || !bytes.Equal(re.PrivateKey, addr.PrivateKey) || re.Easing != addr.Easing || re.Hash != addr.Hash || re.Type != addr.Type {
				e.Fail("generated-identity-reloads-differently", "reloaded identity differs")
			}
			if addr.Easing > 0 {
				e.Probe("generated_eased_identity")
				// An eased identity is a valid identity: present it at the entry points that can carry easing.
				used[addr.IP] = true
				eased = append(eased, addr)
			}
			e.Probe("generator_ok")
		}
	}
	// V still answers an honest ping-pong.
	notify, _, err := P.Router.PingPong.Send(V.IP, true, 0)
	if err != nil {
		e.Fail("honest-ping-cannot-be-sent", "%v", err)
	}
	pump(5 * time.Second)
	select {
	case <-notify:
		e.Probe("honest_ping_pong_ok")
	default:
		e.Fail("router-stalled", "V does not answer the honest peer's ping after the presentations")
	}
	panics("end")
	_ = storage.ErrNotFound
	_ = mesh.ProbeType
}

// slug turns a corruption description into a class component without numbers.
func slug(what string) string {
	var b strings.Builder
	for _, r := range what {
		switch {
		case r >= 'a' && r <= 'z', r >= 'A' && r <= 'Z':
			b.WriteRune(r)
		case r == ' ' || r == '-':
			b.WriteByte('-')
		}
		if b.Len() >= 36 {
			break
		}
	}
	return strings.Trim(strings.ReplaceAll(b.String(), "--", "-"), "-")
}

func b2u(b bool) uint64 {
	if b {
		return 1
	}
	return 0
}

func TestCheck(t *testing.T) {
	core.Main(t, &core.Check{
		ID:             "C01",
		QuickRuns:      320,
		ThoroughRuns:   32000,
		MinimiseBudget: 80,
		Run:            run,
	})
}
