// C16 Link registry, switch labels and peer routes stay consistent through churn.
//
// Simulated system: 2..5 real peering stacks (peering + state + routing table;
// shipped listener, setup, reader and writer workers) on byte-level simulated
// connections. The tape draws connects, simultaneous cross-connects with the
// handshake records of both connections interleaved record by record, local
// closes, remote closes, EOF and I/O errors at any record boundary (also inside
// a handshake), and the delivery order of everything in flight. The oracle
// runs at every quiescent point.
package c16

import (
	"fmt"
	"net/netip"
	"runtime"
	"sync"
	"sync/atomic"
	"testing"
	"time"

	"github.com/mycoria/mycoria/frame"
	"github.com/mycoria/mycoria/m"
	"github.com/mycoria/mycoria/peering"

	"mycoverif/core"
	"mycoverif/ident"
	"mycoverif/linkpair"
	"mycoverif/mesh"
	"mycoverif/node"
	"mycoverif/simnet"
	"mycoverif/simsync"
)

var yields, stalls atomic.Int64

type known struct {
	l    peering.Link
	at   int
	conn int
	how  string
}

// registryUnderTasks runs the registry's own methods as cooperative tasks: readers (what the
// announce worker, the switch and router workers and the connect manager call all the time)
// against links that are registered and removed meanwhile. The tape picks the running task at
// every lock operation of peering/ and m/. The locks have the semantics of sync.RWMutex,
// including that a waiting writer keeps new readers out.
func registryUnderTasks(e *core.Env) {
	tp := e.Tape
	var nodes []*node.Node
	for i := 0; i < 4; i++ {
		id := ident.Get(ident.Routable, 40+i)
		n, err := node.New(fmt.Sprintf("t%d", i), id, node.BaseStore(id), node.Options{LinkOnly: true})
		if err != nil {
			e.Infra("node: %v", err)
		}
		nodes = append(nodes, n)
	}
	N := nodes[0]
	fn := simnet.New(e)
	var links []*simnet.Link
	for i := 1; i <= 2; i++ {
		l, _, err := fn.Connect(N, nodes[i], simnet.ConnectOpts{LabelAtA: m.SwitchLabel(10 + i), LabelAtB: 7, LiteB: tp.Chance(1, 3)})
		if err != nil {
			e.Infra("connect: %v", err)
		}
		links = append(links, l)
	}
	reads := func() {
		for k, n := 0, 1+tp.Intn(3); k < n; k++ {
			_ = N.Peering.IsStub()
			_ = N.Peering.LinkCnt()
			for _, l := range N.Peering.GetLinks() {
				_ = N.Peering.GetLink(l.Peer())
				_ = N.Peering.GetLinkByLabel(l.SwitchLabel())
			}
			_ = N.Peering.GetLinkByRemoteHost("nowhere")
		}
	}
	var connErr error
	tasks := []func(){reads}
	if tp.Chance(1, 2) {
		tasks = append(tasks, reads)
	}
	if tp.Chance(2, 3) {
		tasks = append(tasks, func() { _, _, connErr = fn.Connect(N, nodes[3], simnet.ConnectOpts{LabelAtA: 13, LabelAtB: 7}) })
	}
	if len(tasks) == 1 || tp.Chance(2, 3) {
		victim := links[tp.Intn(len(links))]
		tasks = append(tasks, func() { victim.Close(nil) })
	}
	st := simsync.RunTasks(func(n, cur int) int {
		if cur >= 0 && !tp.Chance(1, 2) {
			return cur
		}
		return tp.Intn(n)
	}, tasks)
	e.Ev("registry-tasks", uint64(len(tasks)), uint64(st.Switches), b2u(st.Deadlock))
	if st.Deadlock {
		e.Fail("registry-deadlock", "%d tasks on one router's link registry (look-ups, IsStub, LinkCnt, a link being registered, a link being closed) stopped for good: each waits for a lock another one holds (%d task switches)", len(tasks), st.Switches)
	}
	for _, p := range st.Panics {
		e.Fail("registry-panic", "a registry task panicked: %v", p)
	}
	if connErr != nil {
		e.Fail("registry-refuses-new-peer", "registering a link to a new peer failed while other links were looked up and closed: %v", connErr)
	}
	for _, l := range N.Peering.GetLinks() {
		if l.IsClosing() {
			e.Fail("closing-link-found", "after the tasks a closing link to %s is still registered", l.Peer())
		}
	}
	e.Fault("task_switch")
	e.Probe("registry_methods_as_concurrent_tasks")
}

// announcementOvertakenByClose: three complete routers in a line, converged. An announcement of
// the middle router has been read from the link by an end router's link reader (it is on its
// way through switch and router workers) when that link goes down - local close, or the remote
// end's EOF. Frames that were read before a link closed are handled after it closed; whatever
// the handler does with them, at the next quiescent point the table holds no route over a peer
// without a live link, and a peer route for exactly the live links.
func announcementOvertakenByClose(e *core.Env) {
	tp := e.Tape
	ms := mesh.Build(e, mesh.Options{MinNodes: 3, MaxNodes: 3, Kinds: []string{"line"}, TwoByteLabels: true})
	ms.Net.RunFor(tp, 5*time.Second+200*time.Millisecond, 20000)
	ms.Net.DrainFIFO(tp, 20000)
	A, B := ms.Nodes[0], ms.Nodes[1]
	if tp.Chance(1, 2) {
		A = ms.Nodes[2]
	}
	before := map[*simnet.Packet]bool{}
	for _, p := range ms.Net.Pending() {
		before[p] = true
	}
	if tp.Chance(1, 2) {
		_ = B.Router.AnnouncePing.Send(A.IP)
	} else {
		// an announcement of the far router, relayed by B
		far := ms.Nodes[2]
		if A == far {
			far = ms.Nodes[0]
		}
		_ = far.Router.AnnouncePing.Send(B.IP)
		simnet.Wait()
		for _, p := range ms.Net.Pending() {
			if !before[p] && p.To.Local == B {
				ms.Net.Deliver(p)
			}
		}
	}
	simnet.Wait()
	var ann *simnet.Packet
	for _, p := range ms.Net.Pending() {
		if !before[p] && p.From.Local == B && p.To.Local == A && !p.EOF {
			ann = p
			break
		}
	}
	lA, _ := A.Peering.GetLink(B.IP).(*simnet.Link)
	if ann == nil || lA == nil {
		return
	}
	ms.Net.Remove(ann)
	ann.NoDelay = true
	// In a third of the cases the worker that handles the announcement is held at one of its
	// first lock operations inside peering/ or m/ (both are compiled against the yielding lock
	// shim): the link then goes down *while* the announcement is being handled, not before.
	var hold chan struct{}
	armed, holdAt, ops := false, 0, 0
	if tp.Chance(1, 3) {
		hold = make(chan struct{})
		armed, holdAt = true, 1+tp.Intn(8)
		simsync.Blocking = true
		simsync.Yield = func(op string) {
			if !armed {
				return
			}
			ops++
			if ops == holdAt {
				armed = false
				<-hold
			}
		}
	}
	ms.Net.DeliverRaw(ann) // read by the link reader: in the hands of A's workers from here on
	if hold != nil {
		simnet.Wait()
		if armed {
			armed = false // the handler needed fewer lock operations: it ran to its end
		} else {
			e.Probe("announcement_handler_held_while_its_link_goes_down")
		}
		defer func() {
			simsync.Yield = nil
			simsync.Blocking = false
		}()
	}
	release := func() {
		if hold != nil {
			close(hold)
			hold = nil
			simnet.Wait()
		}
	}
	reconnected := false
	if tp.Chance(1, 3) {
		// ... the link goes down at both ends and the two routers are connected again (same or
		// other labels) before A's workers get to the announcement of the old link: when it is
		// handled, a live link to its sender exists - another one
		oldA, oldB := lA.SwitchLabel(), lA.Other.SwitchLabel()
		lA.Close(nil)
		lA.Other.Close(nil)
		o := simnet.ConnectOpts{LabelAtA: oldA, LabelAtB: oldB, LatencyMs: lA.Latency()}
		if tp.Chance(1, 2) {
			o.LabelAtA, o.LabelAtB = oldA+1+m.SwitchLabel(tp.Intn(20)), oldB+1+m.SwitchLabel(tp.Intn(20))
			for A.Peering.GetLinkByLabel(o.LabelAtA) != nil {
				o.LabelAtA++
			}
			for B.Peering.GetLinkByLabel(o.LabelAtB) != nil {
				o.LabelAtB++
			}
		}
		if _, _, err := ms.Net.Connect(A, B, o); err != nil {
			e.Infra("reconnect: %v", err)
		}
		reconnected = true
		e.Probe("announcement_of_replaced_link_handled_after_reconnect")
	} else if tp.Chance(1, 2) {
		lA.Close(nil) // A closes locally ...
	} else {
		lA.Other.Close(nil) // ... or B does and its EOF arrives
		for _, p := range ms.Net.Pending() {
			if p.EOF && p.To == lA {
				ms.Net.Remove(p)
				p.NoDelay = true
				ms.Net.DeliverRaw(p)
			}
		}
	}
	simnet.Wait()
	release()
	ms.Net.DrainFIFO(tp, 5000)
	ms.CheckPanics("worker-panic")
	e.Fault("link_close_overtakes_announcement")
	if e.Trace {
		for _, nd := range []*node.Node{A, B} {
			for _, en := range nd.Router.Table().VerifEntries() {
				e.Logf("  %s route dst=%s nh=%s src=%v hops=%d", nd.Name, en.DstIP, en.NextHop, en.Source, en.Path.TotalHops)
			}
			e.Logf("  %s links=%d pending=%d t=%s", nd.Name, len(nd.Peering.GetLinks()), ms.Net.PendingCount(), time.Now().Format("15:04:05.000000"))
		}
	}
	if reconnected && (A.Peering.GetLink(B.IP) == nil || B.Peering.GetLink(A.IP) == nil) {
		e.Infra("reconnected link is not registered")
	}
	for _, nd := range []*node.Node{A, B} {
		live := map[netip.Addr]bool{}
		for _, l := range nd.Peering.GetLinks() {
			if !l.IsClosing() {
				live[l.Peer()] = true
			}
		}
		peerRoute := map[netip.Addr]bool{}
		for _, en := range nd.Router.Table().VerifEntries() {
			if !live[en.NextHop] {
				e.Fail("route-over-peer-without-live-link/announcement-handled-after-close",
					"%s: an announcement was read from the link to %s before that link closed and handled after: the table holds a route to %s (source %v) whose next hop %s has no live link",
					nd.Name, B.Name, en.DstIP, en.Source, en.NextHop)
			}
			if en.Source == m.RouteSourcePeer {
				peerRoute[en.DstIP] = true
			}
		}
		for ip := range live {
			if !peerRoute[ip] {
				e.Fail("peer-route-missing", "%s: live link to %s but no direct-peer route", nd.Name, ip)
			}
		}
	}
	e.Probe("announcement_read_before_close_handled_after")
	// The three routers of this phase are stopped here: left running, their periodic workers
	// would share the processor, the lock hook and the pinned random stream with the routers of
	// the main phase.
	ms.Net.Shutdown()
	simnet.Wait()
}

func run(e *core.Env) {
	tp := e.Tape
	e.StartClock()
	if tp.Chance(1, 4) {
		registryUnderTasks(e)
	}
	if tp.Chance(1, 5) {
		announcementOvertakenByClose(e)
	}
	// Scheduling points inside the registry code: peering/ and m/ are compiled against
	// simsync, so every Lock/Unlock/RLock/RUnlock there calls this hook, which hands the
	// processor to another runnable goroutine with a per-run probability (0 = never). The
	// decisions come from a generator seeded by one tape cell, so that they neither race
	// with nor shift the harness's own draws.
	every := []int{0, 2, 3, 5, 9, 17}[tp.Intn(6)]
	// Stalled goroutines ("slow thread" fault): in half of the runs a goroutine of the
	// simulated system may be parked at an unlock - only while the harness waits, and only
	// when no simsync lock is held by anyone, so that nobody can queue up behind it - and
	// stays parked while the harness goes on with 1..8 further events. Invariants are
	// evaluated at quiescent points only, i.e. never while a goroutine is parked.
	stallEvery := []int{0, 0, 0, 13, 29, 61}[tp.Intn(6)]
	var stalled []chan struct{}
	armed := 0 // > 0: park the goroutine that passes the armed-th eligible unlock from now on
	focusTeardown := tp.Chance(1, 3)
	if every > 0 || stallEvery > 0 || focusTeardown {
		ys := tp.Uint64() | 1
		var ymu sync.Mutex
		simsync.Blocking = true
		simsync.Yield = func(op string) {
			ymu.Lock()
			ys += 0x9e3779b97f4a7c15
			z := ys
			z = (z ^ (z >> 30)) * 0xbf58476d1ce4e5b9
			z = (z ^ (z >> 27)) * 0x94d049bb133111eb
			z ^= z >> 31
			ymu.Unlock()
			eligible := (op == "unlock" || op == "runlock") && simnet.Waiting && len(stalled) == 0 && simsync.Held() == 0
			if eligible && armed > 0 {
				armed--
				if armed > 0 {
					eligible = false
				}
			} else if eligible && !(stallEvery > 0 && (z>>24)%uint64(stallEvery) == 0) {
				eligible = false
			}
			if eligible {
				ch := make(chan struct{})
				stalled = append(stalled, ch)
				stalls.Add(1)
				<-ch
				return
			}
			if every > 0 && z%uint64(every) == 0 {
				yields.Add(1)
				runtime.Gosched()
			}
		}
		e.Cleanup(func() {
			simsync.Yield = nil
			simsync.Blocking = false
			for _, ch := range stalled {
				close(ch)
			}
			stalled = nil
			e.ProbeN("lock_boundary_task_switches", int(yields.Swap(0)))
			if k := int(stalls.Swap(0)); k > 0 {
				e.ProbeN("goroutine_parked_at_unlock", k)
				e.Faults["stalled_goroutine"] += k
			}
		})
		e.Probe("runs_with_lock_boundary_switches")
	}
	stallAge := 0
	// settle releases parked goroutines when their time is up (or all of them) and
	// reports whether the system is at a quiescent point.
	settle := func(all bool) bool {
		if len(stalled) > 0 {
			stallAge++
			if all || stallAge > 1+tp.Intn(8) {
				for _, ch := range stalled {
					close(ch)
				}
				stalled = nil
				stallAge = 0
				simnet.Wait()
			}
		}
		return len(stalled) == 0
	}
	cn := simnet.NewConnNet(e)
	n := 2 + tp.Intn(4)
	perm := tp.Perm(12)
	S := make([]*linkpair.Stack, n)
	byIP := map[netip.Addr]int{}
	// In a quarter of the runs one router has a privacy address: the shipped routing table has
	// no prefix for it, so its peer route is refused - and then no link to it may stay
	// registered either.
	privacyAt := -1
	if tp.Chance(1, 4) {
		privacyAt = tp.Intn(n)
		e.Probe("one_router_outside_the_routable_prefixes")
	}
	// In a quarter of the runs all routers but the first derive the same one-byte switch label
	// from their addresses: two of them setting up links with a third at the same time then
	// compete for one label.
	sameLabel := tp.Chance(1, 4)
	if sameLabel {
		e.Probe("peers_deriving_the_same_switch_label")
	}
	for i := range S {
		id := ident.Get(ident.Routable, perm[i])
		if sameLabel && i > 0 {
			id = ident.Get(ident.SameLabel, i-1+perm[0]%3)
		}
		if i == privacyAt {
			id = ident.Get(ident.Privacy, perm[i]%4)
		}
		S[i] = linkpair.NewStack(e, fmt.Sprintf("r%d", i), id, node.BaseStore(id), false)
		byIP[id.IP] = i
	}
	var atts []*linkpair.Attempt
	var links []*known
	seen := map[peering.Link]bool{}
	var hist []string
	note := func(format string, args ...any) {
		s := fmt.Sprintf(format, args...)
		hist = append(hist, s)
		e.Logf("%s", s)
	}
	learn := func(l peering.Link, at int, how string) {
		if l == nil || seen[l] {
			return
		}
		seen[l] = true
		id, _, _ := simnet.ConnIDOf(l.LocalAddr())
		links = append(links, &known{l: l, at: at, conn: id, how: how})
	}
	fail := func(class, format string, args ...any) {
		e.Fail(class, "%s | nodes=%d | history: %v", fmt.Sprintf(format, args...), n, hist)
	}

	invariants := func() {
		for i, st := range S {
			if len(st.Node.PanicAlerts()) > 0 {
				stk := node.PanicStacks(node.NewStderr())
				cls := "unknown"
				if len(stk) > 0 {
					cls = core.PanicClass(stk[0])
				}
				fail("worker-panic:"+cls, "worker of %s panicked", st.Node.Name)
			}
			// Frames handed up tell us the server-side link objects.
			for {
				var f frame.Frame
				select {
				case f = <-st.Up:
				default:
				}
				if f == nil {
					break
				}
				if lk, ok := f.RecvLink().(peering.Link); ok {
					learn(lk, i, "observed as receive link")
				}
				f.ReturnToPool()
			}
		}
		for i, st := range S {
			p := st.Node.Peering
			reg := p.GetLinks()
			peers := map[netip.Addr]bool{}
			labels := map[m.SwitchLabel]peering.Link{}
			for _, l := range reg {
				learn(l, i, "found in registry")
				if l.IsClosing() {
					fail("closing-link-still-registered", "%s: GetLinks returns a closing link to %s", st.Node.Name, name(byIP, l.Peer()))
				}
				if p.GetLink(l.Peer()) != l {
					fail("registered-link-not-found-by-peer", "%s: link to %s", st.Node.Name, name(byIP, l.Peer()))
				}
				peers[l.Peer()] = true
			}
			for _, k := range links {
				if k.at != i || k.l.IsClosing() {
					if k.at == i {
						// no closing link can be found
						if p.GetLink(k.l.Peer()) == k.l || p.GetLinkByLabel(k.l.SwitchLabel()) == k.l {
							fail("closing-link-can-be-found", "%s: closing link to %s (conn %d) is still returned by a lookup", st.Node.Name, name(byIP, k.l.Peer()), k.conn)
						}
					}
					continue
				}
				if got := p.GetLink(k.l.Peer()); got != k.l {
					fail("live-link-not-found-by-peer", "%s: established, not-closing link to %s (conn %d, %s) is not returned by GetLink (returns %v)",
						st.Node.Name, name(byIP, k.l.Peer()), k.conn, k.how, describe(got))
				}
				if k.l.SwitchLabel() == 0 {
					fail("live-link-has-label-zero", "%s: link to %s has switch label 0", st.Node.Name, name(byIP, k.l.Peer()))
				}
				if got := p.GetLinkByLabel(k.l.SwitchLabel()); got != k.l {
					fail("live-link-not-found-by-label", "%s: established, not-closing link to %s (conn %d) is not returned by GetLinkByLabel(%d) (returns %v)",
						st.Node.Name, name(byIP, k.l.Peer()), k.conn, k.l.SwitchLabel(), describe(got))
				}
				if other, dup := labels[k.l.SwitchLabel()]; dup && other != k.l {
					fail("switch-label-not-unique", "%s: two live links share label %d", st.Node.Name, k.l.SwitchLabel())
				}
				labels[k.l.SwitchLabel()] = k.l
				peers[k.l.Peer()] = true
			}
			// Routing table: a direct-peer route for exactly the peers with a live link.
			havePeerRoute := map[netip.Addr]bool{}
			for _, en := range st.Node.Router.Table().VerifEntries() {
				if en.Source == m.RouteSourcePeer {
					havePeerRoute[en.DstIP] = true
				}
				if !peers[en.NextHop] {
					fail("route-via-peer-without-live-link", "%s: route to %s via %s, but there is no live link to that next hop", st.Node.Name, name(byIP, en.DstIP), name(byIP, en.NextHop))
				}
			}
			for pr := range peers {
				if !havePeerRoute[pr] {
					fail("live-link-without-peer-route", "%s: live link to %s but no direct-peer route", st.Node.Name, name(byIP, pr))
				}
			}
			for pr := range havePeerRoute {
				if !peers[pr] {
					fail("peer-route-without-live-link", "%s: direct-peer route to %s but no live link", st.Node.Name, name(byIP, pr))
				}
			}
		}
	}

	// Focused opening in a third of the runs: two routers dial each other
	// within a few milliseconds and only the order of the twelve handshake
	// records is varied - no faults - so that both handshakes can complete.
	if tp.Chance(1, 3) {
		i := tp.Intn(n)
		j := tp.Intn(n - 1)
		if j >= i {
			j++
		}
		atts = append(atts, linkpair.Dial(cn, S[i], S[j]))
		note("dial r%d>r%d (conn %d)", i, j, atts[len(atts)-1].Pair.ID)
		pre := tp.Intn(5)
		for k := 0; k < pre; k++ {
			if hs := cn.Heads(); len(hs) > 0 {
				cn.Deliver(hs[tp.Intn(len(hs))])
			}
		}
		time.Sleep(time.Duration(1+tp.Intn(4)) * time.Millisecond)
		atts = append(atts, linkpair.Dial(cn, S[j], S[i]))
		note("dial r%d>r%d (conn %d) %d records later", j, i, atts[len(atts)-1].Pair.ID, pre)
		e.Fault("cross_connect")
		for k := 0; k < 40; k++ {
			hs := cn.Heads()
			if len(hs) == 0 {
				break
			}
			r := hs[tp.Intn(len(hs))]
			cn.Deliver(r)
			e.Ev("deliver", uint64(r.Conn.ID), uint64(r.Dir), uint64(r.Seq))
			for _, a := range atts {
				if a.Result.Done && a.Result.Link != nil {
					learn(a.Result.Link, byIP[a.Client.Node.IP], "returned by link setup")
				}
				if a.Result.Panic != "" {
					fail("setup-panic:"+core.PanicClass(a.Result.Panic), "link setup panicked")
				}
			}
			if settle(false) {
				invariants()
			}
		}
		e.Probe("focused_cross_connect")
	}

	// Focused teardown-versus-reconnect in a third of the runs: an honest link, one end closes
	// it, the other end's teardown is parked at its k-th lock boundary (k = 1..8), and while it
	// is parked the two routers run a complete new handshake; then the teardown finishes.
	if focusTeardown {
		i := tp.Intn(n)
		j := tp.Intn(n - 1)
		if j >= i {
			j++
		}
		time.Sleep(time.Duration(1000+tp.Intn(500)) * time.Millisecond)
		atts = append(atts, linkpair.Dial(cn, S[i], S[j]))
		note("dial r%d>r%d (conn %d)", i, j, atts[len(atts)-1].Pair.ID)
		cn.DrainFIFO(tp, 300)
		settle(true)
		li, lj := S[i].Node.Peering.GetLink(S[j].Node.IP), S[j].Node.Peering.GetLink(S[i].Node.IP)
		learn(li, i, "found in registry")
		learn(lj, j, "found in registry")
		if li != nil && lj != nil && !li.IsClosing() && !lj.IsClosing() {
			closer, other := i, j
			if tp.Chance(1, 2) {
				closer, other = j, i
			}
			S[closer].Node.Peering.CloseLink(S[other].Node.IP)
			simnet.Wait()
			note("r%d: CloseLink(r%d), teardown at r%d parked at its lock boundary", closer, other, other)
			armed = 1 + tp.Intn(8)
			cn.DrainFIFO(tp, 100) // delivers the EOF; the other end's teardown starts
			armed = 0
			parked := len(stalled) > 0
			time.Sleep(time.Duration(2+tp.Intn(50)) * time.Millisecond)
			from, to := closer, other
			if tp.Chance(1, 2) {
				from, to = other, closer
			}
			atts = append(atts, linkpair.Dial(cn, S[from], S[to]))
			note("dial r%d>r%d (conn %d) while the teardown is parked=%v", from, to, atts[len(atts)-1].Pair.ID, parked)
			cn.DrainFIFO(tp, 300)
			settle(true)
			cn.DrainFIFO(tp, 300)
			for _, a := range atts {
				if a.Result.Done && a.Result.Link != nil {
					learn(a.Result.Link, byIP[a.Client.Node.IP], "returned by link setup")
				}
				if a.Result.Panic != "" {
					fail("setup-panic:"+core.PanicClass(a.Result.Panic), "link setup panicked")
				}
			}
			invariants()
			if parked {
				e.Probe("reconnect_during_parked_teardown")
				e.Nontrivial()
			}
		}
	}

	// Focused phase in a quarter of the runs: a slow handshake whose last records arrive a
	// round number of seconds after the connection was opened - to the microsecond, so that any
	// timer a router has set for this connection fires in the instant of the delivery and its
	// goroutine runs interleaved with the setup goroutine (at the lock boundaries). However
	// the handshake ends, the registry invariants hold afterwards.
	if tp.Chance(1, 4) {
		i := tp.Intn(n)
		j := tp.Intn(n - 1)
		if j >= i {
			j++
		}
		time.Sleep(time.Duration(1000+tp.Intn(500)) * time.Millisecond)
		t0 := time.Now()
		att := linkpair.Dial(cn, S[i], S[j])
		atts = append(atts, att)
		hold := 1 + tp.Intn(2)
		delivered := 0
		for guard := 0; guard < 40 && delivered < 6-hold; guard++ {
			var next *simnet.Record
			for _, r := range cn.Heads() {
				if r.Conn == att.Pair {
					next = r
					break
				}
			}
			if next == nil {
				break
			}
			cn.Deliver(next)
			delivered++
		}
		d := []time.Duration{time.Second, 2 * time.Second, 3 * time.Second, 5 * time.Second, 10 * time.Second, 15 * time.Second, 20 * time.Second, 30 * time.Second, 45 * time.Second, time.Minute, 90 * time.Second, 2 * time.Minute}[tp.Intn(12)]
		at := t0.Add(d)
		if tp.Chance(1, 4) {
			at = at.Add(-time.Microsecond) // just before
		}
		note("slow handshake r%d>r%d (conn %d): %d records delivered, the rest exactly %v after the dial", i, j, att.Pair.ID, delivered, d)
		for guard := 0; guard < 40; guard++ {
			var next *simnet.Record
			for _, r := range cn.Heads() {
				if r.Conn == att.Pair {
					next = r
					break
				}
			}
			if next == nil {
				break
			}
			cn.DeliverAt(next, at)
		}
		e.Fault("delay")
		settle(true)
		cn.DrainFIFO(tp, 300)
		settle(true)
		if att.Result.Done && att.Result.Link != nil {
			learn(att.Result.Link, byIP[att.Client.Node.IP], "returned by link setup")
		}
		if att.Result.Panic != "" {
			fail("setup-panic:"+core.PanicClass(att.Result.Panic), "link setup panicked")
		}
		learn(S[i].Node.Peering.GetLink(S[j].Node.IP), i, "found in registry")
		learn(S[j].Node.Peering.GetLink(S[i].Node.IP), j, "found in registry")
		invariants()
		e.Probe("slow_handshake_ending_at_a_round_offset")
	}

	nSteps := 10 + tp.Intn(70)
	for s := 0; s < nSteps; s++ {
		e.Step()
		heads := cn.Heads()
		w := []int{3, 0, 2, 2, 1, 1}
		if len(heads) > 0 {
			w[1] = 10
		}
		switch tp.Pick(w...) {
		case 0: // dial; sometimes both ends dial each other at the same time
			i := tp.Intn(n)
			j := tp.Intn(n - 1)
			if j >= i {
				j++
			}
			atts = append(atts, linkpair.Dial(cn, S[i], S[j]))
			note("dial r%d>r%d (conn %d)", i, j, atts[len(atts)-1].Pair.ID)
			if tp.Chance(1, 2) {
				// "At the same time" means within the other handshake, not within the
				// same millisecond (requests signed in the same millisecond are rejected
				// as duplicates of each other).
				time.Sleep(time.Duration(tp.Intn(4)) * time.Millisecond)
				atts = append(atts, linkpair.Dial(cn, S[j], S[i]))
				note("dial r%d>r%d (conn %d) at the same time", j, i, atts[len(atts)-1].Pair.ID)
				e.Fault("cross_connect")
			} else if n >= 3 && tp.Chance(1, 2) {
				// a third router sets up a link with the same target while the first setup is
				// still under way: two setups at one router that know nothing of each other
				k := tp.Intn(n)
				if k != i && k != j {
					time.Sleep(time.Duration(tp.Intn(4)) * time.Millisecond)
					atts = append(atts, linkpair.Dial(cn, S[k], S[j]))
					note("dial r%d>r%d (conn %d) while r%d>r%d is under way", k, j, atts[len(atts)-1].Pair.ID, i, j)
					e.Fault("concurrent_setups_at_one_router")
				}
			}
		case 1: // deliver the oldest record of some connection direction
			r := heads[tp.Intn(len(heads))]
			if len(heads) > 1 {
				e.Nontrivial()
			}
			cn.Deliver(r)
			e.Ev("deliver", uint64(r.Conn.ID), uint64(r.Dir), uint64(r.Seq))
		case 2: // local close of a live link
			var live []*known
			for _, k := range links {
				if !k.l.IsClosing() {
					live = append(live, k)
				}
			}
			if len(live) == 0 {
				continue
			}
			k := live[tp.Intn(len(live))]
			if tp.Chance(1, 2) {
				if tp.Chance(1, 2) {
					k.l.Close(nil)
				} else {
					go k.l.Close(nil) // as a worker of the router would: may be slowed down like any other
				}
				note("r%d: Close link to %s (conn %d)", k.at, name(byIP, k.l.Peer()), k.conn)
			} else {
				S[k.at].Node.Peering.CloseLink(k.l.Peer())
				note("r%d: CloseLink(%s)", k.at, name(byIP, k.l.Peer()))
			}
			e.Fault("close_local")
		case 3: // break a connection: EOF or I/O error on one end, any time
			ps := cn.Pairs()
			if len(ps) == 0 {
				continue
			}
			p := ps[tp.Intn(len(ps))]
			end := p.A
			nm := "a"
			if tp.Chance(1, 2) {
				end, nm = p.B, "b"
			}
			switch tp.Intn(3) {
			case 0:
				cn.DeliverBytes(end, nil, true)
				note("conn %d end %s: EOF", p.ID, nm)
				e.Fault("link_eof")
			case 1:
				end.FailReads(simnet.ErrSimIO)
				note("conn %d end %s: read error", p.ID, nm)
				e.Fault("link_ioerr")
			default:
				end.FailWrites(simnet.ErrSimIO)
				note("conn %d end %s: write errors from now on", p.ID, nm)
				e.Fault("link_ioerr")
			}
		case 5: // a router with live links to P and Q learns a second, relayed route to P over Q
			// (what Q's forwarding of P's announcement produces): P's direct-peer route must stay
			var cand [][3]int
			for i := range S {
				ls := S[i].Node.Peering.GetLinks()
				for _, lp := range ls {
					for _, lq := range ls {
						if lp != lq && !lp.IsClosing() && !lq.IsClosing() {
							if pi, ok := byIP[lp.Peer()]; ok {
								if qi, ok := byIP[lq.Peer()]; ok {
									cand = append(cand, [3]int{i, pi, qi})
								}
							}
						}
					}
				}
			}
			if len(cand) == 0 {
				continue
			}
			c := cand[tp.Intn(len(cand))]
			r, p, q := S[c[0]].Node, S[c[1]].Node, S[c[2]].Node
			lq := r.Peering.GetLink(q.IP)
			if lq == nil {
				continue
			}
			_, err := r.Router.Table().AddRoute(m.RoutingTableEntry{
				DstIP: p.IP, NextHop: q.IP, Source: m.RouteSourceGossip, Expires: time.Now().Add(10 * time.Minute),
				Path: m.SwitchPath{Hops: []m.SwitchHop{
					{Router: r.IP, ForwardLabel: lq.SwitchLabel(), Delay: 1},
					{Router: q.IP, ForwardLabel: m.SwitchLabel(1 + tp.Intn(100)), ReturnLabel: m.SwitchLabel(1 + tp.Intn(100)), Delay: 1},
					{Router: p.IP, ReturnLabel: m.SwitchLabel(1 + tp.Intn(100))},
				}},
			})
			note("r%d learns a relayed route to r%d over r%d (%v)", c[0], c[1], c[2], err)
			e.Probe("relayed_route_to_a_direct_peer_learned")
		case 4: // traffic over a live link (also reveals the remote link object)
			var live []*known
			for _, k := range links {
				if !k.l.IsClosing() {
					live = append(live, k)
				}
			}
			if len(live) == 0 {
				continue
			}
			k := live[tp.Intn(len(live))]
			f, err := S[k.at].Node.Inst.Builder.NewFrameV1(S[k.at].Node.IP, k.l.Peer(), frame.RouterPing, nil, tp.Bytes(20+tp.Intn(200)), nil)
			if err == nil {
				_ = k.l.Send(f)
			}
		}
		simnet.Wait()
		for _, a := range atts {
			if a.Result.Done && a.Result.Link != nil {
				learn(a.Result.Link, byIP[a.Client.Node.IP], "returned by link setup")
			}
			if a.Result.Panic != "" {
				fail("setup-panic:"+core.PanicClass(a.Result.Panic), "link setup panicked")
			}
		}
		if settle(false) {
			invariants()
		}
	}
	// Drain and check once more.
	settle(true)
	cn.DrainFIFO(tp, 3000)
	settle(true)
	cn.DrainFIFO(tp, 3000)
	invariants()
	live := 0
	for _, k := range links {
		if !k.l.IsClosing() {
			live++
		}
	}
	if live > 0 {
		e.Probe("live_links_at_end")
	}
	e.Ev("end", uint64(len(links)), uint64(live), uint64(len(atts)))
	e.Sample("%d routers, %d connection attempts, %d link objects seen, %d live at the end; first events: %v", n, len(atts), len(links), live, hist[:min(len(hist), 12)])
}

func name(byIP map[netip.Addr]int, ip netip.Addr) string {
	if i, ok := byIP[ip]; ok {
		return fmt.Sprintf("r%d", i)
	}
	return ip.String()
}

func describe(l peering.Link) string {
	if l == nil {
		return "nothing"
	}
	id, _, _ := simnet.ConnIDOf(l.LocalAddr())
	return fmt.Sprintf("the link of conn %d", id)
}

func TestCheck(t *testing.T) {
	core.Main(t, &core.Check{
		ID:             "C16",
		QuickRuns:      1200,
		ThoroughRuns:   150000,
		MinimiseBudget: 200,
		Run:            run,
	})
}

func b2u(b bool) uint64 {
	if b {
		return 1
	}
	return 0
}
