// C16 Link registry, switch labels and peer routes stay consistent through churn.
//
// Simulated system: 2..5 real peering stacks (peering + state + routing table;
// shipped listener, setup, reader and writer workers) on byte-level simulated
// connections. The tape draws connects, simultaneous cross-connects with the
// handshake records of both connections interleaved record by record, local
// closes, remote closes, EOF and I/O errors at any record boundary (also inside
// a handshake), and the delivery order of everything in flight. The oracle
// runs at every quiescent point.
package c16

import (
	"fmt"
	"net/netip"
	"testing"
	"time"

	"github.com/mycoria/mycoria/frame"
	"github.com/mycoria/mycoria/m"
	"github.com/mycoria/mycoria/peering"

	"mycoverif/core"
	"mycoverif/ident"
	"mycoverif/linkpair"
	"mycoverif/node"
	"mycoverif/simnet"
)

type known struct {
	l    peering.Link
	at   int
	conn int
	how  string
}

func run(e *core.Env) {
	tp := e.Tape
	e.StartClock()
	cn := simnet.NewConnNet(e)
	n := 2 + tp.Intn(4)
	perm := tp.Perm(12)
	S := make([]*linkpair.Stack, n)
	byIP := map[netip.Addr]int{}
	for i := range S {
		id := ident.Get(ident.Routable, perm[i])
		S[i] = linkpair.NewStack(e, fmt.Sprintf("r%d", i), id, node.BaseStore(id), false)
		byIP[id.IP] = i
	}
	var atts []*linkpair.Attempt
	var links []*known
	seen := map[peering.Link]bool{}
	var hist []string
	note := func(format string, args ...any) {
		s := fmt.Sprintf(format, args...)
		hist = append(hist, s)
		e.Logf("%s", s)
	}
	learn := func(l peering.Link, at int, how string) {
		if l == nil || seen[l] {
			return
		}
		seen[l] = true
		id, _, _ := simnet.ConnIDOf(l.LocalAddr())
		links = append(links, &known{l: l, at: at, conn: id, how: how})
	}
	fail := func(class, format string, args ...any) {
		e.Fail(class, "%s | nodes=%d | history: %v", fmt.Sprintf(format, args...), n, hist)
	}

	invariants := func() {
		for i, st := range S {
			if len(st.Node.PanicAlerts()) > 0 {
				stk := node.PanicStacks(node.NewStderr())
				cls := "unknown"
				if len(stk) > 0 {
					cls = core.PanicClass(stk[0])
				}
				fail("worker-panic:"+cls, "worker of %s panicked", st.Node.Name)
			}
			// Frames handed up tell us the server-side link objects.
			for {
				var f frame.Frame
				select {
				case f = <-st.Up:
				default:
				}
				if f == nil {
					break
				}
				if lk, ok := f.RecvLink().(peering.Link); ok {
					learn(lk, i, "observed as receive link")
				}
				f.ReturnToPool()
			}
		}
		for i, st := range S {
			p := st.Node.Peering
			reg := p.GetLinks()
			peers := map[netip.Addr]bool{}
			labels := map[m.SwitchLabel]peering.Link{}
			for _, l := range reg {
				learn(l, i, "found in registry")
				if l.IsClosing() {
					fail("closing-link-still-registered", "%s: GetLinks returns a closing link to %s", st.Node.Name, name(byIP, l.Peer()))
				}
				if p.GetLink(l.Peer()) != l {
					fail("registered-link-not-found-by-peer", "%s: link to %s", st.Node.Name, name(byIP, l.Peer()))
				}
				peers[l.Peer()] = true
			}
			for _, k := range links {
				if k.at != i || k.l.IsClosing() {
					if k.at == i {
						// no closing link can be found
						if p.GetLink(k.l.Peer()) == k.l || p.GetLinkByLabel(k.l.SwitchLabel()) == k.l {
							fail("closing-link-can-be-found", "%s: closing link to %s (conn %d) is still returned by a lookup", st.Node.Name, name(byIP, k.l.Peer()), k.conn)
						}
					}
					continue
				}
				if got := p.GetLink(k.l.Peer()); got != k.l {
					fail("live-link-not-found-by-peer", "%s: established, not-closing link to %s (conn %d, %s) is not returned by GetLink (returns %v)",
						st.Node.Name, name(byIP, k.l.Peer()), k.conn, k.how, describe(got))
				}
				if k.l.SwitchLabel() == 0 {
					fail("live-link-has-label-zero", "%s: link to %s has switch label 0", st.Node.Name, name(byIP, k.l.Peer()))
				}
				if got := p.GetLinkByLabel(k.l.SwitchLabel()); got != k.l {
					fail("live-link-not-found-by-label", "%s: established, not-closing link to %s (conn %d) is not returned by GetLinkByLabel(%d) (returns %v)",
						st.Node.Name, name(byIP, k.l.Peer()), k.conn, k.l.SwitchLabel(), describe(got))
				}
				if other, dup := labels[k.l.SwitchLabel()]; dup && other != k.l {
					fail("switch-label-not-unique", "%s: two live links share label %d", st.Node.Name, k.l.SwitchLabel())
				}
				labels[k.l.SwitchLabel()] = k.l
				peers[k.l.Peer()] = true
			}
			// Routing table: a direct-peer route for exactly the peers with a live link.
			havePeerRoute := map[netip.Addr]bool{}
			for _, en := range st.Node.Router.Table().VerifEntries() {
				if en.Source == m.RouteSourcePeer {
					havePeerRoute[en.DstIP] = true
				}
				if !peers[en.NextHop] {
					fail("route-via-peer-without-live-link", "%s: route to %s via %s, but there is no live link to that next hop", st.Node.Name, name(byIP, en.DstIP), name(byIP, en.NextHop))
				}
			}
			for pr := range peers {
				if !havePeerRoute[pr] {
					fail("live-link-without-peer-route", "%s: live link to %s but no direct-peer route", st.Node.Name, name(byIP, pr))
				}
			}
			for pr := range havePeerRoute {
				if !peers[pr] {
					fail("peer-route-without-live-link", "%s: direct-peer route to %s but no live link", st.Node.Name, name(byIP, pr))
				}
			}
		}
	}

	// Focused opening in a third of the runs: two routers dial each other
	// within a few milliseconds and only the order of the twelve handshake
	// records is varied - no faults - so that both handshakes can complete.
	if tp.Chance(1, 3) {
		i := tp.Intn(n)
		j := tp.Intn(n - 1)
		if j >= i {
			j++
		}
		atts = append(atts, linkpair.Dial(cn, S[i], S[j]))
		note("dial r%d>r%d (conn %d)", i, j, atts[len(atts)-1].Pair.ID)
		pre := tp.Intn(5)
		for k := 0; k < pre; k++ {
			if hs := cn.Heads(); len(hs) > 0 {
				cn.Deliver(hs[tp.Intn(len(hs))])
			}
		}
		time.Sleep(time.Duration(1+tp.Intn(4)) * time.Millisecond)
		atts = append(atts, linkpair.Dial(cn, S[j], S[i]))
		note("dial r%d>r%d (conn %d) %d records later", j, i, atts[len(atts)-1].Pair.ID, pre)
		e.Fault("cross_connect")
		for k := 0; k < 40; k++ {
			hs := cn.Heads()
			if len(hs) == 0 {
				break
			}
			r := hs[tp.Intn(len(hs))]
			cn.Deliver(r)
			e.Ev("deliver", uint64(r.Conn.ID), uint64(r.Dir), uint64(r.Seq))
			for _, a := range atts {
				if a.Result.Done && a.Result.Link != nil {
					learn(a.Result.Link, byIP[a.Client.Node.IP], "returned by link setup")
				}
				if a.Result.Panic != "" {
					fail("setup-panic:"+core.PanicClass(a.Result.Panic), "link setup panicked")
				}
			}
			invariants()
		}
		e.Probe("focused_cross_connect")
	}

	nSteps := 10 + tp.Intn(70)
	for s := 0; s < nSteps; s++ {
		e.Step()
		heads := cn.Heads()
		w := []int{3, 0, 2, 2, 1}
		if len(heads) > 0 {
			w[1] = 10
		}
		switch tp.Pick(w...) {
		case 0: // dial; sometimes both ends dial each other at the same time
			i := tp.Intn(n)
			j := tp.Intn(n - 1)
			if j >= i {
				j++
			}
			atts = append(atts, linkpair.Dial(cn, S[i], S[j]))
			note("dial r%d>r%d (conn %d)", i, j, atts[len(atts)-1].Pair.ID)
			if tp.Chance(1, 2) {
				// "At the same time" means within the other handshake, not within the
				// same millisecond (requests signed in the same millisecond are rejected
				// as duplicates of each other).
				time.Sleep(time.Duration(tp.Intn(4)) * time.Millisecond)
				atts = append(atts, linkpair.Dial(cn, S[j], S[i]))
				note("dial r%d>r%d (conn %d) at the same time", j, i, atts[len(atts)-1].Pair.ID)
				e.Fault("cross_connect")
			}
		case 1: // deliver the oldest record of some connection direction
			r := heads[tp.Intn(len(heads))]
			if len(heads) > 1 {
				e.Nontrivial()
			}
			cn.Deliver(r)
			e.Ev("deliver", uint64(r.Conn.ID), uint64(r.Dir), uint64(r.Seq))
		case 2: // local close of a live link
			var live []*known
			for _, k := range links {
				if !k.l.IsClosing() {
					live = append(live, k)
				}
			}
			if len(live) == 0 {
				continue
			}
			k := live[tp.Intn(len(live))]
			if tp.Chance(1, 2) {
				k.l.Close(nil)
				note("r%d: Close link to %s (conn %d)", k.at, name(byIP, k.l.Peer()), k.conn)
			} else {
				S[k.at].Node.Peering.CloseLink(k.l.Peer())
				note("r%d: CloseLink(%s)", k.at, name(byIP, k.l.Peer()))
			}
			e.Fault("close_local")
		case 3: // break a connection: EOF or I/O error on one end, any time
			ps := cn.Pairs()
			if len(ps) == 0 {
				continue
			}
			p := ps[tp.Intn(len(ps))]
			end := p.A
			nm := "a"
			if tp.Chance(1, 2) {
				end, nm = p.B, "b"
			}
			switch tp.Intn(3) {
			case 0:
				cn.DeliverBytes(end, nil, true)
				note("conn %d end %s: EOF", p.ID, nm)
				e.Fault("link_eof")
			case 1:
				end.FailReads(simnet.ErrSimIO)
				note("conn %d end %s: read error", p.ID, nm)
				e.Fault("link_ioerr")
			default:
				end.FailWrites(simnet.ErrSimIO)
				note("conn %d end %s: write errors from now on", p.ID, nm)
				e.Fault("link_ioerr")
			}
		case 4: // traffic over a live link (also reveals the remote link object)
			var live []*known
			for _, k := range links {
				if !k.l.IsClosing() {
					live = append(live, k)
				}
			}
			if len(live) == 0 {
				continue
			}
			k := live[tp.Intn(len(live))]
			f, err := S[k.at].Node.Inst.Builder.NewFrameV1(S[k.at].Node.IP, k.l.Peer(), frame.RouterPing, nil, tp.Bytes(20+tp.Intn(200)), nil)
			if err == nil {
				_ = k.l.Send(f)
			}
		}
		simnet.Wait()
		for _, a := range atts {
			if a.Result.Done && a.Result.Link != nil {
				learn(a.Result.Link, byIP[a.Client.Node.IP], "returned by link setup")
			}
			if a.Result.Panic != "" {
				fail("setup-panic:"+core.PanicClass(a.Result.Panic), "link setup panicked")
			}
		}
		invariants()
	}
	// Drain and check once more.
	cn.DrainFIFO(tp, 3000)
	invariants()
	live := 0
	for _, k := range links {
		if !k.l.IsClosing() {
			live++
		}
	}
	if live > 0 {
		e.Probe("live_links_at_end")
	}
	e.Ev("end", uint64(len(links)), uint64(live), uint64(len(atts)))
	e.Sample("%d routers, %d connection attempts, %d link objects seen, %d live at the end; first events: %v", n, len(atts), len(links), live, hist[:min(len(hist), 12)])
}

func name(byIP map[netip.Addr]int, ip netip.Addr) string {
	if i, ok := byIP[ip]; ok {
		return fmt.Sprintf("r%d", i)
	}
	return ip.String()
}

func describe(l peering.Link) string {
	if l == nil {
		return "nothing"
	}
	id, _, _ := simnet.ConnIDOf(l.LocalAddr())
	return fmt.Sprintf("the link of conn %d", id)
}

func TestCheck(t *testing.T) {
	core.Main(t, &core.Check{
		ID:             "C16",
		QuickRuns:      1200,
		ThoroughRuns:   150000,
		MinimiseBudget: 200,
		Run:            run,
	})
}
