// C10 Unicast delivery, bounded forwarding, content preservation.
//
// Simulated system: converged meshes of real router nodes (as in C09). Probe
// pings (a harness ping type registered through RegisterPingHandler) are
// originated through the public RouteFrame / ForwardByLabel. Phase A is fault
// free and checks delivery to exactly the destination and the routed reply.
// Phase B fills routing tables with cyclic / inconsistent routes through the
// public AddRoute, sends frames with arbitrary initial TTL and forged switch
// blocks, takes links down mid-flight, and checks the forwarding bound and
// byte preservation on every link crossing.
package c10

import (
	"bytes"
	"context"
	"fmt"
	"log/slog"
	"net/netip"
	"os"
	"strings"
	"sync"
	"testing"
	"time"

	"github.com/mycoria/mycoria/frame"
	"github.com/mycoria/mycoria/m"

	"mycoverif/core"
	"mycoverif/fullmesh"
	"mycoverif/ident"
	"mycoverif/mesh"
	"mycoverif/simnet"
)

type tracked struct {
	token    []byte
	initTTL  int
	first    []byte
	sbLen    int
	lastTTL  int
	crossing int
	labelSw  bool
}

func run(e *core.Env) {
	tp := e.Tape
	if tp.Intn(12) == 0 {
		runFullStack(e)
		return
	}
	e.StartClock()
	ms := mesh.Build(e, mesh.Options{MinNodes: 2, MaxNodes: 12, MaxExtraEdges: 3, TwoByteLabels: true, BigInfo: true, RoamingSome: tp.Chance(1, 2)})
	ms.AutoReply = true
	n := len(ms.Nodes)

	var trk []*tracked
	var crossViolation, crossDetail string
	set := func(cls, format string, args ...any) {
		if crossViolation == "" {
			crossViolation, crossDetail = cls, fmt.Sprintf(format, args...)
		}
	}
	ms.Net.Record = false
	ms.Net.OnSend = func(c *simnet.Crossing) {
		d := c.Data
		if len(d) < 52 {
			return
		}
		if d[1] == 0 {
			set("frame-crossed-link-with-ttl-0", "%s->%s frame type %d crossed with TTL 0", c.From.Name, c.To.Name, d[4])
		}
		for _, t := range trk {
			if !bytes.Contains(d, t.token) {
				continue
			}
			t.crossing++
			ttl := int(d[1])
			if t.first == nil {
				t.first = append([]byte(nil), d...)
				t.sbLen = int(d[48])
				if ttl >= t.initTTL {
					set("ttl-not-reduced-on-first-hop", "frame %q left its origin with TTL %d, initial %d", t.token, ttl, t.initTTL)
				}
			} else {
				if ttl >= t.lastTTL {
					set("ttl-not-strictly-decreasing", "frame %q crossed %s->%s with TTL %d after a crossing with TTL %d", t.token, c.From.Name, c.To.Name, ttl, t.lastTTL)
				}
				// Byte preservation: everything except TTL, flow flags, switch block.
				if len(d) != len(t.first) {
					set("frame-length-changed-by-forwarding", "frame %q: %d bytes at first crossing, %d at %s->%s", t.token, len(t.first), len(d), c.From.Name, c.To.Name)
				} else {
					for i := range d {
						if i == 1 || i == 2 || (i >= 49 && i < 49+t.sbLen) {
							continue
						}
						if d[i] != t.first[i] {
							set("byte-outside-ttl-flow-switchblock-changed", "frame %q: byte %d changed from %02x to %02x at %s->%s (switch block is bytes 49..%d)",
								t.token, i, t.first[i], d[i], c.From.Name, c.To.Name, 48+t.sbLen)
							break
						}
					}
				}
			}
			t.lastTTL = ttl
			if t.crossing > t.initTTL-1 {
				set("more-crossings-than-initial-ttl-minus-one", "frame %q (initial TTL %d) crossed %d links", t.token, t.initTTL, t.crossing)
			}
		}
	}
	finish := func(where string) {
		ms.CheckPanics("worker-panic")
		if crossViolation != "" {
			e.Fail(crossViolation, "%s [%s]", crossDetail, where)
		}
	}

	// Converge.
	ms.Net.RunFor(tp, 5*time.Second+100*time.Millisecond, 60000)
	simnet.Wait()
	if ms.Net.DrainFIFO(tp, 60000) >= 60000 {
		e.Infra("convergence did not drain")
	}
	finish("converge")
	converged := true
	for u := 0; u < n; u++ {
		for v := 0; v < n; v++ {
			if u == v {
				continue
			}
			if rte, isDst := ms.Nodes[u].Router.Table().LookupNearest(ms.Nodes[v].IP); rte == nil || !isDst {
				// Convergence is C09's property; without it phase A has no premise.
				converged = false
			}
		}
	}

	// Wave 16: the mesh has been up for a while (a sixth of the converged runs). Nothing about the
	// mesh changes; routers go on announcing themselves every five minutes and clean their tables
	// once a minute. What was a converged honest mesh stays one: the requests below are judged
	// without looking at the tables again.
	aged := false
	if converged && n <= 10 && tp.Chance(1, 4) {
		up := 6*time.Minute + time.Duration(tp.Intn(1200))*time.Second
		if tp.Chance(1, 2) {
			// aimed at the minutes in which what was learned in an earlier round runs out unless
			// a later round renewed it (announcements promise two rounds and a few seconds)
			up = time.Duration(1+tp.Intn(3))*10*time.Minute + time.Duration(15+tp.Intn(270))*time.Second
		}
		ms.Net.RunFor(tp, up, 400000)
		simnet.Wait()
		if ms.Net.DrainFIFO(tp, 60000) >= 60000 {
			e.Infra("long uptime did not drain")
		}
		finish("long uptime")
		e.Probe("mesh_up_for_minutes_before_the_requests")
		aged = true
	}

	probeBase := 0
	if n >= 2 {
		if pf, err := ms.NewProbeFrame(ms.Nodes[0], ms.Nodes[1].IP, nil, nil, false, ""); err == nil {
			d, _ := pf.FrameDataWithMargins(0, 0)
			probeBase = len(d)
			pf.ReturnToPool()
		}
	}
	tokSeq := 0
	newToken := func() []byte {
		tokSeq++
		tok := []byte(fmt.Sprintf("TOK-%04d-%x", tokSeq, tp.Bytes(6)))
		// Frame sizes matter to the forwarding path (pooled buffer tiers, link margins): a third
		// of the probes carry padding, half of those aimed at making the link record (12-byte
		// link header + frame + 16-byte tag) fill a buffer tier exactly, or miss it by one.
		switch tp.Intn(6) {
		case 0:
			tok = append(tok, bytes.Repeat([]byte{'p'}, tp.Intn(9000))...)
		case 1:
			// a bare probe frame is about 200 bytes: token + header + signature
			target := []int{600, 1600, 5100, 9600}[tp.Intn(4)] + tp.Intn(3) - 1
			if pad := target - 28 - probeBase - len(tok); pad > 0 {
				tok = append(tok, bytes.Repeat([]byte{'q'}, pad)...)
				e.Probe("probe_sized_at_buffer_tier")
			}
		}
		return tok
	}

	// ---- Phase A: fault-free routed request / reply ----
	nPairs := 1 + tp.Intn(6)
	if aged {
		// many pairs in an aged mesh: what a router no longer knows exactly it hands to the
		// nearest address it knows, which is right for some destinations and wrong for others
		nPairs = 12 + tp.Intn(20)
	}
	if !converged {
		nPairs = 0
		e.Probe("premise_mesh_not_converged")
	}
	for k := 0; k < nPairs && n >= 2; k++ {
		a := tp.Intn(n)
		b := tp.Intn(n - 1)
		if b >= a {
			b++
		}
		A, B := ms.Nodes[a], ms.Nodes[b]
		// A router on the way may just have failed to build a frame of its own (an error text
		// beyond the format's limit): nothing leaves it, and nothing about the next frame it
		// handles may change.
		if tp.Chance(1, 4) {
			x := ms.Nodes[tp.Intn(n)]
			if err := x.Router.ErrorPing.SendGeneric(ms.Nodes[tp.Intn(n)].IP, strings.Repeat("x", 10001+tp.Intn(200))); err != nil {
				e.Probe("router_failed_to_build_own_frame")
			}
		}
		tok := newToken()
		t := &tracked{token: tok, initTTL: 32}
		trk = append(trk, t)
		ms.TakeProbes()
		f, err := ms.NewProbeFrame(A, B.IP, nil, nil, false, string(tok))
		if err != nil {
			e.Infra("probe: %v", err)
		}
		if err := A.Router.RouteFrame(f); err != nil {
			e.Fail("converged-mesh-cannot-route", "%s cannot route a request to %s: %v", A.Name, B.Name, err)
		}
		simnet.Wait()
		ms.Net.DrainFIFO(tp, 5000)
		evs := ms.TakeProbes()
		var gotReq, gotRep bool
		for _, ev := range evs {
			switch {
			case !ev.Reply && ev.At == b && ev.Payload == string(tok):
				gotReq = true
			case ev.Reply && ev.At == a:
				gotRep = true
			case !ev.Reply:
				e.Fail("request-handed-to-wrong-router", "request %s>%s was handed to %s", A.Name, B.Name, ms.Nodes[ev.At].Name)
			default:
				e.Fail("reply-handed-to-wrong-router", "reply %s>%s was handed to %s", B.Name, A.Name, ms.Nodes[ev.At].Name)
			}
		}
		if !gotReq {
			e.Fail("request-not-delivered", "%s mesh n=%d: routed request %s>%s was not handed to the destination (%d crossings)", ms.Kind, n, A.Name, B.Name, t.crossing)
		}
		if !gotRep {
			e.Fail("reply-not-delivered", "%s mesh n=%d: reply %s>%s did not reach the requester", ms.Kind, n, B.Name, A.Name)
		}
		e.Probe("routed_request_and_reply_delivered")
		if t.crossing >= 3 {
			e.Probe("request_crossed_3_or_more_links")
		}
		finish("phase A")
	}

	// ---- Phase B: adversarial tables, TTLs, switch blocks, link failures ----
	if n >= 2 {
		ghost := ident.Get(ident.Routable, 40+tp.Intn(4)) // a destination that is not in the mesh
		nBad := tp.Intn(2 * n)
		for k := 0; k < nBad; k++ {
			i := tp.Intn(n)
			nd := ms.Nodes[i]
			if len(ms.Adj[i]) == 0 {
				continue
			}
			nh := ms.Nodes[ms.Adj[i][tp.Intn(len(ms.Adj[i]))]]
			dst := ghost.IP
			if tp.Chance(1, 3) {
				dst = ms.Nodes[tp.Intn(n)].IP
			}
			if dst == nd.IP || dst == nh.IP {
				continue
			}
			hops := []m.SwitchHop{
				{Router: nd.IP, ForwardLabel: ms.LabelAt(i, ms.ByIP[nh.IP]), Delay: uint16(tp.Intn(5))},
				{Router: nh.IP, ForwardLabel: m.SwitchLabel(1 + tp.Intn(127)), ReturnLabel: m.SwitchLabel(1 + tp.Intn(127))},
				{Router: dst, ReturnLabel: m.SwitchLabel(1 + tp.Intn(127))},
			}
			path := m.SwitchPath{Hops: hops}
			path.CalculateTotals()
			_, err := nd.Router.Table().AddRoute(m.RoutingTableEntry{
				DstIP: dst, NextHop: nh.IP, Path: path, Source: m.RouteSourceGossip,
				Expires: time.Now().Add(time.Hour),
			})
			if err == nil {
				e.Fault("adversarial_route")
			}
		}
		nFrames := 1 + tp.Intn(8)
		for k := 0; k < nFrames; k++ {
			a := tp.Intn(n)
			A := ms.Nodes[a]
			tok := newToken()
			initTTL := []int{32, 2, 3, 5, 33, 64, 255, 1, 0}[tp.Intn(9)] // (0: what a non-conforming neighbour could hand over)
			t := &tracked{token: tok, initTTL: initTTL}
			trk = append(trk, t)
			var dst netip.Addr
			switch tp.Intn(3) {
			case 0:
				dst = ghost.IP
			default:
				dst = ms.Nodes[tp.Intn(n)].IP
			}
			if dst == A.IP {
				dst = ghost.IP
			}
			labelSwitched := tp.Chance(1, 2)
			if !labelSwitched && tp.Chance(1, 3) {
				// A frame the shipped code originates itself, for a router nobody knows (so it is
				// signed without a session), sent into tables that lead it round in circles: it
				// starts with the TTL every originated frame has and crosses at most 31 links.
				stranger := ident.Get(ident.Routable, 50+k)
				for j, nb := 0, 2+tp.Intn(2*n); j < nb; j++ {
					i := tp.Intn(n)
					nd := ms.Nodes[i]
					if len(ms.Adj[i]) == 0 {
						continue
					}
					nh := ms.Nodes[ms.Adj[i][tp.Intn(len(ms.Adj[i]))]]
					path := m.SwitchPath{Hops: []m.SwitchHop{
						{Router: nd.IP, ForwardLabel: ms.LabelAt(i, ms.ByIP[nh.IP]), Delay: uint16(tp.Intn(5))},
						{Router: nh.IP, ForwardLabel: m.SwitchLabel(1 + tp.Intn(127)), ReturnLabel: m.SwitchLabel(1 + tp.Intn(127))},
						{Router: stranger.IP, ReturnLabel: m.SwitchLabel(1 + tp.Intn(127))},
					}}
					path.CalculateTotals()
					_, _ = nd.Router.Table().AddRoute(m.RoutingTableEntry{DstIP: stranger.IP, NextHop: nh.IP, Path: path, Source: m.RouteSourceGossip, Expires: time.Now().Add(time.Hour)})
				}
				sa, da := A.IP.As16(), stranger.IP.As16()
				t.token = append(append([]byte(nil), sa[:]...), da[:]...) // source and destination fields, adjacent in the header
				t.initTTL = 32
				_, _, _ = A.Router.PingPong.Send(stranger.IP, false, 0)
				e.Probe("frame_originated_by_the_router_for_an_unknown_destination")
				simnet.Wait()
				for steps := 0; steps < 4000; steps++ {
					p := ms.Net.ChooseFIFO(tp)
					if p == nil {
						break
					}
					ms.Net.Deliver(p)
					e.Step()
				}
				if t.crossing >= 10 {
					e.Probe("frame_crossed_10_or_more_links")
				}
				finish("phase B, originated frame")
				continue
			}
			if labelSwitched {
				// Forged switch block: a random walk over real labels, possibly
				// cyclic, possibly with labels nobody has, possibly unterminated.
				var block []byte
				cur := a
				first := m.SwitchLabel(0)
				steps := 1 + tp.Intn(40)
				for s := 0; s < steps; s++ {
					var l m.SwitchLabel
					if len(ms.Adj[cur]) > 0 && !tp.Chance(1, 12) {
						nx := ms.Adj[cur][tp.Intn(len(ms.Adj[cur]))]
						l = ms.LabelAt(cur, nx)
						cur = nx
					} else {
						l = m.SwitchLabel(tp.Intn(20000))
					}
					if s == 0 {
						first = l
						continue
					}
					var buf [3]byte
					k := putUvarint(buf[:], uint64(l))
					block = append(block, buf[:k]...)
				}
				pad := tp.Intn(6)
				if tp.Chance(3, 4) {
					pad++
				}
				block = append(block, make([]byte, pad)...)
				if len(block) > 255 {
					block = block[:255]
				}
				if len(block) == 0 {
					block = []byte{0}
				}
				t.labelSw = true
				f, err := ms.NewProbeFrame(A, dst, block, nil, false, string(tok))
				if err != nil {
					e.Infra("probe: %v", err)
				}
				f.SetTTL(uint8(initTTL))
				_ = A.Switch.ForwardByLabel(f, first)
				e.Fault("forged_switch_block")
			} else {
				f, err := ms.NewProbeFrame(A, dst, nil, nil, false, string(tok))
				if err != nil {
					e.Infra("probe: %v", err)
				}
				if tp.Chance(1, 3) {
					// A frame of any message type - also the end-to-end encrypted ones, with what a
					// relay cannot tell from ciphertext as payload - and with an appendix: relays do
					// not open it, they pass it on as it is (the destination will refuse it).
					f.ReturnToPool()
					mt := []frame.MessageType{frame.RouterCtrl, frame.NetworkTraffic, frame.SessionCtrl, frame.SessionData, frame.RouterPing, frame.RouterHopPing}[tp.Intn(6)]
					payload := append(append([]byte(nil), tok...), tp.Bytes(tp.Intn(300))...)
					var apx []byte
					if tp.Chance(3, 4) {
						apx = tp.Bytes(1 + tp.Intn(400))
					}
					f, err = A.Inst.Builder.NewFrameV1(A.IP, dst, mt, nil, payload, apx)
					if err != nil {
						e.Infra("typed frame: %v", err)
					}
					e.Probe("relayed_frame_of_any_type_with_appendix")
				}
				f.SetTTL(uint8(initTTL))
				if err := A.Router.RouteFrame(f); err != nil {
					f.ReturnToPool()
				}
				if initTTL != 32 {
					e.Fault("unusual_initial_ttl")
				}
			}
			simnet.Wait()
			// Deliver with faults: any order within FIFO links, links going down mid-flight.
			for steps := 0; steps < 4000; steps++ {
				p := ms.Net.ChooseFIFO(tp)
				if p == nil {
					break
				}
				if tp.Chance(1, 60) {
					ls := ms.Net.Links()
					l := ls[tp.Intn(len(ls))]
					if !l.IsClosing() {
						l.Close(nil)
						e.Fault("link_down")
					}
					continue
				}
				ms.Net.Deliver(p)
				e.Step()
			}
			if t.crossing >= 10 {
				e.Probe("frame_crossed_10_or_more_links")
			}
			if t.crossing == t.initTTL-1 && t.initTTL > 1 {
				e.Probe("ttl_expired_in_loop")
			}
			finish("phase B")
		}
	}
	nc := 0
	for i, t := range trk {
		nc += t.crossing
		e.Ev("frame", uint64(i), uint64(t.initTTL), uint64(t.crossing), uint64(t.lastTTL), uint64(t.sbLen))
	}
	e.Ev("done", uint64(len(trk)), uint64(nc))
	e.Sample("%d tracked frames, %d tracked crossings", len(trk), nc)
}

// classDelayed is the one recorded finding of C10 (KNOWN_FINDINGS.json): an honest frame is in
// flight while another signed frame of the same router (its periodic announcement, relayed over
// another path) reaches the destination first, stamped later or in the same millisecond. A router
// stamps signed frames per destination and checks them per source, strictly increasing: the frame
// that arrives second is refused as "delayed frame" or "immediate duplicate frame".
const classDelayed = "full-stack/honest-frame-refused-by-the-order-check-of-signed-frames"

// delayedLog is a slog.Handler that keeps the "delayed frame" refusals of the routers' frame
// handlers: source and destination address of the refused frame and the simulated time.
type delayedLog struct {
	mu    sync.Mutex
	recs  []delayedRec
	lines []string // VERIF_SLOG: everything the routers log (looking closer at one replay)
}

type delayedRec struct {
	src, dst string
	at       time.Time
}

func (d *delayedLog) Enabled(context.Context, slog.Level) bool { return true }
func (d *delayedLog) WithAttrs([]slog.Attr) slog.Handler       { return d }
func (d *delayedLog) WithGroup(string) slog.Handler            { return d }
func (d *delayedLog) Handle(_ context.Context, r slog.Record) error {
	if os.Getenv("VERIF_SLOG") != "" && r.Level >= slog.LevelDebug {
		line := r.Time.Format("15:04:05.000") + " " + r.Message
		r.Attrs(func(a slog.Attr) bool { line += " " + a.Key + "=" + a.Value.String(); return true })
		d.mu.Lock()
		d.lines = append(d.lines, line)
		d.mu.Unlock()
	}
	if r.Message != "failed to handle frame" {
		return nil
	}
	var rec delayedRec
	delayed := false
	r.Attrs(func(a slog.Attr) bool {
		switch a.Key {
		case "router":
			rec.src = a.Value.String()
		case "dst":
			rec.dst = a.Value.String()
		case "err":
			delayed = strings.Contains(a.Value.String(), "delayed frame") || strings.Contains(a.Value.String(), "immediate duplicate frame")
		}
		return true
	})
	if delayed {
		rec.at = time.Now()
		d.mu.Lock()
		d.recs = append(d.recs, rec)
		d.mu.Unlock()
	}
	return nil
}

func (d *delayedLog) has(src, dst netip.Addr, since time.Time) bool {
	d.mu.Lock()
	defer d.mu.Unlock()
	for _, r := range d.recs {
		if r.src == src.String() && r.dst == dst.String() && !r.at.Before(since) {
			return true
		}
	}
	return false
}

// runFullStack: the first sentence of the claim on the complete shipped stack - 3..6 real
// top-level router instances on the simulated loopback interface (shipped TCP peering
// protocol, handshake, link layer, keep-alives, switch, router; only the byte transport is
// simulated), converged through their own announcements. Between every ordered pair of routers
// a probe request is routed: it must be handed to the destination's handler and to no other
// router's. The shipped ping-pong is then sent from A to B: the answer B seals must reach A
// (the notification channel of A's request closes) within two simulated seconds of an
// otherwise quiet mesh. Forwarding steps cannot be observed here (links are encrypted); the
// per-crossing oracles stay with the frame-level meshes.
func runFullStack(e *core.Env) {
	tp := e.Tape
	e.StartClock()
	// The routers' own log is listened to for one thing: "delayed frame" refusals (who refused
	// whose frame when), so that a lost request can be told apart by its cause.
	refusals := &delayedLog{}
	oldLog := slog.Default()
	slog.SetDefault(slog.New(refusals))
	e.Cleanup(func() { slog.SetDefault(oldLog) })
	ms := fullmesh.Build(e, fullmesh.Options{MinNodes: 3, MaxNodes: 6, IdentBase: 8 * tp.Intn(2)})
	n := len(ms.Insts)
	e.Probe("fullstack_run")
	if !ms.Converge() {
		// whether honest routers peer and stay linked is C20's / C16's subject
		e.Probe("fullstack_mesh_did_not_converge")
		return
	}
	ms.CheckPanics("after convergence")
	for u := 0; u < n; u++ {
		for v := 0; v < n; v++ {
			if u == v {
				continue
			}
			U, V := ms.Insts[u], ms.Insts[v]
			if rte, isDst := U.In.RoutingTable().LookupNearest(V.IP); rte == nil || !isDst {
				// reach is C09's claim; C10 speaks of converged meshes
				e.Probe("fullstack_mesh_did_not_converge")
				return
			}
		}
	}
	requests := func(tag string) {
		for _, u := range tp.Perm(n) {
			for _, v := range tp.Perm(n) {
				if u == v || !tp.Chance(2, 3) {
					continue
				}
				U, V := ms.Insts[u], ms.Insts[v]
				ms.TakeProbes()
				payload := fmt.Sprintf("req %d>%d", u, v)
				sentAt := time.Now()
				if err := ms.SendProbe(u, v, payload); err != nil {
					e.Fail("full-stack"+tag+"/request-not-routable", "%s cannot route a request to %s in a converged mesh: %v", U.Name, V.Name, err)
				}
				ms.CN.RunFor(tp, 2*time.Second, 20000)
				got := false
				for _, g := range ms.TakeProbes() {
					if g.Payload != payload {
						continue
					}
					if g.At != v {
						e.Fail("full-stack"+tag+"/request-handled-at-wrong-router", "request %s>%s was handed to the handlers of %s", U.Name, V.Name, ms.Insts[g.At].Name)
					}
					if got {
						e.Fail("full-stack"+tag+"/request-handled-twice", "request %s>%s was handed to the destination's handlers twice", U.Name, V.Name)
					}
					got = true
				}
				if !got {
					if e.Trace {
						for w := 0; w < n; w++ {
							W := ms.Insts[w]
							rte, isDst := W.In.RoutingTable().LookupNearest(V.IP)
							nh := "none"
							hops := 0
							if rte != nil {
								nh, hops = rte.NextHop.String(), len(rte.Path.Hops)
							}
							e.Tracef("at failure %s: %s -> %s: nexthop=%s isDst=%v hops=%d links=%d up=%s", time.Now().Format("15:04:05.000"), W.Name, V.Name, nh, isDst, hops, W.In.Peering().LinkCnt(), time.Since(W.StartedAt).Round(time.Second))
						}
						for w := 0; w < n; w++ {
							e.Tracef("  %s = %s", ms.Insts[w].Name, ms.Insts[w].IP)
						}
					}
					if refusals.has(U.IP, V.IP, sentAt) {
						e.Fail(classDelayed, "%s mesh of %d real instances, edges %v: request %s>%s was refused by its destination's order check of signed frames (full-stack%s/request-not-delivered)", ms.Kind, n, ms.Edges, U.Name, V.Name, tag)
					}
					e.Fail("full-stack"+tag+"/request-not-delivered", "%s mesh of %d real instances, edges %v: request %s>%s was not handed to the destination", ms.Kind, n, ms.Edges, U.Name, V.Name)
				}
				// Wave 15: in a third of the pings the request leaves a moment before one of the
				// requester's once-a-minute housekeeping ticks and its answer comes back a moment
				// after it (a round trip of 60..800 ms on honest links): the answer still has to
				// reach whoever waits for it.
				lead := time.Duration(0)
				if tp.Chance(1, 3) && !U.StartedAt.IsZero() {
					lead = time.Duration(30+tp.Intn(370)) * time.Millisecond
					toTick := time.Minute - time.Since(U.StartedAt)%time.Minute
					if toTick > lead {
						ms.CN.RunFor(tp, toTick-lead, 400000)
					} else {
						ms.CN.RunFor(tp, toTick+time.Minute-lead, 400000)
					}
				}
				pingAt := time.Now()
				notify, _, err := U.In.Router().PingPong.Send(V.IP, false, 0)
				if err != nil {
					e.Fail("full-stack"+tag+"/request-not-routable", "%s cannot send a ping to %s in a converged mesh: %v", U.Name, V.Name, err)
				}
				if lead > 0 {
					time.Sleep(lead + time.Duration(30+tp.Intn(370))*time.Millisecond) // the records are on their way meanwhile
					e.Probe("fullstack_ping_in_flight_across_a_housekeeping_tick")
				}
				ms.CN.RunFor(tp, 2*time.Second, 20000)
				select {
				case <-notify:
					e.Probe("fullstack_reply_reached_requester")
				default:
					if e.Trace {
						refusals.mu.Lock()
						for _, l := range refusals.lines[max(0, len(refusals.lines)-60):] {
							e.Tracef("log: %s", l)
						}
						refusals.mu.Unlock()
					}
					if refusals.has(U.IP, V.IP, pingAt) || refusals.has(V.IP, U.IP, pingAt) {
						e.Fail(classDelayed, "%s mesh of %d real instances, edges %v: %s pinged %s, request or answer was refused by the order check of signed frames (full-stack%s/reply-does-not-reach-requester)", ms.Kind, n, ms.Edges, U.Name, V.Name, tag)
					}
					e.Fail("full-stack"+tag+"/reply-does-not-reach-requester", "%s mesh of %d real instances, edges %v: %s pinged %s, no answer reached it within 2 s", ms.Kind, n, ms.Edges, U.Name, V.Name)
				}
			}
		}
	}
	requests("")
	// In half of the runs a connection then breaks (EOF or I/O error); the shipped connect
	// manager dials again, every router announces itself once more - the mesh is converged
	// again, over a new link between two of its routers - and the same is demanded.
	if tp.Chance(1, 2) {
		var live []*simnet.ConnPair
		for _, p := range ms.CN.Pairs() {
			if !p.A.IsClosed() && !p.B.IsClosed() {
				live = append(live, p)
			}
		}
		if len(live) > 0 {
			p := live[tp.Intn(len(live))]
			if tp.Chance(1, 2) {
				p.A.FailReads(simnet.ErrSimIO)
			} else {
				ms.CN.DeliverBytes(p.B, nil, true)
			}
			e.Fault("link_break")
			ms.CN.RunFor(tp, 5*time.Second, 40000)
			if ms.Converge() {
				reconverged := true
				for u := 0; u < n && reconverged; u++ {
					for v := 0; v < n; v++ {
						if u == v {
							continue
						}
						if rte, isDst := ms.Insts[u].In.RoutingTable().LookupNearest(ms.Insts[v].IP); rte == nil || !isDst {
							reconverged = false
						}
					}
				}
				if reconverged {
					requests("/after-a-connection-broke-and-was-redialled")
					e.Probe("fullstack_requests_after_redial")
				}
			}
		}
	}
	ms.CheckPanics("after requests")
	e.Sample("full stack: %s mesh of %d real instances, request and reply between the router pairs", ms.Kind, n)
}

func putUvarint(buf []byte, x uint64) int {
	i := 0
	for x >= 0x80 {
		buf[i] = byte(x) | 0x80
		x >>= 7
		i++
	}
	buf[i] = byte(x)
	return i + 1
}

var _ = frame.V1

func TestCheck(t *testing.T) {
	core.Main(t, &core.Check{
		ID:             "C10",
		QuickRuns:      400,
		ThoroughRuns:   40000,
		MinimiseBudget: 150,
		Run:            run,
	})
}
