// C02 Sealed frames: exact round trip; any change to a protected byte is rejected.
//
// Simulated system: four routers A, B, C, D with real sessions (end-to-end
// keys from the real key-exchange calls). A seals frames for B through the real
// builder; the adversary on the A->B link corrupts them in flight. For each
// sampled frame every bit of every protected byte is flipped (exhaustively for
// frames up to 2 KiB, header/length/auth plus a seeded payload sample beyond),
// then the pristine frame must still unseal (receiver state untouched), and
// hop-mutable changes (TTL, flow flags, appendix) must never invalidate it.
package c02

import (
	"bytes"
	"fmt"
	"testing"
	"time"

	"github.com/mycoria/mycoria/frame"
	"github.com/mycoria/mycoria/peering"
	"github.com/mycoria/mycoria/state"

	"mycoverif/core"
	"mycoverif/ident"
	"mycoverif/node"
)

var msgTypes = []frame.MessageType{
	frame.RouterHopPingDeprecated, frame.RouterPing, frame.RouterCtrl, frame.RouterHopPing,
	frame.NetworkTraffic, frame.SessionCtrl, frame.SessionData,
}

func keyed(e *core.Env, a, b *node.Node) {
	_ = a.State.AddRouter(&b.ID.PublicAddress)
	_ = b.State.AddRouter(&a.ID.PublicAddress)
	as, bs := a.State.GetSession(b.IP), b.State.GetSession(a.IP)
	kx, kxt, err := as.Encryption().InitKeyClientStart()
	if err != nil {
		e.Infra("kx: %v", err)
	}
	kx2, kxt2, err := bs.Encryption().InitKeyServer(kx, kxt)
	if err != nil {
		e.Infra("kx: %v", err)
	}
	if err := as.Encryption().InitKeyClientComplete(kx2, kxt2); err != nil {
		e.Infra("kx: %v", err)
	}
	as.Encryption().InitCleanup()
	bs.Encryption().InitCleanup()
}

func sizeBiased(tp *core.Tape, lo, hi int, edges ...int) int {
	if tp.Chance(1, 3) && len(edges) > 0 {
		v := edges[tp.Intn(len(edges))] + tp.Intn(3) - 1
		if v >= lo && v <= hi {
			return v
		}
	}
	if tp.Chance(2, 3) {
		return lo + tp.Intn(min(hi-lo+1, 64))
	}
	return lo + tp.Intn(hi-lo+1)
}

// unsealAt runs the receiver path: pooled slice, parse, unseal under sess.
func unsealAt(b *frame.Builder, sess *state.Session, data []byte) (payload []byte, err error) {
	ps := b.GetPooledSlice(len(data) + peering.FrameOffset + peering.FrameOverhead)
	if ps == nil {
		return nil, fmt.Errorf("no pooled slice for %d bytes", len(data))
	}
	copy(ps[peering.FrameOffset:], data)
	f, perr := b.ParseFrame(ps[peering.FrameOffset:peering.FrameOffset+len(data)], ps, peering.FrameOffset)
	if perr != nil {
		b.ReturnPooledSlice(ps)
		return nil, fmt.Errorf("parse: %w", perr)
	}
	defer f.ReturnToPool()
	if uerr := f.Unseal(sess); uerr != nil {
		return nil, uerr
	}
	return append([]byte(nil), f.MessageData()...), nil
}

func run(e *core.Env) {
	tp := e.Tape
	e.StartClock()
	mk := func(name string, i int) *node.Node {
		id := ident.Get(ident.Routable, i)
		n, err := node.New(name, id, node.BaseStore(id), node.Options{})
		if err != nil {
			e.Infra("node: %v", err)
		}
		return n
	}
	perm := tp.Perm(8)
	A, B, C, D := mk("A", perm[0]), mk("B", perm[1]), mk("C", perm[2]), mk("D", perm[3])
	keyed(e, A, B)
	keyed(e, C, B) // another sender towards B
	keyed(e, A, D) // another receiver of A
	offM, ovM := tp.Intn(101), tp.Intn(101)
	if tp.Chance(1, 2) {
		offM, ovM = peering.FrameOffset, peering.FrameOverhead
	}
	A.Inst.Builder.SetFrameMargins(offM, ovM)
	sessAB := A.State.GetSession(B.IP)
	sessBA := B.State.GetSession(A.IP)
	sessBC := B.State.GetSession(C.IP)
	sessDA := D.State.GetSession(A.IP)

	// A burst of signed frames in A's past: a router that signs faster than one frame per
	// millisecond stamps each frame one millisecond after the previous one, so after a burst its
	// stamps run ahead of the clock - by seconds after a few thousand frames (an announcement
	// flood in a dense mesh). The burst is reproduced by taking that many stamps from the
	// session's own sequence; the frame under test must round-trip all the same.
	if tp.Chance(1, 8) {
		n := []int{300, 2100, 5000, 12000}[tp.Intn(4)]
		for i := 0; i < n; i++ {
			_ = sessAB.Signing().Seq().Next()
		}
		e.Probe("signing_stamps_ahead_of_the_clock_after_a_burst")
	}

	// The session may have a past: in a quarter of the runs A has already sent B regular
	// traffic with numbers that reach to shortly below the 32-bit wrap (no wrap happens, so
	// no key change is due). The frame under test must round-trip all the same.
	if tp.Chance(1, 4) {
		(&state.EncryptionSessionTestHelper{EncryptionSession: sessAB.Encryption()}).ReglSetOut(0xFFFF_FF00 - 20 + uint32(tp.Intn(150)))
		for i, k := 0, 1+tp.Intn(30); i < k; i++ {
			body := tp.Bytes(1 + tp.Intn(40))
			f, err := A.Inst.Builder.NewFrameV1(A.IP, B.IP, frame.NetworkTraffic, nil, body, nil)
			if err != nil {
				e.Infra("prelude frame: %v", err)
			}
			if err := f.Seal(sessAB); err != nil {
				e.Infra("prelude seal: %v", err)
			}
			d, _ := f.FrameDataWithMargins(0, 0)
			w := append([]byte(nil), d...)
			num := f.SequenceNum()
			f.ReturnToPool()
			got, err := unsealAt(B.Inst.Builder, sessBA, w)
			if err != nil || !bytes.Equal(got, body) {
				e.Fail("round-trip-fails/earlier-traffic-shortly-below-the-wrap", "regular frame number %d of earlier traffic A->B does not round-trip: %v", num, err)
			}
		}
		e.Probe("session_with_earlier_traffic_shortly_below_the_wrap")
	}
	// ... or it has been through one or two key roll-overs already (in-order traffic across the
	// 32-bit wrap, the counter moved forward by the harness in between).
	if tp.Chance(1, 5) {
		wraps := 1 + tp.Intn(2)
		for wrp := 0; wrp < wraps; wrp++ {
			(&state.EncryptionSessionTestHelper{EncryptionSession: sessAB.Encryption()}).ReglSetOut(0xFFFF_FFFF - uint32(2+tp.Intn(4)))
			for i := 0; i < 10; i++ {
				body := tp.Bytes(1 + tp.Intn(40))
				f, err := A.Inst.Builder.NewFrameV1(A.IP, B.IP, frame.NetworkTraffic, nil, body, nil)
				if err != nil {
					e.Infra("prelude frame: %v", err)
				}
				if err := f.Seal(sessAB); err != nil {
					e.Infra("prelude seal: %v", err)
				}
				d, _ := f.FrameDataWithMargins(0, 0)
				w := append([]byte(nil), d...)
				num := f.SequenceNum()
				f.ReturnToPool()
				got, err := unsealAt(B.Inst.Builder, sessBA, w)
				if err != nil || !bytes.Equal(got, body) {
					e.Fail("round-trip-fails/earlier-traffic-across-the-wrap", "regular frame number %d (roll-over %d of this session, frame %d) of earlier in-order traffic A->B does not round-trip: %v", num, wrp+1, i, err)
				}
			}
		}
		e.Probe("session_that_rolled_its_keys_before")
	}

	// ... or both routers have set up new keys on their live sessions after earlier traffic of
	// both encrypted classes (a hello request served on the live session re-keys it in place).
	if tp.Chance(1, 5) {
		for i, k := 0, 1+tp.Intn(120); i < k; i++ {
			pmt := frame.NetworkTraffic
			if tp.Chance(1, 3) {
				pmt = frame.RouterCtrl
			}
			body := tp.Bytes(1 + tp.Intn(40))
			f, err := A.Inst.Builder.NewFrameV1(A.IP, B.IP, pmt, nil, body, nil)
			if err != nil {
				e.Infra("prelude frame: %v", err)
			}
			if err := f.Seal(sessAB); err != nil {
				e.Infra("prelude seal: %v", err)
			}
			d, _ := f.FrameDataWithMargins(0, 0)
			w := append([]byte(nil), d...)
			f.ReturnToPool()
			if got, err := unsealAt(B.Inst.Builder, sessBA, w); err != nil || !bytes.Equal(got, body) {
				e.Fail("round-trip-fails/earlier-traffic", "frame %d of earlier traffic A->B does not round-trip: %v", i, err)
			}
		}
		// as the hello ping does it: the client side sets up a fresh encryption session and
		// installs it when the exchange is complete, the server side re-keys its live one
		enc := state.NewEncryptionSession()
		kx, kxt, err := enc.InitKeyClientStart()
		if err != nil {
			e.Infra("kx: %v", err)
		}
		kx2, kxt2, err := sessBA.Encryption().InitKeyServer(kx, kxt)
		if err != nil {
			e.Infra("kx: %v", err)
		}
		if err := enc.InitKeyClientComplete(kx2, kxt2); err != nil {
			e.Infra("kx: %v", err)
		}
		enc.InitCleanup()
		if err := A.State.SetEncryptionSession(B.IP, enc); err != nil {
			e.Infra("set session: %v", err)
		}
		e.Probe("session_re_keyed_after_earlier_traffic")
	}

	// ... or A has been receiving B's traffic: every sealed frame reports how much of the peer's
	// last 64 frames of its class arrived (the receive-rate byte, a protected header field).
	// After 64 frames without a gap that report is exactly 100 %, after losses something less;
	// a fresh session reports 0.
	if tp.Chance(1, 3) {
		lossy := tp.Chance(1, 3)
		for i, k := 0, []int{64, 65, 70 + tp.Intn(60), 1 + tp.Intn(63)}[tp.Intn(4)]; i < k; i++ {
			for _, pmt := range []frame.MessageType{frame.NetworkTraffic, frame.RouterCtrl} {
				body := tp.Bytes(1 + tp.Intn(40))
				f, err := B.Inst.Builder.NewFrameV1(B.IP, A.IP, pmt, nil, body, nil)
				if err != nil {
					e.Infra("prelude frame: %v", err)
				}
				if err := f.Seal(sessBA); err != nil {
					e.Infra("prelude seal: %v", err)
				}
				d, _ := f.FrameDataWithMargins(0, 0)
				w := append([]byte(nil), d...)
				f.ReturnToPool()
				if lossy && tp.Chance(1, 5) {
					continue
				}
				if got, err := unsealAt(A.Inst.Builder, sessAB, w); err != nil || !bytes.Equal(got, body) {
					e.Fail("round-trip-fails/earlier-traffic", "frame %d of earlier traffic B->A does not round-trip: %v", i, err)
				}
			}
		}
		e.Probe("sealer_has_been_receiving_the_peers_traffic")
	}

	mt := msgTypes[tp.Intn(len(msgTypes))]
	encrypted := mt.IsEncrypted()
	authSize := 64
	if encrypted {
		authSize = 16
	}
	sbLen := 0
	if tp.Chance(2, 3) {
		sbLen = sizeBiased(tp, 0, 255, 1, 127, 255)
	}
	msgLen := sizeBiased(tp, 1, 10000, 1, 16, 511, 1499, 5000, 9500, 10000)
	apxLen := 0
	if tp.Chance(1, 2) {
		apxLen = sizeBiased(tp, 0, 10000, 1, 65, 600, 10000)
	}
	if encrypted && msgLen < 16 && tp.Chance(1, 2) {
		msgLen = 16 + tp.Intn(64)
	}
	// Cost control: signed frames cost an Ed25519 verification per attempt.
	thorough := tier == "thorough"
	if !thorough {
		if !encrypted {
			msgLen = min(msgLen, 300)
			sbLen = min(sbLen, 40)
			apxLen = min(apxLen, 300)
		} else if msgLen > 2000 && tp.Chance(2, 3) {
			msgLen = 1 + tp.Intn(400)
		}
	}
	sb := tp.Bytes(sbLen)
	payload := tp.Bytes(msgLen)
	apx := tp.Bytes(apxLen)
	var sbArg, apxArg []byte
	if sbLen > 0 {
		sbArg = sb
	}
	if apxLen > 0 {
		apxArg = apx
	}

	seal := func() []byte {
		if !encrypted {
			time.Sleep(time.Duration(1+tp.Intn(3)) * time.Millisecond)
		}
		f, err := A.Inst.Builder.NewFrameV1(A.IP, B.IP, mt, sbArg, payload, apxArg)
		if err != nil {
			e.Infra("NewFrameV1(type=%d sb=%d msg=%d apx=%d margins=%d/%d): %v", mt, sbLen, msgLen, apxLen, offM, ovM, err)
		}
		if err := f.Seal(sessAB); err != nil {
			e.Infra("seal: %v", err)
		}
		d, err := f.FrameDataWithMargins(0, 0)
		if err != nil {
			e.Infra("data: %v", err)
		}
		out := append([]byte(nil), d...)
		f.ReturnToPool()
		return out
	}
	wire := seal()
	total := 48 + 1 + sbLen + 2 + msgLen + authSize + apxLen
	if len(wire) != total {
		e.Fail("serialized-length-unexpected", "type=%d sb=%d msg=%d apx=%d: %d bytes on the wire, layout says %d", mt, sbLen, msgLen, apxLen, len(wire), total)
	}
	apxStart := total - apxLen
	mutable := func(i int) bool { return i == 1 || i == 2 || i >= apxStart }
	desc := fmt.Sprintf("type=%d(%s) sb=%d msg=%d apx=%d margins=%d/%d", mt, mt, sbLen, msgLen, apxLen, offM, ovM)
	e.Sample("frame %s, %d bytes on the wire", desc, total)
	e.Logf("frame %s", desc)

	if encrypted && msgLen >= 16 && bytes.Contains(wire, payload[:16]) {
		e.Fail("payload-in-clear", "%s: the first 16 payload bytes appear on the wire", desc)
	}

	// ---- wrong sessions (before the good delivery consumes the number) ----
	if _, err := unsealAt(B.Inst.Builder, sessBC, wire); err == nil {
		e.Fail("unseals-under-other-senders-session", "%s: frame of A unsealed at B under B's session with C", desc)
	}
	e.Case(0x02, uint64(mt), 0xff01)
	if encrypted {
		if _, err := unsealAt(D.Inst.Builder, sessDA, wire); err == nil {
			e.Fail("unseals-at-other-receiver", "%s: encrypted frame for B unsealed at D", desc)
		}
		e.Case(0x02, uint64(mt), 0xff02)
	}

	// ---- protected positions: every bit (or header/auth + sampled payload) ----
	var positions []int
	full := total <= 2048 || thorough && total <= 6000
	budget := 6000
	if encrypted {
		budget = 60000
	}
	if thorough {
		budget *= 3
	}
	for i := 0; i < total; i++ {
		if mutable(i) {
			continue
		}
		inMsg := i >= 48+1+sbLen+2 && i < 48+1+sbLen+2+msgLen
		inSB := i >= 49 && i < 49+sbLen
		if full || (!inMsg && !inSB) {
			positions = append(positions, i)
		}
	}
	if !full {
		for k := 0; k < 300; k++ {
			positions = append(positions, 48+1+sbLen+2+tp.Intn(msgLen))
			if sbLen > 0 {
				positions = append(positions, 49+tp.Intn(sbLen))
			}
		}
		e.Probe("large_frame_sampled_positions")
	} else {
		e.Probe("frame_all_positions")
	}
	bitsPer := 8
	if len(positions)*8 > budget {
		bitsPer = max(1, budget/len(positions))
	}
	attempts := 0
	for _, i := range positions {
		for k := 0; k < bitsPer; k++ {
			bit := k
			if bitsPer < 8 {
				bit = tp.Intn(8)
			}
			mut := append([]byte(nil), wire...)
			mut[i] ^= 1 << bit
			var err error
			var got []byte
			if e.Guard("panic-on-corrupted-frame", func() { got, err = unsealAt(B.Inst.Builder, sessBA, mut) }) {
				e.Fail("", "")
			}
			attempts++
			if err == nil {
				field := fieldName(i, sbLen, msgLen, authSize)
				e.Fail("protected-byte-change-accepted/"+field,
					"%s: flipping bit %d of byte %d (%s) still unseals (payload equal: %v)", desc, bit, i, field, bytes.Equal(got, payload))
			}
		}
	}
	e.Fault("corrupt_bit")
	e.ProbeN("corrupt_bit_attempts", attempts)
	e.Case(0x02, uint64(mt), uint64(sbLen), uint64(msgLen), uint64(apxLen), uint64(attempts))
	e.AddEvals(attempts)
	// truncation and extension inside the protected part
	for _, cut := range []int{1, authSize, authSize + 1, total - 49} {
		if apxLen == 0 && cut < total {
			mut := wire[:total-cut]
			if _, err := unsealAt(B.Inst.Builder, sessBA, append([]byte(nil), mut...)); err == nil {
				e.Fail("truncated-frame-accepted", "%s: frame cut by %d bytes still unseals", desc, cut)
			}
			e.Fault("truncate")
		}
	}

	// ---- the pristine frame still unseals: failures left the receiver untouched ----
	got, err := unsealAt(B.Inst.Builder, sessBA, wire)
	if err != nil {
		e.Fail("pristine-frame-refused-after-rejected-variants", "%s: %v", desc, err)
	}
	if !bytes.Equal(got, payload) {
		e.Fail("round-trip-payload-differs", "%s: payload differs after unseal", desc)
	}
	e.Probe("round_trip_ok")

	// ---- the same variants once more, now that the receiver has accepted the genuine frame ----
	// Whatever the receiver remembers about a frame it accepted (a verified signature, a cipher,
	// a window position) must not vouch for a changed copy of it: bytes 4..15 (nonce, sequence
	// number or signing time) in every bit, the other protected positions sampled.
	{
		post := 0
		postBudget := 2500
		if thorough {
			postBudget = 8000
		}
		per := max(1, postBudget/max(1, len(positions)))
		for _, i := range positions {
			n := min(per, 8)
			if i >= 4 && i < 16 {
				n = 8
			}
			for k := 0; k < n; k++ {
				bit := k
				if n < 8 {
					bit = tp.Intn(8)
				}
				mut := append([]byte(nil), wire...)
				mut[i] ^= 1 << bit
				var err error
				var got []byte
				if e.Guard("panic-on-corrupted-frame", func() { got, err = unsealAt(B.Inst.Builder, sessBA, mut) }) {
					e.Fail("", "")
				}
				post++
				if err == nil {
					field := fieldName(i, sbLen, msgLen, authSize)
					e.Fail("protected-byte-change-accepted-after-the-genuine-frame/"+field,
						"%s: the genuine frame was accepted; a copy with bit %d of byte %d (%s) flipped then unseals as well (payload equal: %v)", desc, bit, i, field, bytes.Equal(got, payload))
				}
			}
		}
		// a changed payload under the genuine authentication bytes, stamped later than the genuine frame
		if !encrypted && msgLen > 0 {
			mut := append([]byte(nil), wire...)
			mut[48+1+sbLen+2+tp.Intn(msgLen)] ^= byte(1 + tp.Intn(255))
			for b := 15; b >= 8; b-- { // count the signing time up by one
				mut[b]++
				if mut[b] != 0 {
					break
				}
			}
			if got, err := unsealAt(B.Inst.Builder, sessBA, mut); err == nil {
				e.Fail("protected-byte-change-accepted-after-the-genuine-frame/payload+time",
					"%s: the genuine frame was accepted; a copy with another payload byte and a later signing time unseals as well (payload equal: %v)", desc, bytes.Equal(got, payload))
			}
			post++
		}
		e.ProbeN("variants_presented_after_the_genuine_frame", post)
		e.AddEvals(post)
	}

	// ---- hop-mutable changes never invalidate (fresh frame each) ----
	nMut := 6
	for k := 0; k < nMut; k++ {
		w2 := seal()
		mut := append([]byte(nil), w2...)
		what := ""
		switch tp.Intn(5) {
		case 0:
			mut[1] = byte(tp.Intn(256))
			what = fmt.Sprintf("ttl=%d", mut[1])
		case 1:
			mut[2] = byte(tp.Intn(256))
			what = fmt.Sprintf("flow=%d", mut[2])
		case 2:
			mut[1], mut[2] = byte(tp.Intn(256)), byte(tp.Intn(256))
			if apxLen > 0 {
				copy(mut[apxStart:], tp.Bytes(apxLen))
			}
			what = "ttl+flow+appendix-bytes"
		case 3:
			if apxLen > 0 {
				mut = mut[:apxStart+tp.Intn(apxLen)]
			}
			what = "appendix-shortened"
		default:
			extra := 1 + tp.Intn(300)
			if len(mut)+extra+peering.FrameOffset+peering.FrameOverhead <= 65000 {
				mut = append(mut, tp.Bytes(extra)...)
			}
			what = "appendix-extended"
		}
		// Half of the time the appendix is not changed on the wire but the way a
		// relay does it: parse, SetAppendixData (possibly growing the buffer), re-serialise.
		if tp.Chance(1, 2) {
			rb := C.Inst.Builder
			ps := rb.GetPooledSlice(len(w2) + peering.FrameOffset + peering.FrameOverhead)
			copy(ps[peering.FrameOffset:], w2)
			if rf, perr := rb.ParseFrame(ps[peering.FrameOffset:peering.FrameOffset+len(w2)], ps, peering.FrameOffset); perr == nil {
				na := tp.Bytes([]int{0, 1, 100, 700, 2000, 10000}[tp.Intn(6)])
				if tp.Chance(1, 3) {
					rf = rf.Clone()
				}
				if aerr := rf.SetAppendixData(na); aerr == nil {
					rf.ReduceTTL(1)
					if d, derr := rf.FrameDataWithMargins(0, 0); derr == nil {
						mut = append([]byte(nil), d...)
						what = fmt.Sprintf("appendix set to %d bytes by a relay", len(na))
					}
				}
				rf.ReturnToPool()
			}
		}
		var got []byte
		var err error
		if e.Guard("panic-on-hop-mutated-frame", func() { got, err = unsealAt(B.Inst.Builder, sessBA, mut) }) {
			e.Fail("", "")
		}
		if err != nil {
			e.Fail("hop-mutable-change-rejected/"+what[:min(len(what), 8)], "%s: changing %s invalidates the frame: %v", desc, what, err)
		}
		if !bytes.Equal(got, payload) {
			e.Fail("round-trip-payload-differs", "%s: payload differs after %s", desc, what)
		}
		e.Fault("hop_mutation")
		e.Case(0x02, uint64(mt), uint64(k), 0xee, uint64(len(mut)))
	}
}

func fieldName(i, sbLen, msgLen, authSize int) string {
	switch {
	case i == 0:
		return "version"
	case i == 3:
		return "recv-rate"
	case i == 4:
		return "message-type"
	case i < 8:
		return "nonce"
	case i < 16:
		return "sequence"
	case i < 32:
		return "source-address"
	case i < 48:
		return "destination-address"
	case i == 48:
		return "switch-block-length"
	case i < 49+sbLen:
		return "switch-block"
	case i < 49+sbLen+2:
		return "message-length"
	case i < 49+sbLen+2+msgLen:
		return "payload"
	case i < 49+sbLen+2+msgLen+authSize:
		return "auth"
	}
	return "appendix"
}

var tier = "quick"

func TestCheck(t *testing.T) {
	tier = core.Tier()
	core.Main(t, &core.Check{
		ID:             "C02",
		QuickRuns:      480,
		ThoroughRuns:   8000,
		MinimiseBudget: 40,
		Run:            run,
	})
}
