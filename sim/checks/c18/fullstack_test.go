package c18

// Full-stack lives (wave 14): the sentence "the next start finds either the complete previous
// state or the complete new state and the router starts" with the router itself. 2..3 real
// top-level instances (mycoria.New, tun disabled) keep their state in JSON files on the simulated
// disk and peer over the simulated loopback interface (shipped TCP protocol, handshake, links,
// announcements): what they store about each other is what a running router stores. One of them
// is then shut down by the shipped Instance.Stop() and killed at a seeded journal operation and
// byte offset of the state-file write; the process is gone (the instance object is dropped),
// only the disk survives. The next start of that router - New from the same configuration - must
// succeed, must hold exactly what was on the disk before that life or exactly what the router
// held in memory when it was stopped, and the router must peer again.

import (
	"fmt"
	"time"

	"github.com/mycoria/mycoria/storage"

	"mycoverif/core"
	"mycoverif/fullmesh"
	"mycoverif/simos"
)

// stopInst runs the shipped Instance.Stop() and reports whether the armed crash fired.
func stopInst(x *fullmesh.Inst) (crashed, ok bool) {
	defer func() {
		if r := recover(); r != nil {
			if _, is := r.(simos.Crashed); is {
				crashed = true
				x.Up = false
				return
			}
			panic(r)
		}
	}()
	ok = x.In.Stop()
	x.Up = false
	return false, ok
}

func runFullStack(e *core.Env) {
	tp := e.Tape
	e.StartClock()
	e.Probe("fullstack_run")
	disk := simos.Reset()
	ms := fullmesh.Build(e, fullmesh.Options{MinNodes: 2, MaxNodes: 3, IdentBase: 40, StateDir: "/var/lib/mycoria"})
	n := len(ms.Insts)
	statePath := func(i int) string { return ms.Insts[i].Store.System.StatePath }

	// ---- life A: peer, learn about each other, shut down cleanly ----
	up := ms.WaitLinked(14)
	if up && tp.Chance(2, 3) {
		// one announcement round: public router info of every router is stored everywhere
		ms.CN.RunFor(tp, 5*time.Minute+10*time.Second, 400000)
		ms.CN.DrainFIFO(tp, 20000)
		e.Probe("fullstack_announcement_round_before_first_shutdown")
	}
	if !up {
		e.Probe("fullstack_mesh_did_not_come_up") // whether honest routers peer is C20's claim
	}
	memA := make([]*snapshot, n)
	for _, i := range tp.Perm(n) {
		x := ms.Insts[i]
		crashed, ok := stopInst(x)
		if crashed || !ok {
			e.Fail("save-fails", "full-stack: clean Stop() of %s failed (crashed=%v ok=%v)", x.Name, crashed, ok)
		}
		memA[i] = snap(x.In.Storage())
		ms.CN.RunFor(tp, time.Duration(tp.Intn(3000))*time.Millisecond, 20000)
	}
	ms.CN.CloseAll()
	for i := 0; i < n; i++ {
		if _, ok := disk.Content(statePath(i)); !ok {
			e.Fail("state-file-missing-after-clean-shutdown", "full-stack: %s was stopped cleanly, there is no state file %s; files: %v", ms.Insts[i].Name, statePath(i), disk.Files())
		}
	}
	learned := 0
	for i := range memA {
		learned += len(memA[i].routers)
	}
	if learned > 0 {
		e.Probe("fullstack_state_with_routers_written")
	}

	// ---- life B: every router starts from its file ----
	time.Sleep(time.Duration(1+tp.Intn(100000)) * time.Second)
	for i := 0; i < n; i++ {
		if err := ms.Construct(i); err != nil {
			e.Fail("start-refused-after-clean-shutdown", "full-stack: %s does not start from the state file it wrote at a clean shutdown: %v", ms.Insts[i].Name, err)
		}
		if d := memA[i].diff(snap(ms.Insts[i].In.Storage())); d != "" {
			e.Fail("roundtrip-lossy", "full-stack: %s stopped cleanly and started again holds another state: %s", ms.Insts[i].Name, d)
		}
	}
	for _, i := range tp.Perm(n) {
		if err := ms.Insts[i].In.Start(); err != nil {
			e.Infra("fullstack: Start: %v", err)
		}
		ms.Insts[i].Up = true
		ms.CN.RunFor(tp, time.Duration(tp.Intn(1500))*time.Millisecond, 5000)
	}
	if ms.WaitLinked(14) {
		e.Probe("fullstack_peered_again_after_restart")
		switch tp.Intn(3) {
		case 0:
			ms.CN.RunFor(tp, 5*time.Minute+10*time.Second, 400000)
		case 1:
			ms.CN.RunFor(tp, time.Duration(1+tp.Intn(90))*time.Second, 100000)
		}
	}

	// ---- the victim is shut down and killed while it writes its state ----
	v := tp.Intn(n)
	x := ms.Insts[v]
	base := len(disk.Journal)
	op := base + []int{0, 1, 1, 1, 2, 3, 4, 5}[tp.Intn(8)]
	off := []int{0, 1, tp.Intn(64), tp.Intn(1024), tp.Intn(1024), tp.Intn(4096), tp.Intn(1 << 16), 1 << 20}[tp.Intn(8)]
	disk.ArmCrash(op, off)
	crashed, ok := stopInst(x)
	disk.Disarm()
	memB := snap(x.In.Storage())
	var kinds []string
	for _, o := range disk.Journal[base:] {
		kinds = append(kinds, fmt.Sprintf("%s(%d)", o.Kind, o.Len))
	}
	e.Logf("victim %s: crash armed at op %d (+%d) off %d: crashed=%v ok=%v journal %v", x.Name, op, op-base, off, crashed, ok, kinds)
	if crashed {
		e.Fault("disk_crash")
		k := disk.Journal[len(disk.Journal)-1]
		if k.Kind == "write" && off > 0 && off < k.Len {
			e.Probe("fullstack_crash_inside_write")
		} else {
			e.Probe("fullstack_crash_at_" + k.Kind + "_boundary")
		}
	} else {
		e.Probe("fullstack_shutdown_completed_before_the_crash_point")
		if !ok {
			e.Fail("save-fails", "full-stack: Stop() of %s without a crash reported failure", x.Name)
		}
	}
	e.Case(0x18f, uint64(n), uint64(op-base), uint64(off), uint64(len(memA[v].routers)), uint64(len(memB.routers)))
	// the others go on for a while without it
	ms.CN.RunFor(tp, time.Duration(1+tp.Intn(20))*time.Second, 100000)

	// ---- life C: the victim starts from whatever the disk holds ----
	var cerr error
	if e.Guard("panic-on-restart", func() { cerr = ms.Construct(v) }) {
		e.Fail("", "")
	}
	if cerr != nil {
		e.Fail("start-refused-after-crash/full-stack", "full-stack: %s was killed while it wrote its state (journal op +%d, offset %d; journal %v); the next start fails: %v; files on disk: %v",
			x.Name, op-base, off, kinds, cerr, disk.Files())
	}
	got := snap(x.In.Storage())
	dOld, dNew := memA[v].diff(got), memB.diff(got)
	switch {
	case !crashed:
		if dNew != "" {
			e.Fail("roundtrip-lossy", "full-stack: %s stopped cleanly and started again holds another state: %s", x.Name, dNew)
		}
	case dNew == "":
		e.Probe("fullstack_restart_found_new_state")
	case dOld == "":
		e.Probe("fullstack_restart_found_old_state")
	default:
		e.Fail("neither-old-nor-new-after-crash/full-stack", "full-stack: %s killed at journal op +%d offset %d (journal %v): the state it starts with is neither the previous one (%s) nor the one it held when it was stopped (%s)",
			x.Name, op-base, off, kinds, dOld, dNew)
	}
	if err := x.In.Start(); err != nil {
		e.Fail("start-refused-after-crash/full-stack", "full-stack: %s constructed after a crash does not start: %v", x.Name, err)
	}
	x.Up = true
	if ms.WaitLinked(14) {
		e.Probe("fullstack_peered_again_after_crash")
	}
	ms.CheckPanics("full-stack lives")

	// ---- everything shuts down cleanly; what was written is what is read ----
	for _, i := range tp.Perm(n) {
		y := ms.Insts[i]
		if !y.Up {
			continue
		}
		crashed, ok := stopInst(y)
		if crashed || !ok {
			e.Fail("save-fails", "full-stack: clean Stop() of %s after an earlier crash failed (ok=%v)", y.Name, ok)
		}
		want := snap(y.In.Storage())
		var re *storage.JSONFileStorage
		var rerr error
		re, rerr = storage.NewJSONFileStorage(statePath(i))
		if rerr != nil {
			e.Fail("start-refused-after-crash-then-clean-shutdown", "full-stack: %s stopped cleanly (after an earlier crash of %s): its state file does not load: %v; files %v", y.Name, x.Name, rerr, disk.Files())
		}
		if d := want.diff(snap(re)); d != "" {
			e.Fail("roundtrip-lossy-after-earlier-crash", "full-stack: state of %s saved at the end reloads differently: %s", y.Name, d)
		}
	}
	ms.CN.CloseAll()
	e.Ev("fullstack", uint64(n), uint64(len(memA[v].routers)), uint64(len(memB.routers)))
	e.Sample("full-stack lives: %d routers (%s), victim %s held %d routers on disk and %d in memory; killed at journal op +%d offset %d (%v); crashed=%v",
		n, ms.Kind, x.Name, len(memA[v].routers), len(memB.routers), op-base, off, kinds, crashed)
}
