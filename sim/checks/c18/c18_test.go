// C18 Stored router and mapping state survives crashes and round-trips exactly.
//
// Simulated system: the real storage.JSONFileStorage compiled against the
// simulated disk (simos, via an import-path overlay). For a sampled pair of
// states (S0 on disk, S1 in memory) the process is "killed" at every journal
// boundary and at every byte offset of every write of the real Stop(), then the
// real NewJSONFileStorage is run on the surviving image.
package c18

import (
	"bytes"
	"fmt"
	"net/netip"
	"os"
	"sort"
	"strings"
	"testing"
	"time"

	"github.com/mycoria/mycoria/m"
	"github.com/mycoria/mycoria/storage"

	"mycoverif/core"
	"mycoverif/ident"
	"mycoverif/simos"
)

const statePath = "/var/lib/mycoria/state.json"

type snapshot struct {
	routers  map[netip.Addr]storage.StoredRouter
	mappings map[string]storage.StoredMapping
}

func strSliceEq(a, b []string) bool {
	if len(a) != len(b) {
		return false
	}
	for i := range a {
		if a[i] != b[i] {
			return false
		}
	}
	return true
}

func infoEq(a, b *m.RouterInfo) string {
	if (a == nil) != (b == nil) {
		return "publicInfo presence"
	}
	if a == nil {
		return ""
	}
	if a.Version != b.Version {
		return "publicInfo.version"
	}
	if !strSliceEq(a.Listeners, b.Listeners) {
		return "publicInfo.listeners"
	}
	if !strSliceEq(a.IANA, b.IANA) {
		return "publicInfo.iana"
	}
	if len(a.PublicServices) != len(b.PublicServices) {
		return "publicInfo.services"
	}
	for i := range a.PublicServices {
		if a.PublicServices[i] != b.PublicServices[i] {
			return "publicInfo.services"
		}
	}
	return ""
}

func routerDiff(a, b *storage.StoredRouter) string {
	switch {
	case (a.Address == nil) != (b.Address == nil):
		return "address presence"
	case a.Address != nil && a.Address.IP != b.Address.IP:
		return "address.ip"
	case a.Address != nil && a.Address.Hash != b.Address.Hash:
		return "address.hash"
	case a.Address != nil && a.Address.Type != b.Address.Type:
		return "address.type"
	case a.Address != nil && !bytes.Equal(a.Address.PublicKey, b.Address.PublicKey):
		return "address.key"
	case a.Address != nil && a.Address.Easing != b.Address.Easing:
		return "address.easing"
	case a.Universe != b.Universe:
		return "universe"
	case a.Offline != b.Offline:
		return "offline"
	case !a.CreatedAt.Equal(b.CreatedAt):
		return "createdAt"
	case !a.UpdatedAt.Equal(b.UpdatedAt):
		return "updatedAt"
	case (a.UsedAt == nil) != (b.UsedAt == nil):
		return "usedAt presence"
	case a.UsedAt != nil && !a.UsedAt.Equal(*b.UsedAt):
		return "usedAt"
	}
	return infoEq(a.PublicInfo, b.PublicInfo)
}

func (s *snapshot) diff(o *snapshot) string {
	if len(s.routers) != len(o.routers) {
		return fmt.Sprintf("router count %d vs %d", len(s.routers), len(o.routers))
	}
	for ip, r := range s.routers {
		or, ok := o.routers[ip]
		if !ok {
			return fmt.Sprintf("router %s missing", ip)
		}
		if d := routerDiff(&r, &or); d != "" {
			return fmt.Sprintf("router %s field %s", ip, d)
		}
	}
	if len(s.mappings) != len(o.mappings) {
		return fmt.Sprintf("mapping count %d vs %d", len(s.mappings), len(o.mappings))
	}
	for d, mp := range s.mappings {
		om, ok := o.mappings[d]
		if !ok {
			return fmt.Sprintf("mapping %q missing", d)
		}
		if mp.Domain != om.Domain || mp.Router != om.Router || !mp.Created.Equal(om.Created) {
			return fmt.Sprintf("mapping %q differs", d)
		}
	}
	return ""
}

// snap reads the whole content through the public storage API without
// touching "last used" stamps.
func snap(s storage.Storage) *snapshot {
	out := &snapshot{routers: map[netip.Addr]storage.StoredRouter{}, mappings: map[string]storage.StoredMapping{}}
	q := storage.NewRouterQuery(nil, nil, 1<<20)
	_ = s.QueryRouters(q)
	for _, r := range q.Result() {
		cp := *r
		if r.Address != nil {
			a := *r.Address
			a.PublicKey = append([]byte(nil), a.PublicKey...)
			cp.Address = &a
		}
		if r.PublicInfo != nil {
			pi := *r.PublicInfo
			pi.Listeners = append([]string(nil), pi.Listeners...)
			pi.IANA = append([]string(nil), pi.IANA...)
			pi.PublicServices = append([]m.RouterService(nil), pi.PublicServices...)
			cp.PublicInfo = &pi
		}
		if r.UsedAt != nil {
			u := *r.UsedAt
			cp.UsedAt = &u
		}
		if cp.Address != nil {
			out.routers[cp.Address.IP] = cp
		}
	}
	ms, _ := s.QueryMappings("")
	for _, mp := range ms {
		out.mappings[mp.Domain] = mp
	}
	return out
}

var alphabet = []string{"a", "z", "A", "Z", "Ä", "\u0130", "\u1e9e", "0", "-", ".", "_", " ", "\"", "\\", "/", "<", ">", "&", "\n", "\t", "ä", "ß", "世", "界", "\U0001F344", " ", "\u0000", "\u007f", "%", "{", "}", "[", ","}

func genString(tp *core.Tape) string {
	switch tp.Intn(6) {
	case 0:
		return ""
	case 1:
		n := 200 + tp.Intn(5000)
		if veryLong {
			n = 8000 + tp.Intn(40000)
		}
		return strings.Repeat(alphabet[tp.Intn(len(alphabet))], n)
	default:
		var b strings.Builder
		for i, n := 0, 1+tp.Intn(24); i < n; i++ {
			b.WriteString(alphabet[tp.Intn(len(alphabet))])
		}
		return b.String()
	}
}

// veryLong makes the long strings of genString tens of thousands of characters long (states of
// several megabytes).
var veryLong bool

func genStrings(tp *core.Tape) []string {
	n := tp.Intn(4)
	if n == 0 {
		return nil
	}
	out := make([]string, n)
	for i := range out {
		out[i] = genString(tp)
	}
	return out
}

func genAddr(tp *core.Tape) netip.Addr {
	var b [16]byte
	copy(b[:], tp.Bytes(16))
	b[0] = 0xfd
	b[1] &= 0x7f
	return netip.AddrFrom16(b)
}

func genRouter(tp *core.Tape, ip netip.Addr) *storage.StoredRouter {
	r := &storage.StoredRouter{
		Address: &m.PublicAddress{IP: ip, Hash: m.AddressDigestAlg, Type: m.AddressKeyToolID, PublicKey: tp.Bytes(32)},
	}
	if tp.Chance(1, 8) {
		id := ident.Get(ident.Routable, tp.Intn(4))
		pa := id.PublicAddress
		r.Address = &pa
	}
	if tp.Chance(1, 4) {
		r.Address.Easing = uint64(tp.Intn(1 << 20))
	}
	if tp.Chance(1, 2) {
		r.PublicInfo = &m.RouterInfo{Version: genString(tp), Listeners: genStrings(tp), IANA: genStrings(tp)}
		for i, n := 0, tp.Intn(3); i < n; i++ {
			r.PublicInfo.PublicServices = append(r.PublicInfo.PublicServices, m.RouterService{
				Name: genString(tp), Description: genString(tp), Domain: genString(tp), URL: genString(tp)})
		}
	}
	if tp.Chance(1, 2) {
		r.Universe = genString(tp)
	}
	r.Offline = tp.Chance(1, 3)
	if tp.Chance(3, 4) {
		r.CreatedAt = time.Now().Add(-time.Duration(tp.Intn(1<<30)) * time.Microsecond)
	}
	if tp.Chance(1, 2) {
		u := time.Now().Add(-time.Duration(tp.Intn(1 << 30)))
		if tp.Chance(1, 4) {
			// a stamp ahead of the clock of the next start (the state file was written under a
			// clock that ran ahead, or was copied from another machine)
			u = time.Now().Add(time.Duration(1+tp.Intn(1<<30)) * time.Millisecond)
		}
		switch tp.Intn(24) {
		case 0:
			// present, but the zero time: "stamped, value zero" is not "never used"
			u = time.Time{}
		case 1:
			u = time.Unix(0, 0).UTC()
		case 2:
			u = time.Unix(int64(tp.Intn(1<<31)), int64(tp.Intn(1_000_000_000))).UTC() // nanoseconds
		}
		r.UsedAt = &u
	}
	if tp.Chance(1, 16) {
		r.CreatedAt = []time.Time{time.Unix(0, 0).UTC(), time.Unix(int64(tp.Intn(1<<31)), int64(tp.Intn(1_000_000_000))).UTC(), time.Date(9999, 12, 31, 23, 59, 59, 0, time.UTC)}[tp.Intn(3)]
	}
	return r
}

type mutation func(s storage.Storage)

// lookupsOnly makes genMutations produce nothing but look-ups (and pauses): a session in which
// the router only reads its state - what it stamps while doing so is state too.
var lookupsOnly bool

func genMutations(tp *core.Tape, n int, pool *[]netip.Addr, domains *[]string, e *core.Env) []mutation {
	var muts []mutation
	for i := 0; i < n; i++ {
		pick := tp.Pick(5, 2, 3, 1, 1, 2)
		if lookupsOnly {
			pick = 5
		}
		switch pick {
		case 5: // look a router up: the storage stamps the record as used now
			if len(*pool) == 0 {
				continue
			}
			ip := (*pool)[tp.Intn(len(*pool))]
			muts = append(muts, func(s storage.Storage) { _, _ = s.GetRouter(ip) })
			e.Probe("router_looked_up_between_load_and_shutdown")
		case 0: // save new router
			ip := genAddr(tp)
			*pool = append(*pool, ip)
			r := genRouter(tp, ip)
			muts = append(muts, func(s storage.Storage) { cp := *r; _ = s.SaveRouter(&cp) })
		case 1: // update existing router
			if len(*pool) == 0 {
				continue
			}
			ip := (*pool)[tp.Intn(len(*pool))]
			r := genRouter(tp, ip)
			muts = append(muts, func(s storage.Storage) { cp := *r; _ = s.SaveRouter(&cp) })
		case 2: // save mapping
			d := genString(tp) + ".myco"
			if len(*domains) > 0 && tp.Chance(1, 5) {
				// a second mapping whose name differs from an earlier one only in case: the
				// storage keeps names as given, these are two entries
				prev := (*domains)[tp.Intn(len(*domains))]
				if up := strings.ToUpper(prev); up != prev {
					d = up
				} else if lo := strings.ToLower(prev); lo != prev {
					d = lo
				}
			}
			*domains = append(*domains, d)
			ip := genAddr(tp)
			muts = append(muts, func(s storage.Storage) { _ = s.SaveMapping(d, ip) })
		case 3: // delete router
			if len(*pool) == 0 {
				continue
			}
			ip := (*pool)[tp.Intn(len(*pool))]
			muts = append(muts, func(s storage.Storage) { _ = s.DeleteRouter(ip) })
		case 4: // delete mapping
			if len(*domains) == 0 {
				continue
			}
			d := (*domains)[tp.Intn(len(*domains))]
			muts = append(muts, func(s storage.Storage) { _ = s.DeleteMapping(d) })
		}
		if tp.Chance(1, 3) {
			d := time.Duration(1+tp.Intn(1<<20)) * time.Microsecond
			muts = append(muts, func(storage.Storage) { time.Sleep(d) })
		}
	}
	return muts
}

// stop runs the real Stop() and reports whether the armed crash fired.
func stop(s *storage.JSONFileStorage) (crashed bool, err error) {
	defer func() {
		if r := recover(); r != nil {
			if _, ok := r.(simos.Crashed); ok {
				crashed = true
				return
			}
			panic(r)
		}
	}()
	return false, s.Stop()
}

func run(e *core.Env) {
	tp := e.Tape
	if tp.Chance(1, 6) {
		runFullStack(e)
		return
	}
	e.StartClock()
	thorough := e.T != nil && strings.Contains(testingTier(), "thorough")

	disk := simos.Reset()
	_ = disk

	// ---- S0: build, save completely, restart ----
	s0, err := storage.NewJSONFileStorage(statePath)
	if err != nil {
		e.Fail("empty-start-fails", "start on an empty disk failed: %v", err)
	}
	// What the very first start leaves on the disk and in memory: in a quarter of the runs the
	// crashes hit the first save ever (no state file to replace yet).
	firstImage := simos.Current().Clone()
	firstSnap := snap(s0)
	firstSave := tp.Chance(1, 4)
	var pool []netip.Addr
	var domains []string
	sizeClass := tp.Pick(4, 3, 2, 1)
	n0 := []int{0, 1 + tp.Intn(4), 5 + tp.Intn(26), 40 + tp.Intn(161)}[sizeClass]
	if tp.Chance(1, 10) {
		n0 = 0
	}
	// One run in sixteen: well over a hundred routers whose long values are tens of thousands of
	// characters - a state file of several megabytes. Nothing in the statement bounds the size
	// of a state; whatever the router wrote it has to read again.
	huge := tp.Chance(1, 16)
	if huge {
		sizeClass, n0, veryLong = 3, 400+tp.Intn(120), true
		defer func() { veryLong = false }()
	}
	for _, mu := range genMutations(tp, n0, &pool, &domains, e) {
		mu(s0)
	}
	mem0 := snap(s0)
	if _, err := stop(s0); err != nil {
		e.Fail("save-fails", "Stop() without faults failed: %v", err)
	}
	image0 := simos.Current().Clone()

	s1, err := storage.NewJSONFileStorage(statePath)
	if err != nil {
		e.Fail("roundtrip-reload-fails", "reload of a completely written state failed: %v", err)
	}
	loaded0 := snap(s1)
	if d := mem0.diff(loaded0); d != "" {
		e.Fail("roundtrip-lossy", "saved and reloaded state differ: %s", d)
	}
	e.Case(0x18, uint64(len(mem0.routers)), uint64(len(mem0.mappings)), 0xffff)

	if firstSave {
		image0, loaded0 = firstImage, firstSnap
		e.Probe("first_save_ever")
	}

	// ---- S1: mutate in memory ----
	n1 := 1 + tp.Intn(6)
	if sizeClass == 3 {
		n1 = 1 + tp.Intn(40)
	}
	lookupsOnly = len(pool) > 0 && tp.Chance(1, 5)
	if lookupsOnly {
		time.Sleep(time.Duration(1+tp.Intn(1<<22)) * time.Millisecond)
		e.Probe("session_with_look_ups_only")
	}
	muts1 := genMutations(tp, n1, &pool, &domains, e)
	lookupsOnly = false
	imageSaved := simos.Current().Clone()
	for _, mu := range muts1 {
		mu(s1)
	}
	mem1 := snap(s1)

	// ---- dry run of Stop() to learn the journal ----
	simos.Use(image0.Clone())
	if crashed, err := stop(s1); crashed || err != nil {
		e.Fail("save-fails", "Stop() without faults failed: crashed=%v err=%v", crashed, err)
	}
	journal := append([]simos.Op(nil), simos.Current().Journal...)
	// Round trip of S1, too.
	sChk, err := storage.NewJSONFileStorage(statePath)
	if err != nil {
		e.Fail("roundtrip-reload-fails", "reload of a completely written state failed: %v", err)
	}
	if d := mem1.diff(snap(sChk)); d != "" {
		e.Fail("roundtrip-lossy", "saved and reloaded state differ: %s", d)
	}
	e.Probe("restart_found_new_state") // the no-crash restart after the last operation
	e.Case(0x18, uint64(len(mem1.routers)), uint64(len(mem1.mappings)), 0xfffe)
	var kinds []string
	for _, op := range journal {
		kinds = append(kinds, fmt.Sprintf("%s(%d)", op.Kind, op.Len))
	}
	e.Sample("S0: %d routers %d mappings; S1: %d routers %d mappings; Stop() journal: %s",
		len(mem0.routers), len(mem0.mappings), len(mem1.routers), len(mem1.mappings), strings.Join(kinds, " "))
	e.Logf("journal %v", kinds)

	// ---- enumerate crash points ----
	type point struct{ op, off int }
	var points []point
	for i, op := range journal {
		if op.Kind == "write" {
			if op.Len > 4<<20 {
				e.Probe("state_file_larger_than_4_MiB")
			}
			if huge {
				// every restart parses megabytes: the edges and a small seeded sample
				for _, o := range []int{0, 1, op.Len / 2, op.Len - 1, op.Len} {
					if o >= 0 && o <= op.Len {
						points = append(points, point{i, o})
					}
				}
				for j := 0; j < 8; j++ {
					points = append(points, point{i, tp.Intn(op.Len + 1)})
				}
			} else if op.Len <= 2048 || thorough && op.Len <= 40000 {
				for off := 0; off <= op.Len; off++ {
					points = append(points, point{i, off})
				}
			} else {
				// large write: all offsets near the edges plus a seeded sample
				seen := map[int]bool{}
				add := func(o int) {
					if o >= 0 && o <= op.Len && !seen[o] {
						seen[o] = true
						points = append(points, point{i, o})
					}
				}
				for o := 0; o < 200; o++ {
					add(o)
					add(op.Len - o)
				}
				k := 500
				if thorough {
					k = 12000
				}
				for j := 0; j < k; j++ {
					add(tp.Intn(op.Len + 1))
				}
				e.Probe("large_write_sampled")
			}
		} else {
			points = append(points, point{i, 0})
		}
	}
	sort.Slice(points, func(a, b int) bool {
		if points[a].op != points[b].op {
			return points[a].op < points[b].op
		}
		return points[a].off < points[b].off
	})
	sawOld, sawNew := 0, 0
	followUps := 0
	rebuild := false
	for _, pt := range points {
		simos.Use(image0.Clone())
		simos.Current().ArmCrash(pt.op, pt.off)
		crashed, err := stop(s1)
		simos.Current().Disarm()
		if !crashed && err == nil && len(simos.Current().Journal) == 0 && !rebuild {
			// This storage object has been through a complete Stop() before (the dry run) and
			// now writes nothing: it remembers that it was saved. A process stops once; from
			// here on every crash point gets an object of its own with the same history.
			rebuild = true
			e.Probe("storage_object_rebuilt_per_crash_point")
		}
		if rebuild {
			simos.Use(imageSaved.Clone())
			sx, lerr := storage.NewJSONFileStorage(statePath)
			if lerr != nil {
				e.Infra("reload for a crash point: %v", lerr)
			}
			for _, mu := range muts1 {
				mu(sx)
			}
			mem1 = snap(sx)
			simos.Use(image0.Clone())
			simos.Current().ArmCrash(pt.op, pt.off)
			crashed, err = stop(sx)
			simos.Current().Disarm()
		}
		if !crashed {
			e.Infra("crash point op=%d off=%d did not fire (err=%v): Stop() is not deterministic", pt.op, pt.off, err)
		}
		e.Fault("disk_crash")
		kind := journal[pt.op].Kind
		if kind == "write" && pt.off > 0 && pt.off < journal[pt.op].Len {
			e.Probe("crash_inside_write")
		} else {
			e.Probe("crash_at_" + kind + "_boundary")
		}
		e.Case(0x18, uint64(len(mem0.routers)), uint64(len(mem1.routers)), uint64(pt.op), uint64(pt.off), uint64(journal[pt.op].Len))

		var re *storage.JSONFileStorage
		var rerr error
		e.Guard("panic-on-restart", func() { re, rerr = storage.NewJSONFileStorage(statePath) })
		if e.Failed() {
			e.Fail("", "")
		}
		where := "inside-write"
		if !(kind == "write" && pt.off > 0 && pt.off < journal[pt.op].Len) {
			where = "after-" + prevKind(journal, pt.op, pt.off)
		}
		if rerr != nil {
			e.Fail("start-refused-after-crash/"+where,
				"killed at journal op %d (%s) offset %d/%d: next start fails: %v; files on disk: %v",
				pt.op, kind, pt.off, journal[pt.op].Len, rerr, simos.Current().Files())
		}
		got := snap(re)
		d0, d1 := loaded0.diff(got), mem1.diff(got)
		// Life goes on after a crash: for a sample of crash points the restarted
		// storage is changed (often shrunk), shut down cleanly and started again.
		if (d0 == "" || d1 == "") && followUps < 24 && tp.Chance(1, max(1, len(points)/24)) {
			followUps++
			var fp []netip.Addr
			for ip := range got.routers {
				fp = append(fp, ip)
			}
			sort.Slice(fp, func(a, b int) bool { return fp[a].Compare(fp[b]) < 0 })
			var fd []string
			for d := range got.mappings {
				fd = append(fd, d)
			}
			sort.Strings(fd)
			switch tp.Intn(3) {
			case 0: // shrink a lot
				for i, ip := range fp {
					if i%4 != 0 {
						_ = re.DeleteRouter(ip)
					}
				}
				for i, d := range fd {
					if i%4 != 0 {
						_ = re.DeleteMapping(d)
					}
				}
			case 1: // empty
				for _, ip := range fp {
					_ = re.DeleteRouter(ip)
				}
				for _, d := range fd {
					_ = re.DeleteMapping(d)
				}
			default:
				for _, mu := range genMutations(tp, 1+tp.Intn(4), &fp, &fd, e) {
					mu(re)
				}
			}
			want := snap(re)
			if crashed, err := stop(re); crashed || err != nil {
				e.Fail("save-fails", "clean Stop() after an earlier crash failed: %v", err)
			}
			re2, err := storage.NewJSONFileStorage(statePath)
			if err != nil {
				e.Fail("start-refused-after-crash-then-clean-shutdown",
					"killed at journal op %d (%s) offset %d/%d, restarted, changed the state (%d routers), shut down cleanly: the next start fails: %v; files %v",
					pt.op, kind, pt.off, journal[pt.op].Len, len(want.routers), err, simos.Current().Files())
			}
			if d := want.diff(snap(re2)); d != "" {
				e.Fail("roundtrip-lossy-after-earlier-crash", "state saved after an earlier crash reloads differently: %s", d)
			}
			e.Probe("crash_then_clean_shutdown_then_restart")
			e.Case(0x18, uint64(pt.op), uint64(pt.off), 0xfffd, uint64(len(want.routers)))
		}
		switch {
		case d0 == "":
			sawOld++
		case d1 == "":
			sawNew++
		default:
			e.Fail("neither-old-nor-new-after-crash/"+where,
				"killed at journal op %d (%s) offset %d/%d: loaded state is neither the previous (%s) nor the new (%s) state",
				pt.op, kind, pt.off, journal[pt.op].Len, d0, d1)
		}
	}
	e.Ev("points", uint64(len(points)), uint64(sawOld), uint64(sawNew))
	e.ProbeN("restart_found_old_state", sawOld)
	e.ProbeN("restart_found_new_state", sawNew)
	e.Sample("%d crash points: %d restarts found the old state, %d the new state", len(points), sawOld, sawNew)
}

func prevKind(j []simos.Op, op, off int) string {
	if j[op].Kind == "write" && off >= j[op].Len {
		return "write-complete-before-return"
	}
	if op == 0 {
		return "nothing"
	}
	return j[op-1].Kind
}

func testingTier() string { return tier }

var tier = "quick"

func TestCheck(t *testing.T) {
	if v := os.Getenv("VERIF_TIER"); v != "" {
		tier = v
	}
	core.Main(t, &core.Check{
		ID:             "C18",
		QuickRuns:      64,
		ThoroughRuns:   1600,
		MinimiseBudget: 60,
		Run:            run,
	})
}
