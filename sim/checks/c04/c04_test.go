// C04 Peering handshake: key-possession proof, universe admission, key agreement.
//
// Simulated system: two real peering stacks (peering + state + routing table;
// shipped accept loop, setup worker and handleSetup) joined by byte-level
// simulated connections with an adversary on the six handshake records.
// Per run: one configuration (identities, universe, secrets, lite flags,
// roles), one clean connection (honest run must work; transcript captured for
// replays), then a series of connection attempts each with one fault on one
// end's inbound handshake record.
package c04

import (
	"bytes"
	"fmt"
	"net"
	"strings"
	"testing"
	"time"

	"github.com/fxamacker/cbor/v2"

	"github.com/mycoria/mycoria/frame"
	"github.com/mycoria/mycoria/m"

	"mycoverif/core"
	"mycoverif/ident"
	"mycoverif/linkpair"
	"mycoverif/node"
	"mycoverif/simnet"
)

// forgedRequest mirrors the wire form of a peering request (CBOR keys as on
// the wire) for the attacker endpoint.
type forgedRequest struct {
	RouterVersion string          `cbor:"v,omitempty"`
	Universe      string          `cbor:"u,omitempty"`
	LiteMode      bool            `cbor:"lm,omitempty"`
	Address       m.PublicAddress `cbor:"a,omitempty"`
	Challenge     []byte          `cbor:"c,omitempty"`
	LinkVersion   int             `cbor:"lv,omitempty"`
	TunMTU        int             `cbor:"tmtu,omitempty"`
}

type world struct {
	e         *core.Env
	tp        *core.Tape
	cn        *simnet.ConnNet
	S         [2]*linkpair.Stack // 0 = first, 1 = second
	compat    bool               // honest handshake is expected to complete
	mayLink   [2]bool            // config allows end i to register a link at all
	old       [2][][]byte        // handshake records of the clean connection, by sending stack
	prev      [2][][]byte        // ... and of the most recent completed honest connection
	prevValid bool
	desc      string
}

// cleanupAttempt closes both ends and makes sure nothing stays registered.
func (w *world) cleanupAttempt(a *linkpair.Attempt) {
	for i := 0; i < 2; i++ {
		for _, l := range w.S[i].Node.Peering.GetLinks() {
			l.Close(nil)
		}
	}
	_ = a.Pair.A.Close()
	_ = a.Pair.B.Close()
	simnet.Wait()
	for guard := 0; guard < 100; guard++ {
		r := w.cn.ChooseFIFO(w.tp)
		if r == nil {
			break
		}
		w.cn.Deliver(r)
	}
	for _, r := range w.cn.Pending() {
		w.cn.Remove(r)
	}
	simnet.Wait()
	for i := 0; i < 2; i++ {
		if n := len(w.S[i].Node.Peering.GetLinks()); n != 0 {
			w.e.Fail("closed-link-still-registered", "%s: %d links still registered at %s after both connection ends were closed", w.desc, n, w.S[i].Node.Name)
		}
		w.S[i].Drain()
	}
}

func reverse(s string) string {
	b := []byte(s)
	for i, j := 0, len(b)-1; i < j; i, j = i+1, j-1 {
		b[i], b[j] = b[j], b[i]
	}
	return string(b)
}

func (w *world) linked(i int) bool {
	return w.S[i].Node.Peering.GetLink(w.S[1-i].Node.IP) != nil
}

func run(e *core.Env) {
	tp := e.Tape
	e.StartClock()
	w := &world{e: e, tp: tp, cn: simnet.NewConnNet(e)}

	// ---- configuration ----
	perm := tp.Perm(10)
	ids := [2]*m.Address{ident.Get(ident.Routable, perm[0]), ident.Get(ident.Routable, perm[1])}
	// (Privacy addresses are not used: the shipped routing table refuses the peer
	// route for them, so such routers never link - unrelated to this property.)
	// Near misses included: names that differ in case, in surrounding blanks, in a trailing
	// dot or in one letter are different universes.
	universes := []string{"", "alpha", "beta", "Alpha", "ALPHA", "alpha ", " alpha", "alpha.", "alph", "alpha\x00", "betá"}
	secrets := []string{"", "s3cret", "other", "t3rces"} // (two of them have the same length)
	var uni, sec [2]string
	switch tp.Pick(5, 2, 2) {
	case 0:
		uni[0] = universes[tp.Intn(3)]
		uni[1] = uni[0]
	case 1:
		uni[0], uni[1] = universes[tp.Intn(3)], universes[tp.Intn(3)]
	default:
		uni[0], uni[1] = universes[tp.Intn(len(universes))], universes[tp.Intn(len(universes))]
		if uni[0] != uni[1] && strings.EqualFold(strings.TrimSpace(uni[0]), strings.TrimSpace(uni[1])) {
			e.Probe("universe_names_that_differ_only_in_case_or_blanks")
		}
	}
	switch tp.Pick(4, 2, 3) {
	case 0:
	case 1:
		sec[0] = secrets[1+tp.Intn(3)]
		sec[1] = sec[0]
	default:
		sec[0], sec[1] = secrets[tp.Intn(4)], secrets[tp.Intn(4)]
	}
	for i := 0; i < 2; i++ {
		st := node.BaseStore(ids[i])
		st.Router.Universe = uni[i]
		st.Router.UniverseSecret = sec[i]
		st.Router.Lite = tp.Chance(1, 5)
		w.S[i] = linkpair.NewStack(e, fmt.Sprintf("r%d", i), ids[i], st, false)
	}
	// Honest completion is demanded only where the statement implies it.
	w.compat = uni[0] == uni[1] && sec[0] == sec[1] // (a secret is a valid setting in the default universe too)
	for i := 0; i < 2; i++ {
		// End i may register a link only if the universes match and, when it
		// holds a secret, the peer holds the same one.
		w.mayLink[i] = uni[0] == uni[1] && (sec[i] == "" || sec[1-i] == sec[i])
	}
	w.desc = fmt.Sprintf("universe %q/%q secret %q/%q", uni[0], uni[1], sec[0], sec[1])
	e.Logf("config %s compat=%v", w.desc, w.compat)
	e.Sample("config %s", w.desc)
	if w.compat {
		e.Probe("config_compatible")
	} else {
		e.Probe("config_incompatible")
	}

	// ---- clean connection ----
	cli := tp.Intn(2)
	w.cn.KeepLog = true
	att := linkpair.Dial(w.cn, w.S[cli], w.S[1-cli])
	w.cn.DrainFIFO(tp, 200)
	for _, r := range w.cn.Written {
		sender := cli // direction 0 is client->server
		if r.Dir == 1 {
			sender = 1 - cli
		}
		if len(w.old[sender]) < 3 {
			w.old[sender] = append(w.old[sender], r.Data)
		}
	}
	w.cn.KeepLog = false
	w.cn.Written = nil
	for i := 0; i < 2; i++ {
		if w.linked(i) && !w.mayLink[i] {
			e.Fail("link-registered-against-universe-policy", "%s: %s registered a link to %s", w.desc, w.S[i].Node.Name, w.S[1-i].Node.Name)
		}
	}
	if w.compat {
		if !w.linked(0) || !w.linked(1) || !att.Result.Done || att.Result.Err != nil {
			e.Fail("honest-handshake-fails", "%s: fault-free handshake did not complete: linked %v/%v client done=%v err=%v",
				w.desc, w.linked(0), w.linked(1), att.Result.Done, att.Result.Err)
		}
		// Each end reports the other's true address; traffic flows both ways unchanged.
		for i := 0; i < 2; i++ {
			l := w.S[i].Node.Peering.GetLink(w.S[1-i].Node.IP)
			if l.Peer() != w.S[1-i].Node.IP {
				e.Fail("link-reports-wrong-peer", "%s reports peer %s", w.S[i].Node.Name, l.Peer())
			}
			payload := tp.Bytes(1 + tp.Intn(900))
			f, err := w.S[i].Node.Inst.Builder.NewFrameV1(w.S[i].Node.IP, w.S[1-i].Node.IP, frame.RouterPing, nil, payload, nil)
			if err != nil {
				e.Infra("frame: %v", err)
			}
			want, _ := f.FrameDataWithMargins(0, 0)
			want = append([]byte(nil), want...)
			_ = l.Send(f)
			simnet.Wait()
			w.cn.DrainFIFO(tp, 50)
			got := w.S[1-i].Drain()
			if len(got) != 1 || !bytes.Equal(got[0].Data, want) {
				e.Fail("traffic-after-handshake-not-delivered-intact", "%s: frame sent over the new link by %s: %d frames arrived", w.desc, w.S[i].Node.Name, len(got))
			}
			if len(w.S[i].Drain()) != 0 {
				e.Fail("frame-delivered-to-its-sender", "frame came back to %s", w.S[i].Node.Name)
			}
		}
		e.Probe("honest_handshake_and_traffic_ok")
	}
	w.cleanupAttempt(att)

	// ---- both ends dial each other at the same time (no faults) ----
	// Two handshakes between the same two routers run interleaved; the tape decides the order
	// in which their records arrive. How many links survive is C16's subject. Here: once the
	// network is quiet, a link that both routers still hold must carry traffic - both ends
	// completed a handshake, so what either seals the other must unseal.
	if w.compat && tp.Chance(1, 3) {
		time.Sleep(time.Second + time.Duration(tp.Intn(2000))*time.Millisecond)
		first := tp.Intn(2)
		a1 := linkpair.Dial(w.cn, w.S[first], w.S[1-first])
		for k, pre := 0, tp.Intn(7); k < pre; k++ {
			if hs := w.cn.Heads(); len(hs) > 0 {
				w.cn.Deliver(hs[tp.Intn(len(hs))])
			}
		}
		time.Sleep(time.Duration(1+tp.Intn(5)) * time.Millisecond)
		a2 := linkpair.Dial(w.cn, w.S[1-first], w.S[first])
		for guard := 0; guard < 200; guard++ {
			hs := w.cn.Heads()
			if len(hs) == 0 {
				break
			}
			w.cn.Deliver(hs[tp.Intn(len(hs))])
			if tp.Chance(1, 6) {
				time.Sleep(time.Duration(1+tp.Intn(3)) * time.Millisecond)
				simnet.Wait()
			}
		}
		simnet.Wait()
		e.Fault("cross_connect")
		for round := 0; round < 3; round++ {
			for i := 0; i < 2; i++ {
				l := w.S[i].Node.Peering.GetLink(w.S[1-i].Node.IP)
				lo := w.S[1-i].Node.Peering.GetLink(w.S[i].Node.IP)
				if l == nil || lo == nil || l.IsClosing() || lo.IsClosing() {
					continue
				}
				payload := tp.Bytes(1 + tp.Intn(300))
				f, err := w.S[i].Node.Inst.Builder.NewFrameV1(w.S[i].Node.IP, w.S[1-i].Node.IP, frame.RouterPing, nil, payload, nil)
				if err != nil {
					e.Infra("frame: %v", err)
				}
				want, _ := f.FrameDataWithMargins(0, 0)
				want = append([]byte(nil), want...)
				_ = l.Send(f)
				simnet.Wait()
				w.cn.DrainFIFO(tp, 100)
				simnet.Wait()
				got := w.S[1-i].Drain()
				stillBoth := w.S[i].Node.Peering.GetLink(w.S[1-i].Node.IP) == l && w.S[1-i].Node.Peering.GetLink(w.S[i].Node.IP) == lo
				if len(got) == 1 && bytes.Equal(got[0].Data, want) {
					e.Probe("traffic_after_simultaneous_dial_ok")
					continue
				}
				// A frame may legitimately be lost with the link it was sent on: the two routers
				// can hold links of two different connections, and the surplus one is on its way
				// out. Not so when both links are still there afterwards: then the frame travelled
				// a link both ends completed, and was refused.
				if stillBoth && !l.IsClosing() && !lo.IsClosing() {
					e.Fail("traffic-after-handshake-not-delivered-intact/simultaneous-dial", "%s: both routers hold a live link after dialling each other at the same time, but a frame sent by %s arrived %d times", w.desc, w.S[i].Node.Name, len(got))
				}
			}
		}
		w.S[0].Drain()
		w.S[1].Drain()
		w.cleanupAttempt(a1)
		w.cleanupAttempt(a2)
		e.Probe("simultaneous_dial")
	}

	// ---- both routers are the dialling end of one connection (no faults) ----
	// A TCP simultaneous open, or a relay that joins two outgoing dials: each end runs the
	// client role and receives the other's request as the first message. Whatever they make of
	// it - abort (what the shipped code does: neither finds the key exchange it waits for) or
	// complete - a link that both hold afterwards must carry traffic.
	if w.compat && tp.Chance(1, 4) {
		time.Sleep(time.Second + time.Duration(tp.Intn(2000))*time.Millisecond)
		pair := w.cn.NewPair("both-dial")
		ends := []net.Conn{pair.A, pair.B}
		for i := 0; i < 2; i++ {
			i := i
			go func() {
				defer func() { _ = recover() }()
				_, _ = w.S[i].Node.Peering.VerifSetupLink(ends[i], w.S[1-i].URL, true)
			}()
		}
		simnet.Wait()
		for guard := 0; guard < 200; guard++ {
			hs := w.cn.Heads()
			if len(hs) == 0 {
				break
			}
			w.cn.Deliver(hs[tp.Intn(len(hs))])
		}
		simnet.Wait()
		for i := 0; i < 2; i++ {
			if len(w.S[i].Node.PanicAlerts()) > 0 {
				e.Fail("worker-panic:both-ends-dialled", "%s: worker panicked when both routers ran the dialling role on one connection", w.desc)
			}
		}
		for i := 0; i < 2; i++ {
			l := w.S[i].Node.Peering.GetLink(w.S[1-i].Node.IP)
			lo := w.S[1-i].Node.Peering.GetLink(w.S[i].Node.IP)
			if l == nil || lo == nil || l.IsClosing() || lo.IsClosing() {
				continue
			}
			e.Probe("both_dialling_ends_registered_links")
			payload := tp.Bytes(1 + tp.Intn(300))
			f, err := w.S[i].Node.Inst.Builder.NewFrameV1(w.S[i].Node.IP, w.S[1-i].Node.IP, frame.RouterPing, nil, payload, nil)
			if err != nil {
				e.Infra("frame: %v", err)
			}
			want, _ := f.FrameDataWithMargins(0, 0)
			want = append([]byte(nil), want...)
			_ = l.Send(f)
			simnet.Wait()
			w.cn.DrainFIFO(tp, 100)
			simnet.Wait()
			got := w.S[1-i].Drain()
			if len(got) == 1 && bytes.Equal(got[0].Data, want) {
				continue
			}
			if w.S[i].Node.Peering.GetLink(w.S[1-i].Node.IP) == l && w.S[1-i].Node.Peering.GetLink(w.S[i].Node.IP) == lo && !l.IsClosing() && !lo.IsClosing() {
				e.Fail("traffic-after-handshake-not-delivered-intact/both-ends-dialled", "%s: both routers ran the dialling role on one connection and both registered a link, but a frame sent by %s arrived %d times", w.desc, w.S[i].Node.Name, len(got))
			}
		}
		w.S[0].Drain()
		w.S[1].Drain()
		for i := 0; i < 2; i++ {
			if l := w.S[i].Node.Peering.GetLink(w.S[1-i].Node.IP); l != nil {
				l.Close(nil)
			}
		}
		_ = pair.A.Close()
		_ = pair.B.Close()
		simnet.Wait()
		w.cn.DrainFIFO(tp, 100)
		e.Probe("both_ends_dial_on_one_connection")
	}

	// ---- faulted attempts ----
	nAttempts := 8 + tp.Intn(16)
	if core.Tier() == "thorough" {
		nAttempts = 40 + tp.Intn(60)
	}
	kinds := []string{"flip", "flip", "flip", "truncate", "cut_framed", "cut_framed", "drop", "dup", "swap", "replay_old", "reflect", "forge", "eof", "ioerr", "length", "none"}
	for k := 0; k < nAttempts; k++ {
		e.Step()
		// Reconnects are spaced like the shipped connect manager spaces them (>= 1 s) - except
		// for quick ones: a few milliseconds after a completed honest connection the pair
		// connects again and the adversary substitutes the corresponding record of that
		// immediately preceding connection (whether an honest quick reconnect completes is
		// not judged: message timestamps may legitimately still be ahead of the clock).
		quick := w.prevValid && tp.Chance(1, 5)
		if quick {
			time.Sleep(time.Duration(2+tp.Intn(95)) * time.Millisecond)
			e.Probe("quick_reconnect")
		} else {
			time.Sleep(time.Second + time.Duration(tp.Intn(3000))*time.Millisecond)
		}
		cli := tp.Intn(2)
		kind := kinds[tp.Intn(len(kinds))]
		if quick {
			kind = []string{"replay_prev", "replay_prev", "replay_prev", "none"}[tp.Intn(4)]
		}
		w.cn.KeepLog = true
		w.cn.Written = nil
		victimDir := tp.Intn(2) // direction whose records are attacked: 0 client->server
		idx := 1 + tp.Intn(3)   // which handshake record of that direction
		// The victim is the end that reads the attacked direction.
		victim := 1 - cli
		if victimDir == 1 {
			victim = cli
		}
		att := linkpair.Dial(w.cn, w.S[cli], w.S[1-cli])
		fired := false
		exempt := false // fault landed on an unauthenticated byte (TTL / flow flags)
		what := ""
		seen := [2]int{}
		for step := 0; step < 60; step++ {
			heads := w.cn.Heads()
			if len(heads) == 0 {
				break
			}
			// For a swap the victim's direction is held until two records wait.
			if kind == "swap" && !fired {
				var inDir []*simnet.Record
				for _, r := range w.cn.Pending() {
					if r.Conn == att.Pair && r.Dir == victimDir && !r.EOF {
						inDir = append(inDir, r)
					}
				}
				if len(inDir) >= 2 {
					w.cn.Deliver(inDir[1])
					w.cn.Deliver(inDir[0])
					fired, what = true, fmt.Sprintf("swap records %d,%d", inDir[0].Seq, inDir[1].Seq)
					e.Fault("reorder")
					continue
				}
				var other []*simnet.Record
				for _, r := range heads {
					if r.Dir != victimDir {
						other = append(other, r)
					}
				}
				if len(other) == 0 {
					// cannot build a swap in this schedule: deliver normally
					kind = "none"
					continue
				}
				w.cn.Deliver(other[tp.Intn(len(other))])
				continue
			}
			r := heads[tp.Intn(len(heads))]
			if r.Conn != att.Pair {
				w.cn.Deliver(r)
				continue
			}
			if !r.EOF {
				seen[r.Dir]++
			}
			target := !fired && r.Dir == victimDir && seen[r.Dir] == idx && !r.EOF && kind != "none" && kind != "swap"
			if !target {
				w.cn.Deliver(r)
				continue
			}
			fired = true
			switch kind {
			case "flip":
				pos := tp.Intn(len(r.Data))
				bit := tp.Intn(8)
				r.Data[pos] ^= 1 << bit
				what = fmt.Sprintf("flip bit %d of byte %d/%d of record %d", bit, pos, len(r.Data), idx)
				if pos == 3 || pos == 4 {
					exempt = true
				}
				e.Fault("corrupt_bit")
				e.Case(0x04, uint64(idx), uint64(pos), uint64(bit), uint64(victimDir))
				w.cn.Deliver(r)
			case "length":
				pos := tp.Intn(2)
				r.Data[pos] ^= 1 << tp.Intn(8)
				what = fmt.Sprintf("corrupt length prefix of record %d", idx)
				e.Fault("corrupt_length")
				w.cn.Deliver(r)
			case "truncate":
				cut := tp.Intn(len(r.Data))
				r.Data = r.Data[:cut]
				what = fmt.Sprintf("truncate record %d to %d bytes", idx, cut)
				e.Fault("truncate")
				w.cn.Deliver(r)
			case "cut_framed":
				// The message arrives cut short (or as noise of that size) but as a complete record -
				// the length prefix says what is there - and the genuine message follows right
				// behind it: a router that reads on past a handshake message it cannot use has
				// not aborted.
				body := append([]byte(nil), r.Data[2:]...)
				switch tp.Intn(3) {
				case 0:
					body = body[:len(body)-1-tp.Intn(min(len(body)-1, 80))]
				case 1:
					body = body[:tp.Intn(len(body))]
				default:
					body = tp.Bytes(1 + tp.Intn(len(body)))
				}
				rec := make([]byte, 2+len(body))
				m.PutUint16(rec[:2], uint16(len(rec)))
				copy(rec[2:], body)
				w.cn.DeliverBytes(victimEnd(att, victimDir), rec, false)
				w.cn.Deliver(r)
				what = fmt.Sprintf("record %d cut to %d bytes in a record of its own, then the genuine record", idx, len(body))
				e.Fault("truncate")
				e.Probe("cut_message_in_a_record_of_its_own_then_the_genuine_one")
			case "drop":
				w.cn.Remove(r)
				what = fmt.Sprintf("drop record %d", idx)
				e.Fault("drop")
			case "dup":
				cp := append([]byte(nil), r.Data...)
				w.cn.Deliver(r)
				w.cn.DeliverBytes(victimEnd(att, victimDir), cp, false)
				what = fmt.Sprintf("duplicate record %d", idx)
				if idx == 3 {
					// A second copy of the last message arrives on an already
					// established link: that is link-layer garbage (C05), not a
					// handshake fault the statement speaks about.
					exempt = true
				}
				e.Fault("dup")
			case "replay_old", "replay_prev":
				// The corresponding record of the earlier connection of this
				// pair (same direction relative to the roles then).
				src := w.old[1-victim] // what the peer sent in the earlier connection
				if kind == "replay_prev" {
					src = w.prev[1-victim]
				}
				if len(src) >= idx {
					w.cn.Remove(r)
					held := time.Duration(0)
					if kind == "replay_old" && tp.Chance(1, 3) {
						// The adversary takes its time: the genuine record is held back for
						// simulated minutes or hours (a link setup has no deadline) before the
						// old one is delivered in its place. Whatever the victim remembers
						// about the peer's earlier messages must still be there then - idle
						// sessions are dropped after a minute (without keys) or an hour.
						held = []time.Duration{65 * time.Second, 3 * time.Minute, 61 * time.Minute, 2 * time.Hour}[tp.Intn(4)] + time.Duration(tp.Intn(30))*time.Second
						time.Sleep(held)
						e.Probe("old_record_delivered_after_minutes_or_hours")
					}
					w.cn.DeliverBytes(victimEnd(att, victimDir), append([]byte(nil), src[idx-1]...), false)
					what = fmt.Sprintf("replace record %d by the one of an earlier connection (after holding the genuine one for %v)", idx, held)
					e.Fault("replay_old")
				} else {
					w.cn.Deliver(r)
					fired = false
				}
			case "reflect":
				// Give the victim its own record of the same index instead.
				var mine *simnet.Record
				for _, q := range w.cn.Pending() {
					if q.Conn == att.Pair && q.Dir != victimDir && !q.EOF {
						mine = q
						break
					}
				}
				if mine != nil {
					w.cn.Remove(r)
					w.cn.DeliverBytes(victimEnd(att, victimDir), append([]byte(nil), mine.Data...), false)
					what = fmt.Sprintf("reflect the victim's own record back instead of record %d", idx)
					e.Fault("reflect")
				} else {
					w.cn.Deliver(r)
					fired = false
				}
			case "forge":
				// An attacker with a different valid identity claims the
				// peer's address and public key, signing with its own key.
				if idx != 1 {
					w.cn.Deliver(r)
					fired = false
					break
				}
				peer := w.S[1-victim].Node
				attacker := ident.Get(ident.Routable, 20+tp.Intn(4))
				req := forgedRequest{RouterVersion: "sim", Universe: uni[1-victim], Address: peer.ID.PublicAddress,
					Challenge: tp.Bytes(32), LinkVersion: 1}
				body, _ := cbor.Marshal(&req)
				ff, err := frame.NewFrameBuilder().NewFrameV1(peer.IP, m.RouterAddress, frame.RouterPing, nil, body, nil)
				if err != nil {
					e.Infra("forge: %v", err)
				}
				ff.SetTTL(0)
				ff.SetSequenceTime(time.Now().Add(time.Second))
				if err := ff.SignRaw(attacker.PrivateKey); err != nil {
					e.Infra("forge sign: %v", err)
				}
				ff.SetTTL(1)
				d, _ := ff.FrameDataWithMargins(0, 0)
				rec := make([]byte, 2+len(d))
				m.PutUint16(rec[:2], uint16(len(rec)))
				copy(rec[2:], d)
				w.cn.Remove(r)
				w.cn.DeliverBytes(victimEnd(att, victimDir), rec, false)
				what = "forged request claiming the peer's address, signed with another key"
				e.Fault("inject")
			case "eof":
				w.cn.Remove(r)
				w.cn.DeliverBytes(victimEnd(att, victimDir), nil, true)
				what = fmt.Sprintf("EOF instead of record %d", idx)
				e.Fault("link_eof")
			case "ioerr":
				w.cn.Remove(r)
				victimEnd(att, victimDir).FailReads(simnet.ErrSimIO)
				simnet.Wait()
				what = fmt.Sprintf("I/O error instead of record %d", idx)
				e.Fault("link_ioerr")
			}
		}
		simnet.Wait()
		e.Ev("attempt", uint64(k), b2u(fired), b2u(w.linked(0)), b2u(w.linked(1)))
		w.S[0].Node.PanicAlerts()
		if att.Result.Panic != "" {
			e.Fail("setup-panic:"+core.PanicClass(att.Result.Panic), "%s: link setup panicked after %s", w.desc, what)
		}
		for i := 0; i < 2; i++ {
			if len(w.S[i].Node.PanicAlerts()) > 0 {
				st := node.PanicStacks(node.NewStderr())
				cls := "unknown"
				if len(st) > 0 {
					cls = core.PanicClass(st[0])
				}
				e.Fail("worker-panic:"+cls, "%s after %s", w.desc, what)
			}
		}
		for i := 0; i < 2; i++ {
			if w.linked(i) && !w.mayLink[i] {
				e.Fail("link-registered-against-universe-policy", "%s: %s registered a link (fault: %s)", w.desc, w.S[i].Node.Name, what)
			}
		}
		if fired && !exempt {
			if w.linked(victim) {
				e.Fail("link-registered-after-tampered-handshake/"+kind,
					"%s: %s registered a link to %s although its inbound handshake was attacked: %s",
					w.desc, w.S[victim].Node.Name, w.S[1-victim].Node.Name, what)
			}
			e.Probe("tampered_attempt_left_no_link")
		} else if w.compat && !fired && !quick {
			if !w.linked(0) || !w.linked(1) {
				e.Fail("honest-handshake-fails", "%s: repeated fault-free handshake (attempt %d) did not complete", w.desc, k)
			}
		}
		// Keep the transcript of a completed honest connection for a quick reconnect.
		w.prevValid = false
		if !fired && w.linked(0) && w.linked(1) {
			w.prev = [2][][]byte{}
			for _, r := range w.cn.Written {
				if r.Conn != att.Pair || r.EOF {
					continue
				}
				sender := cli
				if r.Dir == 1 {
					sender = 1 - cli
				}
				if len(w.prev[sender]) < 3 {
					w.prev[sender] = append(w.prev[sender], r.Data)
				}
			}
			w.prevValid = len(w.prev[0]) == 3 && len(w.prev[1]) == 3
		}
		w.cn.KeepLog = false
		w.cn.Written = nil
		w.cleanupAttempt(att)
	}

	// ---- a message of another connection ----
	if w.compat && tp.Chance(1, 2) {
		time.Sleep(time.Second + time.Duration(tp.Intn(2000))*time.Millisecond)
		r := tp.Intn(2)
		nx := 0
		ackSwap(w, r, func(id *m.Address) *linkpair.Stack {
			st := node.BaseStore(id)
			st.Router.Universe = uni[1-r]
			st.Router.UniverseSecret = sec[1-r]
			nx++
			return linkpair.NewStack(e, fmt.Sprintf("x%d", nx), id, st, false)
		})
	}

	// ---- the router connected to itself ----
	if tp.Chance(1, 2) {
		time.Sleep(time.Second + time.Duration(tp.Intn(2000))*time.Millisecond)
		selfLoop(w, tp.Intn(2))
	}

	// ---- an impostor: another router's address with a key pair of its own ----
	// Router Q exists and its identity has been verified in this process a moment ago (it linked
	// with the other router, or was simply checked) - the victim itself has never met Q. Then a
	// router whose configured identity is Q's address data with its *own* key pair runs the
	// shipped handshake with the victim, in the victim's universe and knowing its secret: all it
	// signs verifies under the key it presents, but that key is not the one Q's address is
	// derived from. No link to Q may result and the victim must not keep the impostor's key for Q.
	if tp.Chance(1, 2) {
		time.Sleep(time.Second + time.Duration(tp.Intn(2000))*time.Millisecond)
		v := tp.Intn(2)
		V := w.S[v]
		qID, mID := ident.Get(ident.Routable, perm[3]), ident.Get(ident.Routable, perm[4])
		if tp.Chance(1, 2) {
			qst := node.BaseStore(qID)
			qst.Router.Universe, qst.Router.UniverseSecret = uni[1-v], sec[1-v]
			Q := linkpair.NewStack(e, "q", qID, qst, false)
			qa := linkpair.Dial(w.cn, Q, w.S[1-v])
			w.cn.DrainFIFO(tp, 200)
			for _, l := range Q.Node.Peering.GetLinks() {
				l.Close(nil)
			}
			w.cleanupAttempt(qa)
			_ = Q.Listener.Close()
			Q.Node.Kill()
			simnet.Wait()
			e.Probe("impostor_after_the_genuine_router_linked_elsewhere")
		} else if err := qID.PublicAddress.VerifyAddress(); err != nil {
			e.Infra("valid identity does not verify: %v", err)
		}
		imp := *mID
		imp.IP = qID.IP
		ist := node.BaseStore(&imp)
		ist.Router.Universe, ist.Router.UniverseSecret = uni[v], sec[v]
		I := linkpair.NewStack(e, "impostor", &imp, ist, false)
		var ia *linkpair.Attempt
		if tp.Chance(2, 3) {
			ia = linkpair.Dial(w.cn, I, V)
		} else {
			ia = linkpair.Dial(w.cn, V, I)
		}
		w.cn.DrainFIFO(tp, 200)
		e.Fault("impostor_handshake")
		linkedQ := V.Node.Peering.GetLink(qID.IP) != nil
		e.Ev("impostor", uint64(v), b2u(linkedQ))
		if linkedQ {
			e.Fail("link-registered-to-an-impostor", "%s: %s registered a link to %s after a handshake with a router that presented this address with a key pair of its own (the address is not derived from that key)", w.desc, V.Node.Name, qID.IP)
		}
		if r, err := V.Node.Storage.GetRouter(qID.IP); err == nil && r != nil && r.Address != nil && !bytes.Equal(r.Address.PublicKey, qID.PublicKey) {
			e.Fail("link-registered-to-an-impostor", "%s: after the impostor's handshake %s stores a key for %s that the address is not derived from", w.desc, V.Node.Name, qID.IP)
		}
		for _, l := range I.Node.Peering.GetLinks() {
			l.Close(nil)
		}
		w.cleanupAttempt(ia)
		_ = I.Listener.Close()
		I.Node.Kill()
		simnet.Wait()
		e.Probe("impostor_left_no_link")
	}

	// ---- a dishonest remote end ----
	// So far the adversary sat on the wire between two honest routers. Here the remote end
	// itself is the adversary: an outsider with a valid identity of its own runs the shipped
	// handshake state machine (so everything it signs verifies), names the victim's universe,
	// does not know the victim's secret, and is free to choose what it sends: it may copy the
	// victim's challenge into its own request and put into its response whatever universe
	// proof it has seen on this connection.
	nEvil := 1 + tp.Intn(3)
	outID := ident.Get(ident.Routable, perm[2])
	for k := 0; k < nEvil; k++ {
		time.Sleep(time.Second + time.Duration(tp.Intn(3000))*time.Millisecond)
		v := tp.Intn(2)
		V := w.S[v]
		ost := node.BaseStore(outID)
		ost.Router.Universe = uni[v]
		ost.Router.UniverseSecret = []string{"", "", "not-the-secret", reverse(sec[v])}[tp.Intn(4)] // (the last: wrong, but of the right length)
		O := linkpair.NewStack(e, fmt.Sprintf("out%d", k), outID, ost, false)
		victimDials := tp.Chance(1, 2)
		copyChallenge := tp.Chance(3, 4)
		uaMode := tp.Intn(5)   // 0,1: reflect the victim's own proof; 2: leave what the honest code put; 3: random bytes; 4: no proof at all
		// what the outsider says about itself is its own choice, too: the version string of its
		// request (old releases, future ones, development builds, nothing)
		claimedVersion := []string{"sim", "sim", "v0.0.0", "v0.0.9", "v0.0.1", "v0.0.99", "v0.1.0", "v1.0.0", "v9.9.9", "dev build", "", "V0.0.9", "0.0.9"}[tp.Intn(13)]
		echoMode := tp.Intn(6) // 0..2: the honest echo of the victim's challenge; 3: none; 4: a proper prefix; 5: one byte more
		badEcho := false
		pair := w.cn.NewPair("dishonest")
		vEnd, vDir := pair.B, 1 // the victim reads from vEnd and writes records of direction vDir
		var dialPanic string
		if victimDials {
			vEnd, vDir = pair.A, 0
			go func() {
				defer func() {
					if r := recover(); r != nil {
						dialPanic = fmt.Sprint(r)
					}
				}()
				_, _ = V.Node.Peering.VerifSetupLink(pair.A, O.URL, true)
			}()
		} else if !V.Listener.Offer(pair.B) {
			e.Infra("listener closed")
		}
		simnet.Wait()
		take := func() []byte {
			simnet.Wait()
			for _, r := range w.cn.Pending() {
				if r.Conn == pair && r.Dir == vDir && !r.EOF && len(r.Data) > 2 {
					w.cn.Remove(r)
					return r.Data[2:]
				}
			}
			return nil
		}
		parse := func(d []byte) frame.Frame {
			if d == nil {
				return nil
			}
			b := O.Node.Inst.Builder
			ps := b.GetPooledSlice(len(d))
			copy(ps, d)
			f, err := b.ParseFrame(ps[:len(d)], ps, 0)
			if err != nil {
				return nil
			}
			return f
		}
		field := func(f frame.Frame, key string) []byte {
			if f == nil {
				return nil
			}
			var mm map[string]any
			if cbor.Unmarshal(f.MessageData(), &mm) != nil {
				return nil
			}
			b, _ := mm[key].([]byte)
			return b
		}
		send := func(f frame.Frame) {
			d, err := f.FrameDataWithMargins(0, 0)
			if err != nil {
				e.Infra("frame data: %v", err)
			}
			rec := make([]byte, 2+len(d))
			m.PutUint16(rec[:2], uint16(len(rec)))
			copy(rec[2:], d)
			w.cn.DeliverBytes(vEnd, rec, false)
		}
		steps := "victim's request not seen"
		func() {
			vReq := parse(take())
			if vReq == nil {
				return
			}
			hs, honestReq, err := O.Node.Peering.VerifNewHandshake(!victimDials)
			if err != nil {
				e.Infra("handshake state: %v", err)
			}
			honestReq.ReturnToPool()
			challenge := tp.Bytes(32)
			if copyChallenge {
				if c := field(vReq, "c"); len(c) > 0 {
					challenge = c
				}
			}
			hs.SetChallenge(challenge)
			body, _ := cbor.Marshal(&forgedRequest{RouterVersion: claimedVersion, Universe: uni[v], Address: outID.PublicAddress, Challenge: challenge, LinkVersion: 1})
			req, err := O.Node.Inst.Builder.NewFrameV1(outID.IP, m.RouterAddress, frame.RouterPing, nil, body, nil)
			if err != nil {
				e.Infra("request: %v", err)
			}
			req.SetTTL(0)
			req.SetSequenceTime(time.Now().Round(time.Millisecond).Add(-time.Millisecond))
			if err := req.SignRaw(outID.PrivateKey); err != nil {
				e.Infra("sign: %v", err)
			}
			req.SetTTL(1)
			send(req)
			steps = "request sent"
			vResp := parse(take()) // the victim's response to our request: carries its universe proof
			oResp, err := hs.Handle(vReq)
			if err != nil || oResp == nil {
				steps += fmt.Sprintf("; shipped code refuses the victim's request: %v", err)
				return
			}
			// Our response: what the shipped code produced, with the universe proof of our choice.
			var rm map[string]any
			if cbor.Unmarshal(oResp.MessageData(), &rm) != nil {
				return
			}
			switch {
			case uaMode <= 1:
				if ua := field(vResp, "ua"); len(ua) > 0 {
					rm["ua"] = ua
					e.Probe("dishonest_peer_reflects_universe_proof")
				}
			case uaMode == 3:
				rm["ua"] = tp.Bytes(32)
			case uaMode == 4:
				delete(rm, "ua")
				e.Probe("dishonest_peer_sends_no_universe_proof")
			}
			// ... and it may echo only a part of the victim's challenge (none of it, its first
			// byte, all but the last byte) or append to it.
			if echoMode >= 3 {
				if c, ok := rm["c"].([]byte); ok && len(c) > 1 {
					switch echoMode {
					case 3:
						delete(rm, "c")
					case 4:
						rm["c"] = c[:1+tp.Intn(len(c)-1)]
					default:
						rm["c"] = append(append([]byte(nil), c...), byte(tp.Intn(256)))
					}
					badEcho = true
					e.Probe("dishonest_peer_echoes_part_of_the_challenge")
				}
			}
			rb, _ := cbor.Marshal(rm)
			sess := O.Node.State.GetSession(V.Node.IP)
			if sess == nil {
				return
			}
			resp, err := O.Node.Inst.Builder.NewFrameV1(outID.IP, V.Node.IP, frame.RouterPing, nil, rb, nil)
			if err != nil {
				e.Infra("response: %v", err)
			}
			if err := resp.Seal(sess); err != nil {
				e.Infra("seal: %v", err)
			}
			send(resp)
			steps += "; response sent"
			vAck := parse(take())
			if vResp == nil {
				return
			}
			oAck, err := hs.Handle(vResp)
			if err != nil || oAck == nil {
				steps += fmt.Sprintf("; shipped code refuses the victim's response: %v", err)
				return
			}
			send(oAck)
			steps += "; ack sent"
			if vAck != nil {
				if _, err := hs.Handle(vAck); err == nil {
					_ = hs.Finalize()
					steps += "; handshake complete on the dishonest side"
				}
			}
		}()
		simnet.Wait()
		e.Fault("dishonest_peer")
		linked := V.Node.Peering.GetLink(outID.IP) != nil
		e.Ev("dishonest", uint64(k), uint64(v), b2u(victimDials), b2u(copyChallenge), uint64(uaMode), b2u(linked))
		if dialPanic != "" {
			e.Fail("setup-panic:"+core.PanicClass(dialPanic), "link setup panicked with a dishonest remote end")
		}
		if len(V.Node.PanicAlerts()) > 0 {
			e.Fail("worker-panic:dishonest-peer", "%s: worker panicked with a dishonest remote end (%s)", w.desc, steps)
		}
		if linked && badEcho {
			e.Fail("link-registered-with-peer-that-did-not-echo-the-challenge",
				"%s: %s (dials=%v) registered a link to an outsider whose response did not carry this connection's challenge (echo mode %d; %s)",
				w.desc, V.Node.Name, victimDials, echoMode, steps)
		}
		if linked && sec[v] != "" {
			e.Fail("link-registered-with-peer-that-never-proved-the-universe-secret",
				"%s: %s (secret %q, dials=%v) registered a link to an outsider that does not know the secret; the outsider copied the victim's challenge=%v, universe proof mode %d (%s)",
				w.desc, V.Node.Name, sec[v], victimDials, copyChallenge, uaMode, steps)
		}
		if linked {
			e.Probe("dishonest_but_entitled_peer_linked")
		} else {
			e.Probe("dishonest_peer_left_no_link")
		}
		for _, l := range V.Node.Peering.GetLinks() {
			l.Close(nil)
		}
		_ = pair.A.Close()
		_ = pair.B.Close()
		simnet.Wait()
		for _, r := range w.cn.Pending() {
			w.cn.Remove(r)
		}
		_ = O.Listener.Close()
		O.Node.Kill()
		simnet.Wait()
		V.Drain()
	}
}

// ackSwap: while R (client) and P (server) are in a handshake, another router X that P accepts
// connects to P as well; the adversary holds back P's last message to R and gives R the last
// message P sent to X instead - correctly signed by P, fresh, but made for another connection.
func ackSwap(w *world, r int, xStore func(*m.Address) *linkpair.Stack) {
	e, tp := w.e, w.tp
	R, P := w.S[r], w.S[1-r]
	att1 := linkpair.Dial(w.cn, R, P)
	var held *simnet.Record
	fromP := 0
	for guard := 0; guard < 60; guard++ {
		var next *simnet.Record
		for _, q := range w.cn.Heads() {
			if q.Conn != att1.Pair || q == held {
				continue
			}
			next = q
			break
		}
		if next == nil {
			break
		}
		if next.Dir == 1 && !next.EOF {
			fromP++
			if fromP == 3 {
				held = next
				w.cn.Remove(next)
				continue
			}
		}
		w.cn.Deliver(next)
	}
	if held == nil {
		w.cleanupAttempt(att1)
		return
	}
	time.Sleep(time.Duration(2+tp.Intn(30)) * time.Millisecond)
	X := xStore(ident.Get(ident.Routable, 24+tp.Intn(4)))
	w.cn.KeepLog = true
	w.cn.Written = nil
	att2 := linkpair.Dial(w.cn, X, P)
	w.cn.DrainFIFO(tp, 200)
	var toX [][]byte
	for _, q := range w.cn.Written {
		if q.Conn == att2.Pair && q.Dir == 1 && !q.EOF {
			toX = append(toX, q.Data)
		}
	}
	w.cn.KeepLog = false
	w.cn.Written = nil
	if len(toX) >= 3 {
		w.cn.DeliverBytes(att1.Pair.A, append([]byte(nil), toX[2]...), false)
		simnet.Wait()
		w.cn.DrainFIFO(tp, 100)
		e.Fault("message_of_another_connection")
		e.Ev("ackswap", uint64(r), b2u(R.Node.Peering.GetLink(P.Node.IP) != nil))
		if R.Node.Peering.GetLink(P.Node.IP) != nil {
			e.Fail("link-registered-after-tampered-handshake/message-of-another-connection",
				"%s: %s registered a link to %s although the last handshake message it received was the one %s had sent to another router on another connection",
				w.desc, R.Node.Name, P.Node.Name, P.Node.Name)
		}
		e.Probe("message_of_another_connection_left_no_link")
	}
	for _, l := range X.Node.Peering.GetLinks() {
		l.Close(nil)
	}
	_ = att2.Pair.A.Close()
	_ = att2.Pair.B.Close()
	w.cleanupAttempt(att1)
	_ = X.Listener.Close()
	X.Node.Kill()
	simnet.Wait()
}

// selfLoop cross-wires a connection the router dials with one it accepts: every handshake
// message it sends comes back to it on the other connection ("reflected back to its sender"),
// relayed unchanged and in the order it was written by an adversary without any key.
func selfLoop(w *world, v int) {
	e, tp := w.e, w.tp
	V := w.S[v]
	p1 := w.cn.NewPair("self-dial")
	p2 := w.cn.NewPair("self-accept")
	var dialPanic string
	go func() {
		defer func() {
			if r := recover(); r != nil {
				dialPanic = fmt.Sprint(r)
			}
		}()
		_, _ = V.Node.Peering.VerifSetupLink(p1.A, V.URL, true)
	}()
	simnet.Wait()
	time.Sleep(time.Duration(2+tp.Intn(20)) * time.Millisecond)
	if !V.Listener.Offer(p2.B) {
		e.Infra("listener closed")
	}
	simnet.Wait()
	relayed := 0
	for guard := 0; guard < 40; guard++ {
		var next *simnet.Record
		for _, r := range w.cn.Pending() {
			fromDial := r.Conn == p1 && r.Dir == 0
			fromAccept := r.Conn == p2 && r.Dir == 1
			if (fromDial || fromAccept) && !r.EOF && (next == nil || r.At.Before(next.At)) {
				next = r
			}
		}
		if next == nil {
			break
		}
		w.cn.Remove(next)
		if next.Conn == p1 {
			w.cn.DeliverBytes(p2.B, next.Data, false)
		} else {
			w.cn.DeliverBytes(p1.A, next.Data, false)
		}
		relayed++
	}
	simnet.Wait()
	e.Fault("reflect")
	e.Ev("selfloop", uint64(v), uint64(relayed))
	if dialPanic != "" {
		e.Fail("setup-panic:"+core.PanicClass(dialPanic), "link setup panicked when the router was connected to itself")
	}
	if l := V.Node.Peering.GetLink(V.Node.IP); l != nil {
		e.Fail("link-registered-with-itself", "%s: %s registered a link whose peer is its own address after its own handshake messages were reflected to it across two connections (%d records relayed)", w.desc, V.Node.Name, relayed)
	}
	e.Probe("self_loop_left_no_link")
	for _, l := range V.Node.Peering.GetLinks() {
		l.Close(nil)
	}
	for _, c := range []*simnet.ConnPair{p1, p2} {
		_ = c.A.Close()
		_ = c.B.Close()
	}
	simnet.Wait()
	for _, r := range w.cn.Pending() {
		w.cn.Remove(r)
	}
	V.Drain()
}

func victimEnd(a *linkpair.Attempt, victimDir int) *simnet.SimConn {
	if victimDir == 0 {
		return a.Pair.B
	}
	return a.Pair.A
}

func b2u(b bool) uint64 {
	if b {
		return 1
	}
	return 0
}

func TestCheck(t *testing.T) {
	core.Main(t, &core.Check{
		ID:             "C04",
		QuickRuns:      1600,
		ThoroughRuns:   24000,
		MinimiseBudget: 80,
		Run:            run,
	})
}
