// C12 Switch-label source routes traverse forward and reverse exactly.
//
// Simulated system: line meshes of real router nodes whose simulated links
// carry labels of all three encodable sizes. A path is installed through the
// public AddRoute (which runs BuildBlocks); a probe is label-switched forward by
// the N real switches, turned around at the destination with
// TransformToReturnBlock and label-switched back. The oracle reads the recorded
// link crossings and the blocks seen at both ends. A second part enumerates
// all size-class vectors up to 6 hops and samples long paths (to 101 hops)
// through the same rotation function with guard bytes, including paths whose
// labels cannot fit.
package c12

import (
	"bytes"
	"fmt"
	"net/netip"
	"slices"
	"testing"
	"time"

	"github.com/mycoria/mycoria/m"

	"mycoverif/core"
	"mycoverif/ident"
	"mycoverif/mesh"
	"mycoverif/simnet"
)

var classReps = [][]m.SwitchLabel{{1, 127}, {128, 16383}, {16384, 65535}}

func drawLabel(tp *core.Tape) m.SwitchLabel {
	switch tp.Pick(4, 3, 2) {
	case 0:
		if tp.Chance(1, 3) {
			return classReps[0][tp.Intn(2)]
		}
		return m.SwitchLabel(1 + tp.Intn(127))
	case 1:
		if tp.Chance(1, 3) {
			return classReps[1][tp.Intn(2)]
		}
		return m.SwitchLabel(128 + tp.Intn(16383-128+1))
	default:
		if tp.Chance(1, 3) {
			return classReps[2][tp.Intn(2)]
		}
		return m.SwitchLabel(16384 + tp.Intn(65535-16384+1))
	}
}

func labelBytes(path m.SwitchPath) (fwd, ret int) {
	for i, h := range path.Hops {
		if i < len(path.Hops)-1 {
			fwd += h.ForwardLabel.EncodedSize()
		}
		if i > 0 {
			ret += h.ReturnLabel.EncodedSize()
		}
	}
	return
}

// directTraversal rotates the blocks of a path hop by hop with guard bytes
// around the block, exactly like N switches would, and applies the oracle.
func directTraversal(e *core.Env, path m.SwitchPath, tag string) {
	hops := path.Hops
	const guard = 7
	buf := make([]byte, guard+len(path.ForwardBlock)+guard)
	for i := range buf {
		buf[i] = 0xA5
	}
	block := buf[guard : guard+len(path.ForwardBlock) : guard+len(path.ForwardBlock)]
	copy(block, path.ForwardBlock)
	guardsOK := func(where string) {
		for i := 0; i < guard; i++ {
			if buf[i] != 0xA5 || buf[len(buf)-1-i] != 0xA5 {
				e.Fail("byte-outside-block-touched", "%s: guard byte changed %s (hops=%d)", tag, where, len(hops))
			}
		}
	}
	lastByteUsed := false
	note := func() {
		if len(block) > 0 && block[len(block)-1] != 0 {
			lastByteUsed = true
		}
	}
	note()
	for i := 0; i < len(hops); i++ {
		var next m.SwitchLabel
		var err error
		if e.Guard("panic", func() { next, err = m.NextRotateSwitchBlock(block, hops[i].ReturnLabel) }) {
			e.Fail("", "")
		}
		if err != nil {
			e.Fail("block-size-insufficient", "%s: forward rotation at hop %d/%d failed: %v (block size %d)", tag, i, len(hops), err, len(block))
		}
		if next != hops[i].ForwardLabel {
			e.Fail("wrong-forward-label", "%s: hop %d yields label %d, path says %d", tag, i, next, hops[i].ForwardLabel)
		}
		guardsOK(fmt.Sprintf("after forward rotation %d", i))
		note()
	}
	m.TransformToReturnBlock(block)
	guardsOK("after transform")
	if !bytes.Equal(block, path.ReturnBlock) {
		e.Fail("forward-traversal-does-not-reverse-to-return-block", "%s: got %x want %x", tag, block, path.ReturnBlock)
	}
	note()
	for i := len(hops) - 1; i >= 0; i-- {
		var next m.SwitchLabel
		var err error
		if e.Guard("panic", func() { next, err = m.NextRotateSwitchBlock(block, hops[i].ForwardLabel) }) {
			e.Fail("", "")
		}
		if err != nil {
			e.Fail("block-size-insufficient", "%s: return rotation at hop %d/%d failed: %v (block size %d)", tag, i, len(hops), err, len(block))
		}
		if next != hops[i].ReturnLabel {
			e.Fail("wrong-return-label", "%s: hop %d yields label %d on the way back, path says %d", tag, i, next, hops[i].ReturnLabel)
		}
		guardsOK(fmt.Sprintf("after return rotation %d", i))
		note()
	}
	m.TransformToReturnBlock(block)
	if !bytes.Equal(block, path.ForwardBlock) {
		e.Fail("return-traversal-does-not-reverse-to-forward-block", "%s: got %x want %x", tag, block, path.ForwardBlock)
	}
	if !lastByteUsed && len(block) > 0 {
		e.Fail("block-size-not-minimal", "%s: last byte of the %d-byte block never used (hops=%d)", tag, len(block), len(hops))
	}
}

// prevPath is a path value that already went through BuildBlocks in this run: a third of the
// paths are built on such a value with the hops replaced (a refreshed route), so that whatever
// BuildBlocks leaves in place from the earlier path meets the new labels.
var prevPath *m.SwitchPath

func buildPath(e *core.Env, hops []m.SwitchHop) (m.SwitchPath, error) {
	p := m.SwitchPath{Hops: hops}
	if prevPath != nil && e.Tape.Chance(1, 3) {
		p = *prevPath
		p.Hops = hops
		e.Probe("blocks_rebuilt_on_a_used_path_value")
	}
	defer func() { q := p; prevPath = &q }()
	var err error
	if e.Guard("panic-in-BuildBlocks", func() { err = p.BuildBlocks() }) {
		e.Fail("", "")
	}
	return p, err
}

func mkHops(fw, ret []m.SwitchLabel) []m.SwitchHop {
	// fw[i] forward label at hop i (len n-1), ret[i] return label at hop i+1.
	n := len(fw) + 1
	hops := make([]m.SwitchHop, n)
	for i := 0; i < n; i++ {
		var b [16]byte
		b[0], b[1], b[15], b[14] = 0xfd, 0x20, byte(i), byte(i>>8)
		hops[i].Router = netip.AddrFrom16(b)
		if i < n-1 {
			hops[i].ForwardLabel = fw[i]
		}
		if i > 0 {
			hops[i].ReturnLabel = ret[i-1]
		}
	}
	return hops
}

// needBytes is the space the rotating block needs, from first principles:
// after i rotations it holds the forward labels not yet consumed, the zero
// that terminates them, and the i return labels written so far.
func needBytes(hops []m.SwitchHop) int {
	n := len(hops)
	need := 0
	for i := 0; i <= n; i++ {
		sum := 0
		for j := i; j <= n-2; j++ {
			sum += hops[j].ForwardLabel.EncodedSize()
		}
		if i >= 1 && i <= n-1 {
			sum++ // the zero label between remaining forward and written return labels
		}
		for j := 1; j <= i-1 && j <= n-1; j++ {
			sum += hops[j].ReturnLabel.EncodedSize()
		}
		if i == n {
			sum = 0
			for j := 1; j <= n-1; j++ {
				sum += hops[j].ReturnLabel.EncodedSize()
			}
		}
		need = max(need, sum)
	}
	return need
}

func checkDirect(e *core.Env, hops []m.SwitchHop, tag string) {
	need := needBytes(hops)
	p, err := buildPath(e, hops)
	if err != nil {
		if need <= 255 {
			e.Fail("valid-path-refused", "%s: %d hops needing a %d-byte block refused: %v", tag, len(hops), need, err)
		}
		e.Probe("oversize_path_refused_with_error")
		return
	}
	if need > 255 || len(p.ForwardBlock) > 255 {
		e.Fail("oversize-path-accepted", "%s: %d hops needing %d bytes accepted with block size %d", tag, len(hops), need, len(p.ForwardBlock))
	}
	directTraversal(e, p, tag)
}

func run(e *core.Env) {
	tp := e.Tape
	prevPath = nil
	e.StartClock()

	// ---- part 1: direct traversal, enumerated and sampled ----
	switch tp.Intn(3) {
	case 0:
		// All size-class vectors for a small hop count (exhaustive over class
		// representatives: each label position takes each class, rep by tape).
		nh := 2 + tp.Intn(3) // 2..4 hops: 2*(nh-1) label positions
		pos := 2 * (nh - 1)
		total := 1
		for i := 0; i < pos; i++ {
			total *= 3
		}
		for v := 0; v < total; v++ {
			fw := make([]m.SwitchLabel, nh-1)
			ret := make([]m.SwitchLabel, nh-1)
			x := v
			for i := 0; i < nh-1; i++ {
				fw[i] = classReps[x%3][tp.Intn(2)]
				x /= 3
				ret[i] = classReps[x%3][tp.Intn(2)]
				x /= 3
			}
			checkDirect(e, mkHops(fw, ret), fmt.Sprintf("enum nh=%d v=%d", nh, v))
			e.Case(0x12, uint64(nh), uint64(v))
		}
		e.Probe("enumerated_all_class_vectors")
	case 1:
		// 5 and 6 hop vectors, sampled slices of the 3^8 / 3^10 space.
		nh := 5 + tp.Intn(2)
		for k := 0; k < 200; k++ {
			fw := make([]m.SwitchLabel, nh-1)
			ret := make([]m.SwitchLabel, nh-1)
			var code uint64
			for i := range fw {
				a, b := tp.Intn(3), tp.Intn(3)
				fw[i] = classReps[a][tp.Intn(2)]
				ret[i] = classReps[b][tp.Intn(2)]
				code = code*9 + uint64(a*3+b)
			}
			checkDirect(e, mkHops(fw, ret), fmt.Sprintf("vec nh=%d code=%d", nh, code))
			e.Case(0x12, uint64(nh), code)
		}
	default:
		// Long paths up to the 101 hops an announcement can carry.
		for k := 0; k < 12; k++ {
			nh := 2 + tp.Intn(100)
			bias := tp.Intn(4) // 0 mixed, 1 mostly 1-byte, 2 mostly 2-byte, 3 mostly 3-byte
			if tp.Chance(1, 4) {
				// Validity is a matter of label bytes, not of hops: with one-byte labels up to
				// 256 hops fit into 255 bytes. Hop counts beyond what gossip carries, with
				// weight on the powers of two and on the last count that fits.
				nh = []int{102 + tp.Intn(155), 127 + tp.Intn(4), 254 + tp.Intn(4), 128, 129, 256}[tp.Intn(6)]
				bias = 1
				e.Probe("path_longer_than_gossip_carries")
			}
			fw := make([]m.SwitchLabel, nh-1)
			ret := make([]m.SwitchLabel, nh-1)
			pick := func() m.SwitchLabel {
				if bias > 0 && (tp.Chance(4, 5) || nh > 101 && tp.Chance(19, 20)) {
					c := classReps[bias-1]
					return c[0] + m.SwitchLabel(tp.Intn(int(c[1]-c[0])+1))
				}
				return drawLabel(tp)
			}
			for i := range fw {
				fw[i], ret[i] = pick(), pick()
			}
			hops := mkHops(fw, ret)
			f, r := labelBytes(m.SwitchPath{Hops: hops})
			if f > 255 || r > 255 {
				e.Probe("oversize_path_generated")
			}
			if nh > 40 {
				e.Probe("path_longer_than_40_hops")
			}
			checkDirect(e, hops, fmt.Sprintf("long nh=%d fw=%d ret=%d", nh, f, r))
			e.Case(0x12, uint64(nh), uint64(f), uint64(r), uint64(k), uint64(tp.Len()))
		}
	}

	// ---- part 2: the same through real switches on a line mesh ----
	if !tp.Chance(2, 3) {
		return
	}
	maxN := 12
	if tp.Chance(1, 5) {
		maxN = 41
	}
	ms := mesh.Build(e, mesh.Options{MinNodes: 2, MaxNodes: maxN, Kinds: []string{"line"}, LabelFn: drawLabel})
	n := len(ms.Nodes)
	// Path along the line with the labels the links really have.
	hops := make([]m.SwitchHop, n)
	var hopIPs []netip.Addr
	for i := 0; i < n; i++ {
		hops[i].Router = ms.Nodes[i].IP
		hopIPs = append(hopIPs, ms.Nodes[i].IP)
		if i < n-1 {
			hops[i].ForwardLabel = ms.LabelAt(i, i+1)
		}
		if i > 0 {
			hops[i].ReturnLabel = ms.LabelAt(i, i-1)
		}
		if hops[i].ForwardLabel > 16383 || hops[i].ReturnLabel > 16383 {
			e.Probe("label_3_bytes_on_real_link")
		}
	}
	path := m.SwitchPath{Hops: hops}
	path.CalculateTotals()
	src, dst := ms.Nodes[0], ms.Nodes[n-1]
	var added bool
	var err error
	if tp.Chance(1, 3) {
		// The table already holds this route from an earlier announcement round, when one or two
		// links on the way still had other labels (same routers, same hop count): the path under
		// test is the refreshed one, with the labels the links have now.
		stale := append([]m.SwitchHop(nil), hops...)
		for k, c := 0, 1+tp.Intn(2); k < c; k++ {
			i := tp.Intn(n)
			if i < n-1 && (i == 0 || tp.Chance(1, 2)) {
				stale[i].ForwardLabel = drawLabel(tp)
			} else if i > 0 {
				stale[i].ReturnLabel = drawLabel(tp)
			}
		}
		if needBytes(stale) <= 255 {
			sp := m.SwitchPath{Hops: stale}
			sp.CalculateTotals()
			e.Guard("panic-in-AddRoute", func() {
				_, _ = src.Router.Table().AddRoute(m.RoutingTableEntry{
					DstIP: dst.IP, NextHop: ms.Nodes[1].IP, Path: sp, Source: m.RouteSourceGossip, Expires: time.Now().Add(30 * time.Minute),
				})
			})
			if e.Failed() {
				e.Fail("", "")
			}
			e.Probe("route_refreshed_with_changed_labels")
		}
	}
	if tp.Chance(1, 3) {
		// The table already holds three worse routes to the destination (detours over one
		// further router each, learned in an earlier round): the path under test is the fourth,
		// better one and takes the place of the worst.
		filled := 0
		for k := 0; k < 3; k++ {
			detour := ident.Get(ident.Routable, 300+k)
			at := 1 + tp.Intn(n-1)
			dh := append([]m.SwitchHop(nil), hops[:at]...)
			dh = append(dh, m.SwitchHop{Router: detour.IP, ForwardLabel: drawLabel(tp), ReturnLabel: drawLabel(tp), Delay: uint16(1 + tp.Intn(20))})
			dh = append(dh, hops[at:]...)
			if needBytes(dh) > 255 {
				continue
			}
			sp := m.SwitchPath{Hops: dh}
			sp.CalculateTotals()
			ok := false
			e.Guard("panic-in-AddRoute", func() {
				ok, _ = src.Router.Table().AddRoute(m.RoutingTableEntry{
					DstIP: dst.IP, NextHop: dh[1].Router, Path: sp, Source: m.RouteSourceGossip, Expires: time.Now().Add(30 * time.Minute),
				})
			})
			if e.Failed() {
				e.Fail("", "")
			}
			if ok {
				filled++
			}
		}
		if filled == 3 {
			e.Probe("fourth_better_route_replaces_the_worst_of_three")
		}
	}
	if e.Guard("panic-in-AddRoute", func() {
		added, err = src.Router.Table().AddRoute(m.RoutingTableEntry{
			DstIP: dst.IP, NextHop: ms.Nodes[1].IP, Path: path, Source: m.RouteSourceGossip, Expires: time.Now().Add(time.Hour),
		})
	}) {
		e.Fail("", "")
	}
	fb, rb := labelBytes(path)
	if err != nil || !added {
		if needBytes(hops) <= 255 {
			e.Fail("valid-path-refused", "AddRoute refused a %d-hop line path needing a %d-byte block: added=%v err=%v", n, needBytes(hops), added, err)
		}
		e.Probe("oversize_path_refused_with_error")
		return
	}
	if needBytes(hops) > 255 {
		e.Fail("oversize-path-accepted", "AddRoute accepted a %d-hop line path needing %d bytes", n, needBytes(hops))
	}
	var rte *m.RoutingTableEntry
	for _, en := range src.Router.Table().VerifEntries() {
		if en.DstIP == dst.IP && en.Source == m.RouteSourceGossip && len(en.Path.Hops) == n {
			cp := en
			rte = &cp
		}
	}
	if rte == nil {
		e.Fail("added-route-not-found", "route just added is not in the table")
	}

	type cross struct {
		from, to int
		block    []byte
		rest     []byte
	}
	var crossings []cross
	token := []byte(fmt.Sprintf("C12-%x", tp.Bytes(5)))
	ms.Net.OnSend = func(c *simnet.Crossing) {
		if !bytes.Contains(c.Data, token) && !bytes.Contains(c.Data, bytes.ToLower(token)) {
			return
		}
		sb := int(c.Data[48])
		rest := append(append([]byte(nil), c.Data[3:49]...), c.Data[49+sb:]...)
		crossings = append(crossings, cross{from: ms.ByIP[c.From.IP], to: ms.ByIP[c.To.IP], block: append([]byte(nil), c.Data[49:49+sb]...), rest: rest})
	}

	send := func(from, to int, fwdBlock []byte, ips []netip.Addr, payload string) []byte {
		var start, final []byte
		var first m.SwitchLabel
		var ferr error
		if e.Guard("panic", func() { start, first, final, ferr = ms.FinalBlock(fwdBlock, ips) }) {
			e.Fail("", "")
		}
		if ferr != nil {
			e.Fail("block-size-insufficient", "line n=%d labels fw=%d/ret=%d bytes block=%d: %v", n, fb, rb, len(fwdBlock), ferr)
		}
		f, err := ms.NewProbeFrame(ms.Nodes[from], ms.Nodes[to].IP, start, final, false, payload)
		if err != nil {
			e.Infra("probe: %v", err)
		}
		f.SetTTL(255)
		if err := ms.Nodes[from].Switch.ForwardByLabel(f, first); err != nil {
			e.Fail("first-label-has-no-link", "%v", err)
		}
		simnet.Wait()
		ms.Net.DrainFIFO(tp, 5000)
		ms.CheckPanics("worker-panic")
		return final
	}
	ms.TakeProbes()
	ms.AutoReply = false
	crossings = nil
	send(0, n-1, slices.Clone(rte.Path.ForwardBlock), hopIPs, string(token))
	evs := ms.TakeProbes()
	if len(evs) != 1 || evs[0].At != n-1 {
		e.Fail("label-switched-frame-not-delivered-at-destination", "line n=%d block %x: probe events %+v, crossings %d", n, rte.Path.ForwardBlock, evs, len(crossings))
	}
	if len(crossings) != n-1 {
		e.Fail("wrong-number-of-crossings", "forward: %d crossings on a %d-hop line", len(crossings), n-1)
	}
	for i, c := range crossings {
		if c.from != i || c.to != i+1 {
			e.Fail("forward-label-led-to-wrong-hop", "crossing %d went n%d->n%d", i, c.from, c.to)
		}
		if len(c.block) != len(rte.Path.ForwardBlock) {
			e.Fail("block-length-changed", "crossing %d: block %d bytes, installed %d", i, len(c.block), len(rte.Path.ForwardBlock))
		}
		if !bytes.Equal(c.rest, crossings[0].rest) {
			e.Fail("byte-outside-block-touched", "crossing %d differs outside TTL/flow/switch block", i)
		}
	}
	atDst := slices.Clone(evs[0].Switch)
	back := slices.Clone(atDst)
	m.TransformToReturnBlock(back)
	if !bytes.Equal(back, rte.Path.ReturnBlock) {
		e.Fail("forward-traversal-does-not-reverse-to-return-block", "at destination %x reverses to %x, path return block is %x", atDst, back, rte.Path.ReturnBlock)
	}
	// Way back.
	revIPs := slices.Clone(hopIPs)
	slices.Reverse(revIPs)
	crossings = nil
	send(n-1, 0, back, revIPs, string(bytes.ToLower(token)))
	evs = ms.TakeProbes()
	if len(evs) != 1 || evs[0].At != 0 {
		e.Fail("return-frame-not-delivered-at-origin", "line n=%d return block %x: probe events %+v", n, back, evs)
	}
	if len(crossings) != n-1 {
		e.Fail("wrong-number-of-crossings", "return: %d crossings on a %d-hop line", len(crossings), n-1)
	}
	for i, c := range crossings {
		if c.from != n-1-i || c.to != n-2-i {
			e.Fail("return-label-led-to-wrong-hop", "return crossing %d went n%d->n%d", i, c.from, c.to)
		}
	}
	atSrc := slices.Clone(evs[0].Switch)
	m.TransformToReturnBlock(atSrc)
	if !bytes.Equal(atSrc, rte.Path.ForwardBlock) {
		e.Fail("return-traversal-does-not-reverse-to-forward-block", "at origin reverses to %x, forward block is %x", atSrc, rte.Path.ForwardBlock)
	}
	e.Probe("mesh_round_trip_ok")
	if n > 20 {
		e.Probe("mesh_line_longer_than_20")
	}
	e.Ev("mesh", uint64(n), uint64(fb), uint64(rb), uint64(len(rte.Path.ForwardBlock)))
	e.Sample("line of %d real switches, labels %d/%d bytes, block %d bytes: forward and return traversal exact", n, fb, rb, len(rte.Path.ForwardBlock))
}

func TestCheck(t *testing.T) {
	core.Main(t, &core.Check{
		ID:             "C12",
		QuickRuns:      400,
		ThoroughRuns:   60000,
		MinimiseBudget: 150,
		Run:            run,
	})
}
