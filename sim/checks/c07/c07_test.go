// C07 Control plane: only messages authenticated as their source change router state.
//
// Simulated system: a victim router V with honest peers X and Y (and Z behind
// X), all real router nodes on simulated links; V has a stub tun device so that
// connection states exist. Honest activity makes X emit every ping kind
// towards V; each ping is captured in flight. The adversary then presents
// tampered, re-addressed and replayed copies; the state snapshot of V
// (session keys, MTU, routes, connection states, stored info, offline flags)
// must not change. The original is then delivered and the scope rules for
// disconnect and hello are checked.
package c07

import (
	"bytes"
	"fmt"
	"net/netip"
	"sort"
	"strings"
	"testing"
	"time"

	"github.com/fxamacker/cbor/v2"
	"github.com/mycoria/mycoria/frame"
	"github.com/mycoria/mycoria/m"
	"github.com/mycoria/mycoria/router"
	"github.com/mycoria/mycoria/state"
	"github.com/mycoria/mycoria/storage"

	"mycoverif/core"
	"mycoverif/ident"
	"mycoverif/mesh"
	"mycoverif/node"
	"mycoverif/simnet"
)

type snap struct {
	sessions map[netip.Addr]string
	routes   []string
	routesNX []string // without expiry
	conns    []string
	records  map[netip.Addr]string
	// probes counts the pings of the harness's own type that V's handlers have been handed so
	// far: a witness for "handled", which the other fields cannot see when a second handling
	// writes what the first one wrote.
	probes int
}

// probeCounter is set by run: the number of probe pings handed to V's handlers so far.
var probeCounter func() int

func takeSnap(v *node.Node) *snap {
	s := &snap{sessions: map[netip.Addr]string{}, records: map[netip.Addr]string{}}
	if probeCounter != nil {
		s.probes = probeCounter()
	}
	q := storage.NewRouterQuery(nil, nil, 1<<20)
	_ = v.Storage.QueryRouters(q)
	for _, r := range q.Result() {
		if r.Address == nil {
			continue
		}
		ip := r.Address.IP
		info := "nil"
		if r.PublicInfo != nil {
			info = fmt.Sprintf("%+v", *r.PublicInfo)
		}
		s.records[ip] = fmt.Sprintf("key=%x info=%s offline=%v universe=%q", r.Address.PublicKey, info, r.Offline, r.Universe)
		// Looked at without touching: asking the state for a session marks it as used and
		// asking a session for its encryption creates one - both would keep V from ever
		// forgetting a router, which the shipped cleaner does after a minute of silence.
		if sess, enc := v.State.VerifPeekSession(ip); sess != nil {
			if enc == nil || !enc.IsSetUp() {
				// (an empty encryption object that some code path created on demand holds no
				// keys: the same state as none at all)
				// A session without keys and without a reported MTU holds nothing the statement
				// lists: it counts like no session (processing any ping creates such an object).
				if sess.TunMTU() != 0 {
					s.sessions[ip] = fmt.Sprintf("enc=not set up mtu=%d", sess.TunMTU())
				}
			} else {
				h := &state.EncryptionSessionTestHelper{EncryptionSession: enc}
				s.sessions[ip] = fmt.Sprintf("enc=%p up=%v in=%x out=%x mtu=%d", enc, enc.IsSetUp(), h.InKey(), h.OutKey(), sess.TunMTU())
			}
		}
	}
	for _, en := range v.Router.Table().VerifEntries() {
		var hops []string
		for _, h := range en.Path.Hops {
			hops = append(hops, fmt.Sprintf("%s/%d/%d/%d", h.Router, h.Delay, h.ForwardLabel, h.ReturnLabel))
		}
		base := fmt.Sprintf("dst=%s nh=%s src=%v stub=%v hops=%v", en.DstIP, en.NextHop, en.Source, en.Stub, hops)
		s.routesNX = append(s.routesNX, base)
		s.routes = append(s.routes, base+" exp="+en.Expires.String())
	}
	for _, c := range v.Router.VerifConnStates() {
		s.conns = append(s.conns, fmt.Sprintf("%+v", c))
	}
	sort.Strings(s.conns)
	return s
}

func (a *snap) diff(b *snap, ignoreExpiry bool) string {
	if a.probes != b.probes {
		return fmt.Sprintf("a ping was handed to V's handlers (%d -> %d handled)", a.probes, b.probes)
	}
	for ip, x := range a.sessions {
		if y, ok := b.sessions[ip]; !ok || x != y {
			return fmt.Sprintf("session with %s: %s -> %s", ip, x, y)
		}
	}
	for ip := range b.sessions {
		if _, ok := a.sessions[ip]; !ok {
			return fmt.Sprintf("new session with %s", ip)
		}
	}
	ra, rb := a.routes, b.routes
	if ignoreExpiry {
		ra, rb = a.routesNX, b.routesNX
	}
	if strings.Join(ra, "\n") != strings.Join(rb, "\n") {
		return fmt.Sprintf("routing table changed: %d -> %d entries", len(ra), len(rb))
	}
	if strings.Join(a.conns, "\n") != strings.Join(b.conns, "\n") {
		return "connection states changed"
	}
	for ip, x := range a.records {
		if y, ok := b.records[ip]; !ok || x != y {
			return fmt.Sprintf("stored record of %s: %s -> %s", ip, x, y)
		}
	}
	for ip := range b.records {
		if _, ok := a.records[ip]; !ok {
			return fmt.Sprintf("new stored record for %s", ip)
		}
	}
	return ""
}

func pingKind(parser *frame.Builder, data []byte) (string, bool) {
	f, err := mesh.ParseCrossing(parser, data)
	if err != nil {
		return "", false
	}
	defer f.ReturnToPool()
	switch f.MessageType() {
	case frame.RouterPing, frame.RouterHopPing, frame.RouterHopPingDeprecated:
		hdr, _, ok := mesh.PingInfo(f)
		if !ok {
			return "", false
		}
		k := hdr.PingType
		if hdr.FollowUp {
			k += "-resp"
		}
		if hdr.PingType == "error" {
			k += fmt.Sprintf("-%d", hdr.PingCode)
		}
		return k, true
	case frame.RouterCtrl:
		return "ctrl", true
	}
	return "", false
}

func run(e *core.Env) {
	tp := e.Tape
	e.StartClock()
	perm := tp.Perm(12)
	ids := []*m.Address{ident.Get(ident.Routable, perm[0]), ident.Get(ident.Routable, perm[1]), ident.Get(ident.Routable, perm[2]), ident.Get(ident.Routable, perm[3])}
	edges := [][2]int{{0, 1}, {0, 2}, {1, 3}}
	if tp.Chance(1, 2) {
		edges = append(edges, [2]int{2, 3})
	}
	if tp.Chance(1, 3) {
		// V has a third peer: what V forwards on behalf of X (a disconnect notice) goes to two
		// other links, one copy each
		edges = append(edges, [2]int{0, 3})
		e.Probe("victim_with_three_peers")
	}
	// In half of the runs two more routers sit behind Z (Z - T1 - T2), and the announcements
	// that Z and T1 issue themselves never reach V (a router sheds frames when its worker is
	// busy): V then meets Z and T1 for the first time as relays inside T2's announcement.
	tail := tp.Chance(1, 2)
	nNodes := 4
	if tail {
		ids = append(ids, ident.Get(ident.Routable, perm[4]), ident.Get(ident.Routable, perm[5]))
		edges = append(edges, [2]int{3, 4}, [2]int{4, 5})
		nNodes = 6
		e.Probe("routers_first_met_as_relays")
	}
	ms := mesh.Build(e, mesh.Options{MinNodes: nNodes, MaxNodes: nNodes, Edges: edges, Idents: ids, Tun: true, TwoByteLabels: true})
	V, X, Y, Z := ms.Nodes[0], ms.Nodes[1], ms.Nodes[2], ms.Nodes[3]
	names := map[netip.Addr]string{V.IP: "V", X.IP: "X", Y.IP: "Y", Z.IP: "Z"}
	if tail {
		names[ms.Nodes[4].IP], names[ms.Nodes[5].IP] = "T1", "T2"
	}
	ghost := ident.Get(ident.Routable, 30)
	parser := frame.NewFrameBuilder()

	if tail {
		end := time.Now().Add(5*time.Second + 200*time.Millisecond)
		for guard := 0; guard < 40000; guard++ {
			var next *simnet.Packet
			for _, p := range ms.Net.Heads() {
				if p.To.Local == V && !p.EOF {
					if f, err := mesh.ParseCrossing(parser, p.Data); err == nil {
						v, isAnn := mesh.ViewAnnounce(f)
						f.ReturnToPool()
						if isAnn && (v.Origin == Z.IP || v.Origin == ms.Nodes[4].IP) {
							ms.Net.Remove(p)
							e.Fault("drop")
							continue
						}
					}
				}
				next = p
				break
			}
			if next != nil {
				ms.Net.Deliver(next)
				continue
			}
			if !time.Now().Before(end) {
				break
			}
			time.Sleep(50 * time.Millisecond)
			simnet.Wait()
		}
	} else {
		ms.Net.RunFor(tp, 5*time.Second+200*time.Millisecond, 20000)
		ms.Net.DrainFIFO(tp, 20000)
	}
	// End-to-end keys V<->X (both directions of hello are exercised later again).
	if _, err := X.Router.HelloPing.Send(V.IP); err == nil {
		simnet.Wait()
		ms.Net.DrainFIFO(tp, 2000)
	}
	// Connection states at V: local packets towards Z and X.
	mkPkt := func(dst netip.Addr, proto uint8, dport uint16) {
		p := make([]byte, 60)
		p[0] = 6 << 4
		p[6] = proto
		s, d := V.IP.As16(), dst.As16()
		copy(p[8:24], s[:])
		copy(p[24:40], d[:])
		m.PutUint16(p[40:42], 40000)
		m.PutUint16(p[42:44], dport)
		buf := V.Inst.Builder.GetPooledSlice(len(p))
		copy(buf, p)
		V.Tun.RecvRaw <- buf[:len(p)]
		simnet.Wait()
		ms.Net.RunFor(tp, 400*time.Millisecond, 5000)
	}
	mkPkt(Z.IP, 6, 443)
	mkPkt(X.IP, 17, 53)
	drainTun := func() {
		for _, n := range ms.Nodes {
			for {
				select {
				case f := <-n.Tun.SendFrame:
					f.ReturnToPool()
					continue
				case <-n.Tun.SendRaw:
					continue
				default:
				}
				break
			}
		}
	}
	drainTun()

	linkXV := func() *simnet.Link {
		for _, l := range ms.Net.Links() {
			if l.Local == X && l.Remote == V {
				return l
			}
		}
		return nil
	}()
	linkYV := func() *simnet.Link {
		for _, l := range ms.Net.Links() {
			if l.Local == Y && l.Remote == V {
				return l
			}
		}
		return nil
	}()

	// When V last got a frame that names a given router as its source (honest or injected):
	// looking up the session of a frame's source marks that session as used, and the cleaner
	// only drops sessions that were not used for a minute. A session that is gone although its
	// router was heard less than a minute ago was not dropped by the cleaner.
	heard := map[netip.Addr][]time.Time{}
	hear := func(data []byte) {
		if len(data) >= 48 {
			src := netip.AddrFrom16([16]byte(data[16:32]))
			heard[src] = append(heard[src], time.Now())
		}
	}
	ms.Net.OnSend = func(c *simnet.Crossing) {
		if c.To == V {
			hear(c.Data)
		}
	}
	inject := func(from *simnet.Link, data []byte) {
		hear(data)
		p := &simnet.Packet{Conn: from.ConnID(), Dir: 9, Seq: 1, From: from, To: from.Other, Data: data, Tag: "adv", NoDelay: true}
		ms.Net.DeliverRaw(p)
		simnet.Wait()
	}
	// expiryClass names a replay that met another session object than the original: the recorded
	// finding if the cleaner can have dropped the session, a violation of its own otherwise.
	expiryClass := func(src netip.Addr, since time.Time) string {
		// the longest silence of src (as V heard it) since the original was delivered
		prev, longest := since, time.Duration(0)
		for _, t := range heard[src] {
			if t.Before(since) {
				continue
			}
			longest = max(longest, t.Sub(prev))
			prev = t
		}
		longest = max(longest, time.Since(prev))
		if longest < 50*time.Second {
			return "replayed-after-session-vanished-without-expiry"
		}
		return "replayed-after-session-expiry"
	}
	// trial presents a tampered copy and demands an unchanged snapshot.
	trial := func(kind, what string, from *simnet.Link, data []byte, ignoreExpiry bool) {
		before := takeSnap(V)
		if e.Trace {
			e.Logf("trial %s %s at %s", kind, what, time.Now().Format("15:04:05.000"))
		}
		inject(from, data)
		after := takeSnap(V)
		ms.CheckPanics("worker-panic")
		if d := before.diff(after, ignoreExpiry); d != "" {
			cls := "state-changed-by-" + what + "/" + kind
			if strings.HasPrefix(what, "replayed-after-session-") {
				cls = "state-changed-by-" + what
			}
			e.Fail(cls, "a %s %s ping changed V's state: %s", what, kind, d)
		}
		e.Case(0x07, uint64(len(kind)), uint64(len(what)), uint64(len(data)), uint64(data[len(data)/2]))
	}

	probeTotal := 0
	probeCounter = func() int {
		for _, ev := range ms.TakeProbes() {
			if ev.At == 0 {
				probeTotal++
			}
		}
		return probeTotal
	}
	e.Cleanup(func() { probeCounter = nil })

	var library [][]byte // captured pings for later replays
	var libKinds []string
	var libSrc []netip.Addr
	var libAt []time.Time        // when the original was delivered
	var libSess []*state.Session // V's session object for the source when the original was delivered
	errCool := map[string]time.Time{}

	nOps := 6 + tp.Intn(20)
	for op := 0; op < nOps; op++ {
		e.Step()
		// ---- make X emit a ping towards V ----
		before := map[*simnet.Packet]bool{}
		for _, p := range ms.Net.Pending() {
			before[p] = true
		}
		want := tp.Intn(14)
		switch want {
		case 13:
			// a ping of the harness's own type from X to V (a signed router ping, handled by a
			// handler that only counts): every copy, changed or not, that reaches that handler a
			// second time shows in the count
			if pf, err := ms.NewProbeFrame(X, V.IP, nil, nil, false, fmt.Sprintf("c07 %d", op)); err == nil {
				pf.SetTTL(31)
				_ = linkXV.SendPriority(pf)
				e.Probe("counting_ping_sent_to_the_victim")
			}
		case 12:
			// X's clock runs ahead (there is one clock in this simulation, so the harness stamps
			// the frame): a ping of X signed for a time minutes to hours from now. V has no rule
			// against that and accepts it - from then on it is the newest frame of X. A copy of
			// an earlier ping of X, stamped about now, is older than that and changes nothing.
			if op < nOps*2/3 {
				continue // (afterwards V takes nothing from X any more: towards the end of a run only)
			}
			ahead := []time.Duration{2 * time.Minute, 10 * time.Minute, time.Hour, 26 * time.Hour}[tp.Intn(4)]
			pmsg, _ := cbor.Marshal(map[string]string{"msg": "ping"})
			body := mesh.PingBody(X, "pong", uint64(tp.Uint32())+1, 0, false, pmsg)
			if ff, err := X.Inst.Builder.NewFrameV1(X.IP, V.IP, frame.RouterPing, nil, body, nil); err == nil {
				ff.SetTTL(0)
				ff.SetSequenceTime(time.Now().Add(ahead).Round(time.Millisecond))
				_ = ff.SignRaw(X.ID.PrivateKey)
				ff.SetTTL(31)
				_ = linkXV.SendPriority(ff)
				simnet.Wait()
				ms.Net.DrainFIFO(tp, 500)
				e.Fault("clock_skew")
				e.Probe("ping_stamped_ahead_of_the_clock")
				var mine []int
				for k := range library {
					if libSrc[k] == X.IP {
						mine = append(mine, k)
					}
				}
				for n := 0; n < 3 && len(mine) > 0; n++ {
					k := mine[tp.Intn(len(mine))]
					trial(libKinds[k], "replayed-after-a-ping-stamped-ahead", linkXV, append([]byte(nil), library[k]...), false)
					e.Fault("replay_old")
				}
			}
			continue
		case 0:
			// X starts a key setup as the shipped code does when it has no keys for V (any more)
			_ = X.State.SetEncryptionSession(V.IP, nil)
			_, _ = X.Router.HelloPing.Send(V.IP)
		case 1: // V asks, X answers: capture the response
			_ = V.State.SetEncryptionSession(X.IP, nil)
			_, _ = V.Router.HelloPing.Send(X.IP)
			simnet.Wait()
			for _, p := range ms.Net.Pending() {
				if p.From.Local == V {
					ms.Net.Deliver(p)
				}
			}
		case 2:
			_, _, _ = X.Router.PingPong.Send(V.IP, true, 0)
		case 3:
			_, _, _ = V.Router.PingPong.Send(X.IP, true, 0)
			simnet.Wait()
			for _, p := range ms.Net.Pending() {
				if p.From.Local == V {
					ms.Net.Deliver(p)
				}
			}
		case 4:
			_ = X.Router.ErrorPing.SendGeneric(V.IP, "something")
		case 5:
			_ = X.Router.ErrorPing.SendUnreachable(V.IP, Z.IP)
		case 6:
			_ = X.Router.ErrorPing.SendNoEncryptionKeys(V.IP)
		case 7:
			if tp.Chance(1, 2) {
				_ = X.Router.ErrorPing.SendAccessDenied(V.IP, X.IP, 17, 53)
			} else {
				_ = X.Router.ErrorPing.SendRejected(V.IP, X.IP, 17, 53)
			}
		case 8:
			if tp.Chance(1, 3) {
				// as the shipped sender addresses it (to the router address: receivers route it on)
				_ = X.Router.DisconnectPing.Send(tp.Chance(1, 2), []netip.Addr{Z.IP})
				break
			}
			if lzx := Z.Peering.GetLink(X.IP); lzx != nil && tp.Chance(1, 3) {
				// A disconnect notice of a router that is not the peer it arrives from: Z tells
				// its neighbours (hop ping) that it goes down or has lost routers; X handles it
				// and passes it on to V. What V may remove are routes that contain Z - not its
				// link to X, nor anything else that merely came the same way.
				dmsg, _ := cbor.Marshal(&router.DisconnectPingMsg{GoingDown: tp.Chance(2, 3), Disconnected: []netip.Addr{ghost.IP}})
				body := mesh.PingBody(Z, "disconnect", uint64(tp.Uint32())+1, 0, false, dmsg)
				if df, err := Z.Inst.Builder.NewFrameV1(Z.IP, m.RouterAddress, frame.RouterHopPing, nil, body, nil); err == nil {
					if err := df.Seal(Z.State.GetSession(V.IP)); err != nil {
						e.Infra("seal disconnect: %v", err)
					}
					df.SetTTL(31)
					_ = lzx.SendPriority(df)
					simnet.Wait()
					for hop := 0; hop < 3; hop++ {
						for _, p := range ms.Net.Pending() {
							if !before[p] && p.To.Local != V {
								ms.Net.Deliver(p)
							}
						}
						simnet.Wait()
					}
					e.Probe("disconnect_notice_of_a_router_relayed_by_a_peer")
				}
				break
			}
			// A disconnect notice that V itself has to handle: addressed to V, or sent as a hop
			// ping - built like the shipped sender builds it, signed by X for V.
			dmsg, _ := cbor.Marshal(&router.DisconnectPingMsg{GoingDown: tp.Chance(1, 3), Disconnected: []netip.Addr{Z.IP}})
			body := mesh.PingBody(X, "disconnect", uint64(tp.Uint32())+1, 0, false, dmsg)
			mt, dst := frame.RouterPing, V.IP
			if tp.Chance(1, 3) {
				mt, dst = frame.RouterHopPing, m.RouterAddress
			}
			if df, err := X.Inst.Builder.NewFrameV1(X.IP, dst, mt, nil, body, nil); err == nil {
				if err := df.Seal(X.State.GetSession(V.IP)); err != nil {
					e.Infra("seal disconnect: %v", err)
				}
				df.SetTTL(31)
				_ = linkXV.SendPriority(df)
				e.Probe("disconnect_ping_addressed_to_the_victim")
			}
		case 9:
			_ = X.Router.AnnouncePing.Send(V.IP)
		case 10, 11:
			// a router that is not V's peer reports an error to V; the ping is routed over X
			far := Z
			if tail && tp.Chance(2, 3) {
				far = ms.Nodes[4+tp.Intn(2)]
			}
			switch tp.Intn(3) {
			case 0:
				_ = far.Router.ErrorPing.SendUnreachable(V.IP, X.IP)
			case 1:
				_ = far.Router.ErrorPing.SendGeneric(V.IP, "something else")
			default:
				_ = far.Router.ErrorPing.SendAccessDenied(V.IP, Z.IP, 6, 443)
			}
			simnet.Wait()
			for hop := 0; hop < 4; hop++ {
				for _, p := range ms.Net.Pending() {
					if !before[p] && p.To.Local != V {
						ms.Net.Deliver(p)
					}
				}
				simnet.Wait()
			}
		}
		_ = errCool
		simnet.Wait()
		var captured []*simnet.Packet
		for _, p := range ms.Net.Pending() {
			if !before[p] && p.From.Local == X && p.To.Local == V && !p.EOF {
				captured = append(captured, p)
			}
		}
		for _, p := range captured {
			kind, ok := pingKind(parser, p.Data)
			if !ok {
				continue
			}
			e.Probe("captured_" + kind)
			orig := append([]byte(nil), p.Data...)
			sb := int(orig[48])
			msgStart := 49 + sb + 2
			// (a) byte mutations in protected positions
			for k, n := 0, 2+tp.Intn(6); k < n; k++ {
				mut := append([]byte(nil), orig...)
				var pos int
				switch tp.Intn(4) {
				case 0:
					pos = 3 + tp.Intn(45) // header incl. recv rate, type, nonce, sequence, addresses
					if pos < 3 {
						pos = 3
					}
				case 1:
					pos = len(mut) - 1 - tp.Intn(min(64, len(mut)-msgStart)) // auth
				default:
					pos = msgStart + tp.Intn(len(mut)-msgStart) // body / auth
				}
				if f, err := mesh.ParseCrossing(parser, orig); err == nil {
					apx := len(f.AppendixData())
					f.ReturnToPool()
					if apx > 0 && pos >= len(mut)-apx {
						pos = msgStart // appendix (hop records) is C08's subject
					}
				}
				mut[pos] ^= 1 << tp.Intn(8)
				trial(kind, "tampered", linkXV, mut, false)
				e.Fault("corrupt_bit")
			}
			// (a') message type rewritten to each other ping type
			for _, nt := range []byte{0, 1, 2, 3} {
				if orig[4] == nt || !tp.Chance(1, 2) {
					continue
				}
				mut := append([]byte(nil), orig...)
				mut[4] = nt
				trial(kind, "type-rewritten", linkXV, mut, false)
				e.Fault("corrupt_field")
			}
			// (a'') correctly framed but signed with a foreign key: the header still carries X's key
			if orig[4] != 2 && tp.Chance(1, 2) {
				for _, nt := range []byte{orig[4], 0, 1, 3} {
					mut := append([]byte(nil), orig...)
					mut[4] = nt
					if f, err := mesh.ParseCrossing(parser, mut); err == nil {
						if fv, ok := f.(*frame.FrameV1); ok {
							ttl := fv.TTL()
							fv.SetTTL(0)
							clear(fv.AuthData())
							_ = fv.SignRaw(ghost.PrivateKey)
							fv.SetTTL(ttl)
							d, _ := fv.FrameDataWithMargins(0, 0)
							trial(kind, "forged-signature", linkXV, append([]byte(nil), d...), false)
							e.Fault("inject")
						}
						f.ReturnToPool()
					}
				}
			}
			// (a''') the source rewritten to another router of the mesh, signed correctly - but by
			// a third router's key: which key V holds for a router must not depend on what else it
			// has seen
			if orig[4] != 2 && tp.Chance(1, 3) {
				for _, h := range ms.Nodes {
					if h == V || h == X {
						continue
					}
					for _, q := range ms.Nodes {
						if q == V || q == h {
							continue
						}
						mut := append([]byte(nil), orig...)
						a := h.IP.As16()
						copy(mut[16:32], a[:])
						if f, err := mesh.ParseCrossing(parser, mut); err == nil {
							if fv, ok := f.(*frame.FrameV1); ok {
								ttl := fv.TTL()
								fv.SetTTL(0)
								clear(fv.AuthData())
								_ = fv.SignRaw(q.ID.PrivateKey)
								fv.SetTTL(ttl)
								d, _ := fv.FrameDataWithMargins(0, 0)
								trial(kind, "signed-by-third-router", linkXV, append([]byte(nil), d...), false)
								e.Fault("inject")
							}
							f.ReturnToPool()
						}
					}
				}
			}
			// (b) re-addressed
			for _, variant := range []int{0, 1, 2} {
				mut := append([]byte(nil), orig...)
				switch variant {
				case 0:
					a := Y.IP.As16()
					copy(mut[16:32], a[:])
				case 1:
					a := ghost.IP.As16()
					copy(mut[16:32], a[:])
				case 2:
					a := Z.IP.As16()
					copy(mut[32:48], a[:])
				}
				if tp.Chance(1, 2) {
					trial(kind, "re-addressed", linkXV, mut, false)
					e.Fault("readdress")
				}
			}
			// (d) announcement delivered over a link whose peer is not the outermost signer
			if kind == "announce" && tp.Chance(1, 2) {
				trial(kind, "wrong-link", linkYV, append([]byte(nil), orig...), false)
				e.Fault("wrong_link")
			}
			library = append(library, orig)
			libKinds = append(libKinds, kind)
			libSrc = append(libSrc, netip.AddrFrom16([16]byte(orig[16:32])))
			libSess = append(libSess, nil)
			libAt = append(libAt, time.Now())

			// ---- honest delivery of the original ----
			pre := takeSnap(V)
			preRoutes := V.Router.Table().VerifEntries()
			ms.Net.Deliver(p)
			libSess[len(libSess)-1], _ = V.State.VerifPeekSession(libSrc[len(libSrc)-1])
			post := takeSnap(V)
			ms.CheckPanics("worker-panic")
			switch {
			case kind == "disconnect":
				// removed routes must all contain the router the notice is from
				X := X
				if src := libSrc[len(libSrc)-1]; src != X.IP {
					for _, nd := range ms.Nodes {
						if nd.IP == src {
							X = nd
						}
					}
					e.Probe("valid_disconnect_of_a_router_that_is_not_the_delivering_peer")
				}
				postSet := map[string]bool{}
				for _, r := range post.routesNX {
					postSet[r] = true
				}
				for i, r := range pre.routesNX {
					if postSet[r] {
						continue
					}
					en := preRoutes[i]
					has := en.DstIP == X.IP || en.NextHop == X.IP
					for _, h := range en.Path.Hops {
						if h.Router == X.IP {
							has = true
						}
					}
					if !has {
						e.Fail("disconnect-removed-unrelated-route", "disconnect from %s removed the route to %s via %s, which does not contain %s", names[X.IP], names[en.DstIP], names[en.NextHop], names[X.IP])
					}
				}
				e.Probe("valid_disconnect_handled")
			case kind == "hello" || kind == "hello-resp":
				for ip, s := range pre.sessions {
					if ip != X.IP && post.sessions[ip] != s {
						e.Fail("hello-rekeyed-other-session", "hello from X changed V's session with %s", names[ip])
					}
				}
				e.Probe("valid_hello_handled")
			}
			// (c) immediate replay of the original
			if tp.Chance(2, 3) {
				hop := kind == "announce"
				trial(kind, "replayed", linkXV, append([]byte(nil), orig...), hop)
				e.Fault("replay")
			}
			// (c'') Wave 14: a tampered copy of the ping V has just accepted. Its sequence stamp is the
			// newest one V knows from X - whatever V does with frames it takes for repetitions, an
			// altered body (or signature) must not get handled.
			if tp.Chance(1, 2) {
				apx := 0
				if f, err := mesh.ParseCrossing(parser, orig); err == nil {
					apx = len(f.AppendixData())
					f.ReturnToPool()
				}
				if span := len(orig) - apx - msgStart; span > 0 {
					for k, n := 0, 1+tp.Intn(3); k < n; k++ {
						mut := append([]byte(nil), orig...)
						mut[msgStart+tp.Intn(span)] ^= 1 << tp.Intn(8)
						trial(kind, "tampered-after-delivery", linkXV, mut, false)
						e.Fault("corrupt_bit")
					}
					e.Probe("tampered_copy_of_the_newest_accepted_ping")
				}
			}
			// (c+) replay at an exact distance: the ping just handled was sealed in the encrypted
			// priority class (error reports travel that way once keys exist) and is the newest frame
			// of that class V has from X. X then seals frames that are lost, so that the next frame V
			// gets from X is exactly 63, 64 or 65 numbers ahead - the edge of what V keeps track of -
			// and the copy of the old ping comes after it.
			if len(orig) > 52 && frame.MessageType(orig[4]).Class() == frame.MessageClassPriorityEncrypted && tp.Chance(1, 3) {
				if xs := X.State.GetSession(V.IP); xs != nil && xs.Encryption().IsSetUp() {
					if pf, err := mesh.ParseCrossing(parser, orig); err == nil {
						sOrig := pf.(*frame.FrameV1).SequenceNum()
						pf.ReturnToPool()
						sealCtrl := func(txt string) (uint32, []byte) {
							body := mesh.PingBody(X, mesh.ProbeType, uint64(tp.Uint32())+1, 0, true, []byte(txt))
							cf, err := X.Inst.Builder.NewFrameV1(X.IP, V.IP, frame.RouterCtrl, nil, body, nil)
							if err != nil {
								return 0, nil
							}
							defer cf.ReturnToPool()
							if err := cf.Seal(xs); err != nil {
								return 0, nil
							}
							cf.SetTTL(31)
							d, _ := cf.FrameDataWithMargins(0, 0)
							return cf.SequenceNum(), append([]byte(nil), d...)
						}
						if n1, _ := sealCtrl("lost"); n1 == sOrig+1 && sOrig < 0xFFFF0000 {
							d := uint32([]int{64, 64, 63, 65}[tp.Intn(4)])
							xh := &state.EncryptionSessionTestHelper{EncryptionSession: xs.Encryption()}
							xh.PrioSetOut(sOrig + d - 1) // (the numbers in between stand for lost frames)
							if n2, newer := sealCtrl("newer"); newer != nil && n2 == sOrig+d {
								inject(linkXV, newer)
								if tp.Chance(1, 2) {
									// ... after what the old ping did has worn off (connection states of
									// refused flows are kept for seconds): a copy that is handled again
									// shows
									ms.Net.RunFor(tp, time.Duration(11+tp.Intn(30))*time.Second, 20000)
									e.Fault("clock_jump")
								}
								trial(kind, "replayed-at-exact-distance", linkXV, append([]byte(nil), orig...), false)
								e.Fault("replay_old")
								e.Probe("replay_at_the_edge_of_the_window")
							}
						}
					}
				}
			}
		}
		// honest network continues
		ms.Net.RunFor(tp, time.Duration(100+tp.Intn(900))*time.Millisecond, 5000)
		drainTun()
		// (c') replay of an older captured ping after further traffic / time
		if len(library) > 0 && tp.Chance(1, 2) {
			if tp.Chance(1, 3) {
				ms.Net.RunFor(tp, time.Duration(11+tp.Intn(40))*time.Second, 20000)
				e.Fault("clock_jump")
			}
			k := tp.Intn(len(library))
			what := "replayed-later"
			if now, _ := V.State.VerifPeekSession(libSrc[k]); libSess[k] != nil && now != libSess[k] {
				// also here the source's session may have been dropped meanwhile (several short
				// clock jumps add up to more than a minute): the recorded finding, not a new one
				what = expiryClass(libSrc[k], libAt[k])
				e.Probe("replay_after_session_expiry")
			}
			if libKinds[k] == "announce" && libSrc[k] == X.IP && tp.Chance(1, 2) {
				// The state the announcement created is gone again - the link to X flapped, which
				// takes X's routes out of V's table - and X has sent V a newer signed ping since.
				// The old announcement must stay dead: anything newer of X has been seen.
				_, _, _ = X.Router.PingPong.Send(V.IP, true, 0) // (error pings have a 10 s send cool-down)
				simnet.Wait()
				ms.Net.DrainFIFO(tp, 500)
				V.Router.Table().RemoveNextHop(X.IP)
				what = "replayed-after-newer-ping-and-link-flap"
				e.Fault("link_flap")
			}
			trial(libKinds[k], what, linkXV, append([]byte(nil), library[k]...), libKinds[k] == "announce")
			e.Fault("replay_old")
		}
		// (c'') replay after minutes of silence: V's cleaner drops idle sessions (after one
		// minute without keys, one hour with keys) - and with a session its memory of what the
		// source has already sent. Whether that happened is read off the identity of the
		// session object, without touching it.
		if len(library) > 0 && tp.Chance(1, 6) {
			k := tp.Intn(len(library))
			for tries := 0; tries < 4 && (libSrc[k] == X.IP || libKinds[k] == "announce"); tries++ {
				k = tp.Intn(len(library)) // prefer a ping of a router V is not in steady contact with
			}
			ms.Net.RunFor(tp, time.Duration(70+tp.Intn(120))*time.Second, 60000)
			// The adversary simply keeps trying: here it waits (in steps of 20 s, at most 7 min)
			// for a moment at which V holds no session for the source - dropped by the cleaner
			// and not yet re-created by the source's next announcement.
			for w := 0; w < 21; w++ {
				if now, _ := V.State.VerifPeekSession(libSrc[k]); now == nil {
					break
				}
				ms.Net.RunFor(tp, 20*time.Second, 20000)
			}
			drainTun()
			e.Fault("clock_jump")
			// V's own traffic goes on: it holds live connection states again
			mkPkt(Z.IP, 6, 443)
			mkPkt(X.IP, 17, 53)
			drainTun()
			// While V holds no session for the source (the state in which a frame of that source
			// is a first contact again), changed and forged copies of the old ping are presented
			// first: looking up or creating the session of a claimed source is not a reason to
			// change anything V has stored about that router - in half of the cases the router
			// had announced that it goes offline (what the disconnect handler records).
			if now, _ := V.State.VerifPeekSession(libSrc[k]); now == nil && libSrc[k] != V.IP {
				if r, err := V.Storage.GetRouter(libSrc[k]); err == nil && r != nil && tp.Chance(1, 2) {
					_ = V.State.MarkRouterOffline(libSrc[k])
					e.Probe("source_marked_offline_before_unauthenticated_frames")
				}
				orig := library[k]
				msgStart := 49 + int(orig[48]) + 2
				mut := append([]byte(nil), orig...)
				pos := msgStart + tp.Intn(len(mut)-msgStart)
				if f, err := mesh.ParseCrossing(parser, orig); err == nil {
					if apx := len(f.AppendixData()); apx > 0 && pos >= len(mut)-apx {
						pos = msgStart
					}
					f.ReturnToPool()
				}
				mut[pos] ^= 1 << tp.Intn(8)
				trial(libKinds[k], "tampered-without-session", linkXV, mut, false)
				e.Fault("corrupt_bit")
				if f, err := mesh.ParseCrossing(parser, append([]byte(nil), orig...)); err == nil {
					if fv, ok := f.(*frame.FrameV1); ok && orig[4] != 2 {
						ttl := fv.TTL()
						fv.SetTTL(0)
						clear(fv.AuthData())
						fv.SetSequenceTime(time.Now().Round(time.Millisecond))
						_ = fv.SignRaw(ghost.PrivateKey)
						fv.SetTTL(ttl)
						d, _ := fv.FrameDataWithMargins(0, 0)
						trial(libKinds[k], "forged-signature-without-session", linkXV, append([]byte(nil), d...), false)
						e.Fault("inject")
					}
					f.ReturnToPool()
				}
				e.Probe("unauthenticated_frames_without_session")
			}
			what := "replayed-later"
			if now, _ := V.State.VerifPeekSession(libSrc[k]); libSess[k] != nil && now != libSess[k] {
				what = expiryClass(libSrc[k], libAt[k])
				e.Probe("replay_after_session_expiry")
			}
			trial(libKinds[k], what, linkXV, append([]byte(nil), library[k]...), libKinds[k] == "announce")
			e.Fault("replay_old")
		}
	}
	e.Sample("captured %d pings of kinds %v", len(library), libKinds)
	_ = bytes.Equal
}

func TestCheck(t *testing.T) {
	core.Main(t, &core.Check{
		ID:             "C07",
		QuickRuns:      160,
		ThoroughRuns:   24000,
		MinimiseBudget: 80,
		Run:            run,
	})
}
