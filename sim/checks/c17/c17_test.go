// C17 Frame copies and buffer reuse are exact and isolated.
//
// Simulated system: the real frame package compiled against a simulated
// sync.Pool (import-path overlay): which free buffer / frame object a Get hands
// out is decided by the tape (biased to the most recently returned one, to
// maximise aliasing), buffers are poisoned while they sit in the pool and get
// back exactly what was put when they are handed out again. The tape draws
// histories of new / parse / clone / reply / set-appendix / setters / release
// with sizes at every pooled-buffer tier boundary; after every operation every
// live frame must equal its shadow copy.
package c17

import (
	"bytes"
	"fmt"
	"net"
	"net/netip"
	"testing"
	"unsafe"

	"github.com/mycoria/mycoria/frame"
	"github.com/mycoria/mycoria/m"

	"mycoverif/core"
	"mycoverif/simsync"
)

// fakeLink stands for a router's link object. A link may start closing while frames received
// on it are still being handled (and copied): closing is a state the tape switches.
type fakeLink struct {
	id      int
	closing bool
}

func (l *fakeLink) String() string                              { return fmt.Sprintf("link%d", l.id) }
func (l *fakeLink) Peer() netip.Addr                            { return netip.Addr{} }
func (l *fakeLink) SwitchLabel() m.SwitchLabel                  { return m.SwitchLabel(l.id) }
func (l *fakeLink) PeeringURL() *m.PeeringURL                   { return nil }
func (l *fakeLink) Outgoing() bool                              { return false }
func (l *fakeLink) SendPriority(f frame.Frame) error            { return nil }
func (l *fakeLink) Send(f frame.Frame) error                    { return nil }
func (l *fakeLink) LocalAddr() net.Addr                         { return nil }
func (l *fakeLink) RemoteAddr() net.Addr                        { return nil }
func (l *fakeLink) Latency() uint16                             { return 0 }
func (l *fakeLink) FlowControlIndicator() frame.FlowControlFlag { return 0 }
func (l *fakeLink) IsClosing() bool                             { return l.closing }

type shadow struct {
	id     int
	f      frame.Frame
	data   []byte
	src    netip.Addr
	dst    netip.Addr
	link   frame.LinkAccessor
	sbLen  int
	msgLen int
	auth   int
	how    string
	// unspecified: a refused reply left this frame in a state the statement says nothing
	// about; its own content is no longer compared, it is only kept to be released later.
	unspecified bool
}

var tiers = []int{600, 1600, 5100, 9600, 65675}

var msgTypes = []frame.MessageType{
	frame.RouterHopPingDeprecated, frame.RouterPing, frame.RouterCtrl, frame.RouterHopPing,
	frame.NetworkTraffic, frame.SessionCtrl, frame.SessionData,
}

func addr(tp *core.Tape) netip.Addr {
	var b [16]byte
	copy(b[:], tp.Bytes(16))
	b[0] = 0xfd
	return netip.AddrFrom16(b)
}

func authSize(mt frame.MessageType) int {
	if mt.IsEncrypted() {
		return 16
	}
	return 64
}

func run(e *core.Env) {
	tp := e.Tape

	// ---- simulated pool ----
	saved := map[unsafe.Pointer][]byte{}
	simsync.SetPoolControl(&simsync.PoolControl{
		Choose: func(n int) int {
			switch tp.Pick(6, 2, 2) {
			case 0:
				e.Fault("pool_reuse_most_recent")
				return n - 1
			case 1:
				e.Fault("pool_reuse_random")
				return tp.Intn(n)
			default:
				return -1
			}
		},
		OnPut: func(x any) {
			if b, ok := x.([]byte); ok && len(b) > 0 {
				b = b[:cap(b)]
				saved[unsafe.Pointer(&b[0])] = append([]byte(nil), b...)
				for i := range b {
					b[i] = 0xA5 // poison: any later read through a stale reference shows
				}
			}
		},
		OnGet: func(x any, recycled bool) {
			if b, ok := x.([]byte); ok && recycled && len(b) > 0 {
				b = b[:cap(b)]
				if s, ok := saved[unsafe.Pointer(&b[0])]; ok {
					copy(b, s) // hand out exactly what was put, as sync.Pool would
					delete(saved, unsafe.Pointer(&b[0]))
				}
			}
		},
	})
	e.Cleanup(func() { simsync.SetPoolControl(nil) })

	b := frame.NewFrameBuilder()
	off, ov := tp.Intn(101), tp.Intn(101)
	if tp.Chance(1, 2) {
		off, ov = 12, 16
	}
	b.SetFrameMargins(off, ov)
	links := []*fakeLink{{id: 1}, {id: 2}, {id: 3}}

	var live []*shadow
	var limbo []*shadow // frames whose reply was refused: kept aside, released later
	nextID := 0
	var hist []string
	fail := func(class, format string, args ...any) {
		e.Fail(class, "%s | margins %d/%d | history: %v", fmt.Sprintf(format, args...), off, ov, hist)
	}

	verifyOne := func(s *shadow, after string) {
		var d []byte
		var err error
		if e.Guard("panic", func() { d, err = s.f.FrameDataWithMargins(0, 0) }) {
			e.Fail("", "")
		}
		if err != nil {
			fail("live-frame-unreadable", "frame #%d (%s) after %s: %v", s.id, s.how, after, err)
		}
		if !bytes.Equal(d, s.data) {
			i := 0
			for i < len(d) && i < len(s.data) && d[i] == s.data[i] {
				i++
			}
			kind := "content-changed"
			if i < len(d) && d[i] == 0xA5 {
				kind = "reads-released-buffer"
			}
			fail("live-frame-"+kind, "frame #%d (%s) changed after %s: len %d->%d, first difference at byte %d", s.id, s.how, after, len(s.data), len(d), i)
		}
		if s.f.SrcIP() != s.src || s.f.DstIP() != s.dst {
			fail("live-frame-address-changed", "frame #%d (%s) after %s: addresses %s>%s, expected %s>%s", s.id, s.how, after, s.f.SrcIP(), s.f.DstIP(), s.src, s.dst)
		}
		if got := s.f.RecvLink(); got != s.link {
			if (got == nil) != (s.link == nil) || got != s.link {
				fail("live-frame-link-changed", "frame #%d (%s) after %s: recv link %v, expected %v", s.id, s.how, after, got, s.link)
			}
		}
		if len(s.f.SwitchBlock()) != s.sbLen || len(s.f.MessageData()) != s.msgLen || len(s.f.AuthData()) != s.auth ||
			len(s.f.AppendixData()) != len(s.data)-(51+s.sbLen+s.msgLen+s.auth) {
			fail("live-frame-indices-changed", "frame #%d (%s) after %s: parsed ranges changed", s.id, s.how, after)
		}
	}
	verifyAll := func(after string) {
		for _, s := range live {
			if s.unspecified {
				continue
			}
			verifyOne(s, after)
		}
	}

	pickSizes := func() (mt frame.MessageType, sb, msg, apx int) {
		mt = msgTypes[tp.Intn(len(msgTypes))]
		a := authSize(mt)
		sb = 0
		if tp.Chance(1, 2) {
			sb = tp.Intn(256)
		}
		apx = 0
		if tp.Chance(1, 2) {
			apx = tp.Intn(300)
		}
		if tp.Chance(2, 3) {
			// aim the required buffer size at a tier boundary (-1, 0, +1)
			target := tiers[tp.Intn(4)] + tp.Intn(3) - 1
			fixed := off + 51 + sb + a + apx + ov
			msg = target - fixed
			if msg > 10000 {
				apx = min(10000, apx+msg-10000)
				msg = 10000
			}
			if msg < 1 {
				msg = 1 + tp.Intn(50)
			}
			e.Probe("size_at_tier_boundary")
		} else {
			msg = 1 + tp.Intn(700)
		}
		return
	}

	checkFresh := func(s *shadow, mt frame.MessageType, sbD, msgD, apxD []byte, how string, newBuffer bool) {
		d, err := s.f.FrameDataWithMargins(0, 0)
		if err != nil {
			fail("fresh-frame-unreadable", "%s: %v", how, err)
		}
		want := 51 + len(sbD) + len(msgD) + authSize(mt) + len(apxD)
		if len(d) != want {
			fail("fresh-frame-wrong-length", "%s: %d bytes, expected %d", how, len(d), want)
		}
		if d[0] != 1 || frame.MessageType(d[4]) != mt || s.f.MessageType() != mt {
			fail("fresh-frame-wrong-header", "%s: version %d type %d", how, d[0], d[4])
		}
		if !bytes.Equal(s.f.SwitchBlock(), sbD) || !bytes.Equal(s.f.MessageData(), msgD) || !bytes.Equal(s.f.AppendixData(), apxD) {
			fail("fresh-frame-shows-foreign-data", "%s: switch block / message / appendix do not match what was given", how)
		}
		for _, x := range s.f.AuthData() {
			if x != 0 {
				fail("fresh-frame-shows-foreign-data", "%s: auth space not clear", how)
			}
		}
		if s.f.RecvLink() != nil {
			fail("fresh-frame-exposes-stale-link", "%s: recv link %v on a frame that never received one", how, s.f.RecvLink())
		}
		// Margins of a freshly built frame must be clear (no stale bytes of a
		// previously released frame right next to the data).
		// (A reply keeps its own buffer: what lies beyond the shorter reply is the
		// frame's own earlier content, not that of a released frame.)
		if !newBuffer {
		} else if full, err := s.f.FrameDataWithMargins(off, ov); err == nil {
			for i := 0; i < off; i++ {
				if full[i] != 0 {
					fail("fresh-frame-stale-bytes-in-margin", "%s: offset margin byte %d = %02x", how, i, full[i])
				}
			}
			for i := len(full) - ov; i < len(full); i++ {
				if full[i] != 0 {
					fail("fresh-frame-stale-bytes-in-margin", "%s: overhead margin byte = %02x", how, full[i])
				}
			}
		} else {
			fail("fresh-frame-margins-unavailable", "%s: %v", how, err)
		}
		s.data = append([]byte(nil), d...)
		s.sbLen, s.msgLen, s.auth = len(sbD), len(msgD), authSize(mt)
	}

	nOps := 4 + tp.Intn(40)
	for op := 0; op < nOps; op++ {
		e.Step()
		kind := tp.Pick(5, 4, 5, 3, 5, 3, 5, 2, 2)
		if len(live) == 0 && kind >= 2 {
			kind = tp.Intn(2)
		}
		switch kind {
		case 0: // new
			mt, sb, msg, apx := pickSizes()
			sbD, msgD, apxD := tp.Bytes(sb), tp.Bytes(msg), tp.Bytes(apx)
			src, dst := addr(tp), addr(tp)
			how := fmt.Sprintf("new(type=%d sb=%d msg=%d apx=%d)", mt, sb, msg, apx)
			hist = append(hist, how)
			var f *frame.FrameV1
			var err error
			if e.Guard("panic", func() { f, err = b.NewFrameV1(src, dst, mt, sbD, msgD, apxD) }) {
				e.Fail("", "")
			}
			if err != nil {
				fail("valid-frame-refused", "%s: %v", how, err)
			}
			nextID++
			s := &shadow{id: nextID, f: f, src: src, dst: dst, how: how}
			checkFresh(s, mt, sbD, msgD, apxD, how, true)
			live = append(live, s)
			verifyAll(how)

		case 1: // parse (as a link reader does: pooled slice, copy, parse, set link)
			mt := msgTypes[tp.Intn(len(msgTypes))]
			a := authSize(mt)
			sb := 0
			if tp.Chance(1, 2) {
				sb = tp.Intn(256)
			}
			apx := tp.Intn(200)
			var msg int
			if tp.Chance(1, 2) {
				target := tiers[tp.Intn(5)] + tp.Intn(3) - 1
				msg = target - (12 + 51 + sb + a + apx + 16)
				if msg > 65000 {
					msg = 65000
				}
				if msg < 1 {
					msg = 1 + tp.Intn(50)
				}
			} else {
				msg = 1 + tp.Intn(700)
			}
			raw := make([]byte, 0, 51+sb+msg+a+apx)
			hdr := tp.Bytes(48)
			hdr[0], hdr[4] = 1, byte(mt)
			raw = append(raw, hdr...)
			raw = append(raw, byte(sb))
			raw = append(raw, tp.Bytes(sb)...)
			raw = append(raw, byte(msg>>8), byte(msg))
			raw = append(raw, tp.Bytes(msg)...)
			raw = append(raw, tp.Bytes(a)...)
			raw = append(raw, tp.Bytes(apx)...)
			how := fmt.Sprintf("parse(type=%d sb=%d msg=%d apx=%d)", mt, sb, msg, apx)
			hist = append(hist, how)
			if tp.Chance(1, 6) && len(raw) < 30000 {
				// Two frames back to back in a plain buffer of the caller (no pooled slice is
				// handed to the parser; the buffer's capacity is now and then exactly a pool tier):
				// releasing the first must leave the second and the caller's buffer alone, and the
				// buffer stays the caller's - no later frame may be built on it.
				how = "two frames in one plain buffer: " + how
				hist[len(hist)-1] = how
				raw2 := append([]byte(nil), raw...)
				copy(raw2[4+1:16], tp.Bytes(11))
				size := 2*len(raw) + tp.Intn(64)
				if tp.Chance(1, 2) {
					for _, t := range tiers {
						if t >= 2*len(raw) {
							size = t
							break
						}
					}
				}
				buf := make([]byte, size)
				copy(buf, raw)
				copy(buf[len(raw):], raw2)
				var f1, f2 frame.Frame
				var err1, err2 error
				if e.Guard("panic", func() {
					f1, err1 = b.ParseFrame(buf[:len(raw)], nil, 0)
					f2, err2 = b.ParseFrame(buf[len(raw):2*len(raw)], nil, 0)
				}) {
					e.Fail("", "")
				}
				if err1 != nil || err2 != nil {
					fail("valid-frame-refused", "%s: %v / %v", how, err1, err2)
				}
				if e.Guard("panic", func() { f1.ReturnToPool() }) {
					e.Fail("", "")
				}
				if !bytes.Equal(buf[len(raw):2*len(raw)], raw2) {
					fail("live-frame-content-changed", "%s: releasing the first frame changed the bytes of the second frame in the caller's buffer", how)
				}
				if f2.SrcIP() != netip.AddrFrom16([16]byte(raw2[16:32])) || !bytes.Equal(f2.MessageData(), raw2[51+sb:51+sb+msg]) {
					fail("live-frame-content-changed", "%s: after the first frame was released the second one reports other addresses or another message", how)
				}
				if e.Guard("panic", func() { f2.ReturnToPool() }) {
					e.Fail("", "")
				}
				var got [][]byte
				for k := 0; k < 6; k++ {
					ps := b.GetPooledSlice(size)
					if ps == nil {
						break
					}
					got = append(got, ps)
					if &ps[:1][0] == &buf[:1][0] {
						fail("callers-buffer-handed-out-by-the-pool", "%s: after both frames were released the pool hands out the caller's own buffer (%d bytes) for a new frame", how, size)
					}
				}
				for _, ps := range got {
					b.ReturnPooledSlice(ps)
				}
				e.Probe("two_frames_in_one_plain_buffer")
				verifyAll(how)
				continue
			}
			total := 12 + len(raw) + 16
			ps := b.GetPooledSlice(total)
			if ps == nil {
				continue
			}
			copy(ps[12:], raw)
			var f frame.Frame
			var err error
			if e.Guard("panic", func() { f, err = b.ParseFrame(ps[12:12+len(raw)], ps, 12) }) {
				e.Fail("", "")
			}
			if err != nil {
				fail("valid-frame-refused", "%s: %v", how, err)
			}
			if f.RecvLink() != nil {
				fail("parsed-frame-exposes-stale-link", "%s: a freshly parsed frame reports recv link %v of a previously released frame", how, f.RecvLink())
			}
			lk := links[tp.Intn(len(links))]
			f.SetRecvLink(lk)
			nextID++
			s := &shadow{id: nextID, f: f, data: append([]byte(nil), raw...), link: lk, how: how, sbLen: sb, msgLen: msg, auth: a}
			s.src = netip.AddrFrom16([16]byte(raw[16:32]))
			s.dst = netip.AddrFrom16([16]byte(raw[32:48]))
			live = append(live, s)
			verifyAll(how)

		case 2: // clone
			o := live[tp.Intn(len(live))]
			how := fmt.Sprintf("clone(#%d %d bytes)", o.id, len(o.data))
			hist = append(hist, how)
			if fl, ok := o.link.(*fakeLink); ok && tp.Chance(1, 4) {
				// the link the frame came in on starts closing (or is reported live again by a
				// reconnect) while the frame is being handled
				fl.closing = !fl.closing
				e.Probe("clone_of_a_frame_whose_link_is_closing")
			}
			var c frame.Frame
			if e.Guard("panic", func() { c = o.f.Clone() }) {
				e.Fail("", "")
			}
			nextID++
			s := &shadow{id: nextID, f: c, data: append([]byte(nil), o.data...), src: o.src, dst: o.dst, link: o.link, how: how, sbLen: o.sbLen, msgLen: o.msgLen, auth: o.auth}
			live = append(live, s)
			if len(o.data) > 600 {
				e.Probe("clone_over_600")
			}
			verifyAll(how)

		case 3: // reply / replyTo
			o := live[tp.Intn(len(live))]
			mt := o.f.MessageType()
			_, sb, msg, apx := pickSizes()
			if authSize(mt) == 64 && msg > 48 {
				msg -= 48
			}
			sbD, msgD, apxD := tp.Bytes(sb), tp.Bytes(msg), tp.Bytes(apx)
			var err error
			how := ""
			if tp.Chance(1, 2) {
				how = fmt.Sprintf("reply(#%d sb=%d msg=%d apx=%d)", o.id, sb, msg, apx)
				hist = append(hist, how)
				if e.Guard("panic", func() { err = o.f.Reply(sbD, msgD, apxD) }) {
					e.Fail("", "")
				}
				o.src, o.dst = o.dst, o.src
			} else {
				src, dst := addr(tp), addr(tp)
				how = fmt.Sprintf("replyTo(#%d sb=%d msg=%d apx=%d)", o.id, sb, msg, apx)
				hist = append(hist, how)
				if e.Guard("panic", func() { err = o.f.ReplyTo(src, dst, sbD, msgD, apxD) }) {
					e.Fail("", "")
				}
				o.src, o.dst = src, dst
			}
			if err != nil {
				fail("valid-reply-refused", "%s: %v", how, err)
			}
			o.link = nil
			o.how = how
			checkFresh(o, mt, sbD, msgD, apxD, how, false)
			verifyAll(how)

		case 4: // set appendix: grow to the limit, shrink, remove
			o := live[tp.Intn(len(live))]
			var n int
			switch tp.Intn(5) {
			case 0:
				n = 0
			case 1:
				n = 10000
			case 2:
				n = 9000 + tp.Intn(1001)
			case 3:
				n = tp.Intn(100)
			default:
				n = tp.Intn(3000)
			}
			if 12+len(o.data)+n+16 > 65000 {
				n = 0
			}
			apxD := tp.Bytes(n)
			how := fmt.Sprintf("setAppendix(#%d %d bytes -> appendix %d)", o.id, len(o.data), n)
			hist = append(hist, how)
			var err error
			if e.Guard("panic", func() { err = o.f.SetAppendixData(apxD) }) {
				e.Fail("", "")
			}
			if err != nil {
				fail("appendix-within-limit-refused", "%s: %v", how, err)
			}
			base := 51 + o.sbLen + o.msgLen + o.auth
			o.data = append(append([]byte(nil), o.data[:base]...), apxD...)
			if n >= 9000 {
				e.Probe("appendix_grown_to_limit")
			}
			verifyAll(how)

		case 5: // field setters
			o := live[tp.Intn(len(live))]
			how := fmt.Sprintf("set(#%d)", o.id)
			switch tp.Intn(5) {
			case 0:
				v := uint8(tp.Intn(256))
				o.f.SetTTL(v)
				o.data[1] = v
			case 1:
				v := uint8(tp.Intn(101))
				o.f.SetRecvRate(v)
				o.data[3] = v
			case 2:
				v := tp.Uint32()
				o.f.SetSequenceNum(v)
				o.data[8], o.data[9], o.data[10], o.data[11] = byte(v>>24), byte(v>>16), byte(v>>8), byte(v)
			case 3:
				nb := tp.Bytes(o.sbLen)
				if err := o.f.SetSwitchBlock(nb); err != nil {
					fail("same-size-switch-block-refused", "%v", err)
				}
				copy(o.data[49:49+o.sbLen], nb)
			default:
				lk := links[tp.Intn(len(links))]
				o.f.SetRecvLink(lk)
				o.link = lk
			}
			hist = append(hist, how)
			verifyAll(how)

		case 7: // a parse that fails (inconsistent lengths); the reader gives the buffer back or drops it
			n := 67 + tp.Intn(900)
			raw := tp.Bytes(n)
			raw[0] = 1
			raw[4] = byte(msgTypes[tp.Intn(len(msgTypes))])
			switch tp.Intn(3) {
			case 0:
				raw[48] = 255 // switch block longer than the frame
			case 1:
				raw[48] = 0
				raw[49], raw[50] = 0xff, 0xff // message longer than the frame
			default:
				raw[48] = byte(n - 60)
			}
			ps := b.GetPooledSlice(12 + n + 16)
			if ps == nil {
				continue
			}
			copy(ps[12:], raw)
			how := fmt.Sprintf("failedParse(%d bytes)", n)
			hist = append(hist, how)
			var perr error
			if e.Guard("panic", func() { _, perr = b.ParseFrame(ps[12:12+n], ps, 12) }) {
				e.Fail("", "")
			}
			if perr == nil {
				// the random lengths happened to be consistent: not the case we want
				continue
			}
			if tp.Chance(2, 3) {
				b.ReturnPooledSlice(ps)
			}
			e.Fault("failed_parse")
			verifyAll(how)

		case 8: // a build that must fail (message, switch block or appendix beyond the format's limits)
			if len(live) > 0 && tp.Chance(1, 3) {
				// ... on a frame that already owns a buffer: a reply that cannot be built (a peer's
				// oversized field echoed in an error reply). The frame is kept and released later
				// like any other; no other frame may notice any of this.
				o := live[tp.Intn(len(live))]
				if o.unspecified {
					continue
				}
				big := make([]byte, []int{10001, 65536, 70000, 200000}[tp.Intn(4)])
				how := fmt.Sprintf("failedReply(#%d %d bytes)", o.id, len(big))
				hist = append(hist, how)
				var err error
				if e.Guard("panic", func() {
					if tp.Chance(1, 2) {
						err = o.f.Reply(nil, []byte("x"), big)
					} else {
						err = o.f.Reply(nil, big, nil)
					}
				}) {
					e.Fail("", "")
				}
				if err == nil {
					fail("oversized-reply-accepted", "%s succeeded", how)
				}
				o.unspecified = true
				// out of the way of every other operation until it is released
				for i, x := range live {
					if x == o {
						live = append(live[:i], live[i+1:]...)
						break
					}
				}
				limbo = append(limbo, o)
				e.Fault("failed_build")
				e.Probe("refused_reply_on_a_live_frame")
				verifyAll(how)
				continue
			}
			sbD, msgD, apxD := tp.Bytes(tp.Intn(40)), tp.Bytes(1+tp.Intn(300)), tp.Bytes(tp.Intn(40))
			switch tp.Intn(5) {
			case 4: // beyond the largest pooled buffer (a peer's oversized field echoed in an error reply)
				big := make([]byte, []int{65536, 66000, 70000, 200000}[tp.Intn(4)])
				if tp.Chance(1, 2) {
					msgD = big
				} else {
					apxD = big
				}
				e.Probe("build_beyond_the_largest_pooled_buffer")
			case 0:
				msgD = tp.Bytes(10001 + tp.Intn(300))
			case 1:
				sbD = tp.Bytes(256 + tp.Intn(300))
			case 2:
				msgD = nil
			default:
				apxD = tp.Bytes(10001 + tp.Intn(300))
			}
			how := fmt.Sprintf("failedNew(sb=%d msg=%d apx=%d)", len(sbD), len(msgD), len(apxD))
			hist = append(hist, how)
			var f *frame.FrameV1
			var err error
			if e.Guard("panic", func() { f, err = b.NewFrameV1(addr(tp), addr(tp), msgTypes[tp.Intn(len(msgTypes))], sbD, msgD, apxD) }) {
				e.Fail("", "")
			}
			if err == nil {
				// the format took it after all: treat it as an ordinary live frame
				f.ReturnToPool()
				continue
			}
			e.Fault("failed_build")
			verifyAll(how)

		case 6: // release
			if len(limbo) > 0 && tp.Chance(1, 2) {
				o := limbo[0]
				limbo = limbo[1:]
				how := fmt.Sprintf("release(#%d, after its refused reply)", o.id)
				hist = append(hist, how)
				if e.Guard("panic", func() { o.f.ReturnToPool() }) {
					e.Fail("", "")
				}
				e.Fault("release")
				verifyAll(how)
				continue
			}
			i := tp.Intn(len(live))
			o := live[i]
			how := fmt.Sprintf("release(#%d)", o.id)
			hist = append(hist, how)
			if e.Guard("panic", func() { o.f.ReturnToPool() }) {
				e.Fail("", "")
			}
			live = append(live[:i], live[i+1:]...)
			e.Fault("release")
			verifyAll(how)
		}
		e.Ev("op", uint64(kind), uint64(len(live)))
	}
	e.Sample("margins %d/%d, %d operations: %v", off, ov, len(hist), hist[:min(len(hist), 14)])
}

func TestCheck(t *testing.T) {
	core.Main(t, &core.Check{
		ID:             "C17",
		NoBubble:       true,
		QuickRuns:      6000,
		ThoroughRuns:   600000,
		MinimiseBudget: 300,
		Run:            run,
	})
}
