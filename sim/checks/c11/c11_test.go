// C11 Routing table: exact best-first lookups, bounded size, peers never evicted.
//
// Simulated system: the real m.RoutingTable on the simulator's fake clock.
// The tape draws operation/time histories (AddRoute peer and gossip with
// system-producible paths, RemoveNextHop, RemoveDisconnected with and without
// lists, Clean, clock advances of seconds to days). After every operation the
// snapshot (VerifEntries hook) is checked against the invariants of the
// property statement.
package c11

import (
	"fmt"
	"net/netip"
	"reflect"
	"sort"
	"strings"
	"testing"
	"time"

	"github.com/mycoria/mycoria/m"

	"mycoverif/core"
	"mycoverif/ident"
	"mycoverif/simsync"
)

type world struct {
	e        *core.Env
	tp       *core.Tape
	rt       *m.RoutingTable
	cfg      m.RoutingTableConfig
	self     netip.Addr
	dests    []netip.Addr
	relays   []netip.Addr
	peers    map[netip.Addr]bool // peer routes that must still be present
	afterOp  string
	opsTrace []string
}

func mkAddr(prefix []byte, tail uint32) netip.Addr {
	var b [16]byte
	copy(b[:], prefix)
	b[12] = byte(tail >> 24)
	b[13] = byte(tail >> 16)
	b[14] = byte(tail >> 8)
	b[15] = byte(tail)
	if b[15] == 0 && b[14] == 0 {
		b[15] = 1
	}
	return netip.AddrFrom16(b)
}

func (w *world) rp(ip netip.Addr) (m.RoutablePrefix, bool) {
	for _, rp := range w.cfg.RoutablePrefixes {
		if rp.BasePrefix.Contains(ip) {
			return rp, true
		}
	}
	return m.RoutablePrefix{}, false
}

func hopsOf(e *m.RoutingTableEntry) []netip.Addr {
	out := make([]netip.Addr, len(e.Path.Hops))
	for i, h := range e.Path.Hops {
		out[i] = h.Router
	}
	return out
}

func sameRoute(a, b *m.RoutingTableEntry) bool {
	return a.DstIP == b.DstIP && a.NextHop == b.NextHop && a.Source == b.Source &&
		reflect.DeepEqual(hopsOf(a), hopsOf(b))
}

// sameRouteExactly also compares what every hop carries (delay, labels): "the route is now
// present" means the route that was handed in, not an older one over the same routers.
func sameRouteExactly(a, b *m.RoutingTableEntry) bool {
	if !sameRoute(a, b) || len(a.Path.Hops) != len(b.Path.Hops) {
		return false
	}
	for i := range a.Path.Hops {
		x, y := a.Path.Hops[i], b.Path.Hops[i]
		if x.Router != y.Router || x.Delay != y.Delay || x.ForwardLabel != y.ForwardLabel || x.ReturnLabel != y.ReturnLabel {
			return false
		}
	}
	return true
}

func containsRouter(e *m.RoutingTableEntry, r netip.Addr) bool {
	if e.DstIP == r || e.NextHop == r {
		return true
	}
	for _, h := range e.Path.Hops {
		if h.Router == r {
			return true
		}
	}
	return false
}

func (w *world) fail(class, format string, args ...any) {
	w.e.Fail(class, "%s\nops: %v", fmt.Sprintf(format, args...), w.opsTrace)
}

// invariants that hold after every operation.
func (w *world) checkAlways(snap []m.RoutingTableEntry) {
	// per-destination: at most 3 non-peer routes; lookup exactness and best-first.
	type agg struct {
		nonPeer int
		best    *m.RoutingTableEntry
	}
	byDst := map[netip.Addr]*agg{}
	gossipPerPrefix := map[netip.Prefix]int{}
	for i := range snap {
		en := &snap[i]
		a := byDst[en.DstIP]
		if a == nil {
			a = &agg{}
			byDst[en.DstIP] = a
		}
		if en.Source != m.RouteSourcePeer {
			a.nonPeer++
		}
		if en.Source == m.RouteSourceGossip {
			gossipPerPrefix[en.RoutingPrefix]++
		}
		better := false
		switch {
		case a.best == nil:
			better = true
		case en.Source == m.RouteSourcePeer && a.best.Source != m.RouteSourcePeer:
			better = true
		case en.Source != m.RouteSourcePeer && a.best.Source == m.RouteSourcePeer:
		case en.Path.TotalHops != a.best.Path.TotalHops:
			better = en.Path.TotalHops < a.best.Path.TotalHops
		case en.Path.TotalDelay != a.best.Path.TotalDelay:
			better = en.Path.TotalDelay < a.best.Path.TotalDelay
		}
		if better {
			a.best = en
		}
	}
	for dst, a := range byDst {
		if a.nonPeer > 3 {
			w.fail("more-than-3-nonpeer-routes", "%d non-peer routes for %s after %s", a.nonPeer, dst, w.afterOp)
		}
		for _, look := range []func(netip.Addr) (*m.RoutingTableEntry, bool){w.rt.LookupNearest, w.rt.LookupNearestRoute} {
			var got *m.RoutingTableEntry
			var isDst bool
			w.e.Guard("panic", func() { got, isDst = look(dst) })
			if w.e.Failed() {
				w.e.Fail("", "")
			}
			switch {
			case got == nil:
				w.fail("lookup-miss", "lookup(%s) returned nothing although a route exists (after %s)", dst, w.afterOp)
			case got.DstIP != dst:
				w.fail("lookup-wrong-destination", "lookup(%s) returned route to %s (after %s)", dst, got.DstIP, w.afterOp)
			case !isDst:
				w.fail("lookup-not-flagged-destination", "lookup(%s) returned exact route but isDestination=false (after %s)", dst, w.afterOp)
			}
			// "Lowest delay" judged from the hop delays themselves, not from the total the
			// table stored: some other route of the same class and hop count whose delay is
			// lower even when each of its hops is charged the minimum hop delay and the
			// returned route's hops are charged nothing extra.
			if got != nil && got.Source != m.RouteSourcePeer {
				gotLo := 0
				for _, h := range got.Path.Hops {
					gotLo += int(h.Delay)
				}
				for i := range snap {
					o := &snap[i]
					if o.DstIP != dst || o.Source == m.RouteSourcePeer || len(o.Path.Hops) != len(got.Path.Hops) {
						continue
					}
					oHi := 0
					for _, h := range o.Path.Hops {
						oHi += max(int(h.Delay), int(m.MinHopDelay))
					}
					if oHi < gotLo && oHi < 65000 {
						w.fail("lookup-not-lowest-delay", "lookup(%s) returned a %d-hop route whose hop delays add up to %d ms although a %d-hop route with at most %d ms exists (after %s)",
							dst, len(got.Path.Hops)-1, gotLo, len(o.Path.Hops)-1, oHi, w.afterOp)
					}
				}
			}
			b := a.best
			peerMismatch := (got.Source == m.RouteSourcePeer) != (b.Source == m.RouteSourcePeer)
			if peerMismatch || (b.Source != m.RouteSourcePeer &&
				(got.Path.TotalHops != b.Path.TotalHops || got.Path.TotalDelay != b.Path.TotalDelay)) {
				w.fail("lookup-not-best", "lookup(%s) returned src=%v hops=%d delay=%d but best is src=%v hops=%d delay=%d (after %s)",
					dst, got.Source, got.Path.TotalHops, got.Path.TotalDelay, b.Source, b.Path.TotalHops, b.Path.TotalDelay, w.afterOp)
			}
		}
	}
	for pfx, cnt := range gossipPerPrefix {
		rp, ok := w.rp(pfx.Addr())
		if !ok {
			continue
		}
		if cnt > 3*(2*rp.EntriesPerPrefix+1) {
			per := map[netip.Addr][2]int{}
			for i := range snap {
				if snap[i].RoutingPrefix == pfx {
					c := per[snap[i].DstIP]
					if snap[i].Source == m.RouteSourcePeer {
						c[0]++
					} else {
						c[1]++
					}
					per[snap[i].DstIP] = c
				}
			}
			var parts []string
			for d, c := range per {
				parts = append(parts, fmt.Sprintf("%s: %d peer + %d other", d, c[0], c[1]))
			}
			sort.Strings(parts)
			w.fail("gossip-prefix-bound-exceeded", "prefix %s holds %d gossip routes, bound 3*(2*%d+1) (after %s); per destination: %s", pfx, cnt, rp.EntriesPerPrefix, w.afterOp, strings.Join(parts, "; "))
		}
	}
}

func (w *world) checkPeersPresent(snap []m.RoutingTableEntry, allowed func(netip.Addr) bool) {
	have := map[netip.Addr]bool{}
	for i := range snap {
		if snap[i].Source == m.RouteSourcePeer {
			have[snap[i].DstIP] = true
		}
	}
	for p := range w.peers {
		if !have[p] {
			if allowed != nil && allowed(p) {
				delete(w.peers, p)
				continue
			}
			w.fail("peer-route-lost", "peer route to %s disappeared after %s", p, w.afterOp)
		}
	}
}

func (w *world) genPath(dst netip.Addr, nextHop netip.Addr) m.SwitchPath {
	tp := w.tp
	label := func() m.SwitchLabel {
		if tp.Chance(1, 8) {
			return m.SwitchLabel(128 + tp.Intn(16000))
		}
		return m.SwitchLabel(1 + tp.Intn(127))
	}
	delay := func() uint16 {
		switch tp.Intn(9) {
		case 0, 1:
			return 0
		case 2, 3:
			return uint16(1 + tp.Intn(9))
		case 4: // a very slow hop: sums of two or three of these pass 65535
			return uint16(20000 + tp.Intn(45536))
		default:
			return uint16(tp.Intn(300))
		}
	}
	nRelay := tp.Pick(6, 5, 3, 2, 1) // 0..4 further relays after the next hop
	hops := []m.SwitchHop{{Router: w.self, Delay: delay(), ForwardLabel: label()}}
	used := map[netip.Addr]bool{w.self: true, dst: true, nextHop: true}
	if nextHop != dst {
		hops = append(hops, m.SwitchHop{Router: nextHop, Delay: delay(), ForwardLabel: label(), ReturnLabel: label()})
		for i := 0; i < nRelay; i++ {
			r := w.relays[tp.Intn(len(w.relays))]
			if used[r] {
				continue
			}
			used[r] = true
			hops = append(hops, m.SwitchHop{Router: r, Delay: delay(), ForwardLabel: label(), ReturnLabel: label()})
		}
	}
	hops = append(hops, m.SwitchHop{Router: dst, ReturnLabel: label()})
	return m.SwitchPath{Hops: hops}
}

func run(e *core.Env) {
	tp := e.Tape
	e.StartClock()
	w := &world{e: e, tp: tp, peers: map[netip.Addr]bool{}}

	// Router address and table configuration.
	selfID := ident.Get(ident.Routable, tp.Intn(8))
	custom := tp.Chance(1, 2)
	if !custom && tp.Chance(1, 3) {
		// a router whose country prefix begins at the first address of its region: the base
		// address of the region bucket then lies inside the router's own prefix
		selfID = ident.Get(ident.RegionStart, tp.Intn(3))
		e.Probe("own_prefix_at_the_start_of_its_region")
	}
	w.self = selfID.IP
	selfBytes := w.self.As16()
	var prefixes [][]byte
	if custom {
		// Two small prefixes with tiny limits for dense collisions, plus a catch-all.
		lim := 1 + tp.Intn(3)
		p1 := netip.PrefixFrom(mkAddr([]byte{0xfd, 0x11}, 0), 16).Masked()
		p2 := netip.PrefixFrom(mkAddr([]byte{0xfd, 0x12}, 0), 16).Masked()
		w.cfg = m.RoutingTableConfig{
			RouterIP: w.self,
			RoutablePrefixes: []m.RoutablePrefix{
				{BasePrefix: p1, RoutingBits: 16 + 4*tp.Intn(2), EntryTTL: time.Duration(1+tp.Intn(3)) * time.Hour, EntriesPerPrefix: lim},
				{BasePrefix: p2, RoutingBits: 16, EntryTTL: 24 * time.Hour, EntriesPerPrefix: 1 + tp.Intn(2)},
				{BasePrefix: m.RoutingAddressPrefix, RoutingBits: m.ContinentPrefixBits, EntryTTL: 3 * time.Hour, EntriesPerPrefix: 1 + tp.Intn(4)},
			},
		}
		prefixes = [][]byte{{0xfd, 0x11, 0x00}, {0xfd, 0x11, 0x10}, {0xfd, 0x12}, {0xfd, 0x23}, {0xfd, 0x24}}
		e.Probe("config_custom_small_limits")
	} else {
		// Exactly what router.New derives.
		routerPrefix := netip.PrefixFrom(w.self, m.RegionPrefixBits)
		if marker, err := m.LookupCountryMarker(w.self); err == nil {
			routerPrefix = marker.Prefix
		}
		w.cfg = m.RoutingTableConfig{
			RoutablePrefixes: m.GetRoutablePrefixesFor(w.self, routerPrefix.Masked()),
			RouterIP:         w.self,
		}
		cp := routerPrefix.Masked().Addr().As16()
		prefixes = [][]byte{
			{selfBytes[0], selfBytes[1], selfBytes[2], selfBytes[3]}, // own neighbourhood
			{selfBytes[0], selfBytes[1]},                             // own region
			{selfBytes[0], selfBytes[1] & 0xf0},                      // own continent, region 0
			{cp[0], cp[1], cp[2], cp[3]},                             // own country prefix base
			{0xfd, 0x31}, {0xfd, 0x00, 0x12}, {0xfd, 0x0f},           // other continent, roaming, experiments
			{selfBytes[0], selfBytes[1], 0xff}, {selfBytes[0], selfBytes[1], 0x80}, // own region, far end
		}
		e.Probe("config_shipped")
	}
	w.rt = m.NewRoutingTable(w.cfg)

	// Small universes collide; large ones hit limits.
	nDst := 3 + tp.Intn(4)
	if tp.Chance(1, 4) {
		nDst = 20 + tp.Intn(120)
		e.Probe("large_universe")
	}
	// Saturation of one routing prefix (a quarter of the small-limit runs): every destination,
	// every direct peer and every relay lives in one prefix with limit 1..2, slightly more
	// destinations than the prefix admits, and almost nothing but additions - the per-prefix
	// bound is approached from every order of peer routes, first routes and further routes.
	saturate := custom && tp.Chance(1, 4)
	if saturate {
		prefixes = [][]byte{{0xfd, 0x12}}
		nDst = 2*w.cfg.RoutablePrefixes[1].EntriesPerPrefix + 2 + tp.Intn(3)
		e.Probe("one_prefix_saturated")
	}
	// The shipped limits (32 per foreign continent / special region, 64 per region of the own
	// continent) are only reached when many destinations share one routing prefix.
	crowded := !custom && tp.Chance(1, 4)
	if crowded {
		all := prefixes
		prefixes = [][]byte{prefixes[tp.Intn(len(prefixes))]}
		nDst = 40 + tp.Intn(110)
		e.Probe("one_shipped_prefix_crowded")
		// The router's own prefix usually lies somewhere inside its region: in address order the
		// region's routes then come in two runs, before and after the own prefix. A third of the
		// crowded runs fill the region on both sides (and put a few routers into the own prefix),
		// with more routes than the region admits in total.
		own, ok := w.rp(w.self)
		lo, hi := mkAddr([]byte{selfBytes[0], selfBytes[1]}, 1), mkAddr([]byte{selfBytes[0], selfBytes[1], 0xff, 0xff}, 1)
		if ok && tp.Chance(1, 3) && !own.BasePrefix.Contains(lo) && !own.BasePrefix.Contains(hi) {
			side1, side2 := []byte{selfBytes[0], selfBytes[1]}, []byte{selfBytes[0], selfBytes[1], 0xff, 0xff}
			prefixes = [][]byte{side1, side2, side1, side2, side1, side2, all[0]}
			nDst = 70 + tp.Intn(70)
			e.Probe("own_region_crowded_on_both_sides_of_the_own_prefix")
		}
	}
	seen := map[netip.Addr]bool{w.self: true}
	for k := uint32(0); len(w.dests) < nDst; k++ {
		a := mkAddr(prefixes[tp.Intn(len(prefixes))], uint32(1+tp.Intn(4*nDst))+k*7919)
		if !seen[a] && !m.InternalPrefix.Contains(a) {
			seen[a] = true
			w.dests = append(w.dests, a)
		}
	}
	for k := uint32(0); len(w.relays) < 5; k++ {
		a := mkAddr(prefixes[tp.Intn(len(prefixes))], uint32(0x10000+tp.Intn(64))+k*7919)
		if !seen[a] {
			seen[a] = true
			w.relays = append(w.relays, a)
		}
	}
	nextHops := w.dests[:min(3, len(w.dests))]

	nOps := 5 + tp.Intn(60)
	if nDst > 10 {
		nOps = 100 + tp.Intn(500)
	}
	weights := []int{10, 3, 2, 2, 2, 3}
	if saturate {
		nOps = 60 + tp.Intn(120)
		weights = []int{40, 1, 0, 0, 1, 1}
	}
	if crowded {
		// almost nothing but additions and cleanups: the table has to fill up
		nOps = 250 + tp.Intn(500)
		weights = []int{60, 1, 1, 1, 4, 0}
	}
	aimClean, aimAfter := false, time.Duration(0)
	for op := 0; op < nOps; op++ {
		e.Step()
		before := w.rt.VerifEntries()
		pick := tp.Pick(weights...)
		if aimClean {
			// the route added in the previous step carries the earliest expiry in the table:
			// the clock passes it, then the table is cleaned
			aimClean = false
			time.Sleep(aimAfter)
			pick = 4
			e.Probe("cleanup_right_after_the_earliest_expiry_passed")
		}
		switch pick {
		case 0: // AddRoute
			var entry m.RoutingTableEntry
			peer := tp.Chance(1, 5)
			if peer {
				p := nextHops[tp.Intn(len(nextHops))]
				entry = m.RoutingTableEntry{DstIP: p, NextHop: p, Source: m.RouteSourcePeer}
				if tp.Chance(1, 2) { // as the announce handler adds it for a direct peer
					entry.Path = m.SwitchPath{Hops: []m.SwitchHop{
						{Router: w.self, Delay: uint16(tp.Intn(100)), ForwardLabel: m.SwitchLabel(1 + tp.Intn(127))},
						{Router: p, ReturnLabel: m.SwitchLabel(1 + tp.Intn(127))},
					}}
					entry.Path.CalculateTotals()
				}
			} else {
				dst := w.dests[tp.Intn(len(w.dests))]
				nh := nextHops[tp.Intn(len(nextHops))]
				for k := 0; nh == dst && k < len(nextHops); k++ {
					nh = nextHops[k]
				}
				if nh == dst {
					continue
				}
				entry = m.RoutingTableEntry{DstIP: dst, NextHop: nh, Source: m.RouteSourceGossip, Stub: tp.Chance(1, 6)}
				entry.Path = w.genPath(dst, nh)
				if tp.Chance(1, 5) {
					// the next announcement over a path the table already holds: same routers, but
					// links were re-established (new labels) and the delays shifted between hops
					// while their sum stayed the same
					var have []m.RoutingTableEntry
					for _, en := range before {
						if en.Source == m.RouteSourceGossip && len(en.Path.Hops) >= 3 {
							have = append(have, en)
						}
					}
					if len(have) > 0 {
						old := have[tp.Intn(len(have))]
						entry.DstIP, entry.NextHop = old.DstIP, old.NextHop
						hops := append([]m.SwitchHop(nil), old.Path.Hops...)
						i, j := tp.Intn(len(hops)-1), tp.Intn(len(hops)-1)
						if d := uint16(tp.Intn(int(hops[i].Delay) + 1)); i != j && hops[j].Delay <= 65535-d {
							hops[i].Delay -= d
							hops[j].Delay += d
						}
						k := tp.Intn(len(hops))
						if hops[k].ForwardLabel != 0 {
							hops[k].ForwardLabel = hops[k].ForwardLabel%127 + 1
						}
						if hops[k].ReturnLabel != 0 {
							hops[k].ReturnLabel = hops[k].ReturnLabel%127 + 1
						}
						entry.Path = m.SwitchPath{Hops: hops}
						e.Probe("known_path_announced_again_with_other_labels")
					}
				}
				entry.Path.CalculateTotals()
				switch tp.Intn(6) {
				case 0:
					entry.Expires = time.Now().Add(-time.Duration(tp.Intn(7200)) * time.Second) // already past (up to 2h)
				case 1:
					entry.Expires = time.Now().Add(time.Duration(tp.Intn(600)) * time.Second) // below the 10 min floor
				default:
					entry.Expires = time.Now().Add(610*time.Second + time.Duration(tp.Intn(86400))*time.Second)
				}
				// Aimed: a destination that already holds three non-peer routes gets a further one
				// with an expiry just above the floor - as a rule the earliest in the table -
				// and the next step is a cleanup a moment after that expiry has passed.
				held := 0
				for i := range before {
					if before[i].DstIP == dst && before[i].Source != m.RouteSourcePeer {
						held++
					}
				}
				if held >= 3 && tp.Chance(1, 4) {
					entry.Expires = time.Now().Add(601*time.Second + time.Duration(tp.Intn(20))*time.Second)
					aimClean, aimAfter = true, time.Until(entry.Expires)+time.Duration(1+tp.Intn(120))*time.Second
				}
			}
			var added bool
			var err error
			w.afterOp = fmt.Sprintf("AddRoute(dst=%s nh=%s src=%v hops=%d exp=%+ds)", entry.DstIP, entry.NextHop, entry.Source, len(entry.Path.Hops), int(time.Until(entry.Expires).Seconds()))
			w.opsTrace = append(w.opsTrace, w.afterOp)
			e.Guard("panic", func() { added, err = w.rt.AddRoute(entry) })
			if e.Failed() {
				e.Fail("", "")
			}
			after := w.rt.VerifEntries()
			e.Ev("add", b2u(added), b2u(err != nil), uint64(len(after)))
			if added {
				found := false
				for i := range after {
					if sameRouteExactly(&after[i], &entry) {
						found = true
					}
				}
				if !found {
					w.fail("added-but-absent", "AddRoute reported added, route not in table: %s", w.afterOp)
				}
				// "Added" is also a statement about how long: a route announced with an expiry
				// in the future is present until then (or until the configured lifetime of its
				// prefix is over, whichever comes first) - also when the table held the same
				// route from an earlier announcement with an earlier expiry. A route that stays
				// stored under its old expiry is taken away by a cleanup while its destination
				// goes on announcing it.
				if !peer && entry.Expires.After(time.Now()) {
					lower := entry.Expires
					if rp, ok := w.rp(entry.DstIP); ok && rp.EntryTTL > 0 && time.Now().Add(rp.EntryTTL).Before(lower) {
						lower = time.Now().Add(rp.EntryTTL)
					}
					for i := range after {
						if sameRouteExactly(&after[i], &entry) && after[i].Expires.Before(lower) {
							w.fail("added-route-expires-earlier-than-announced", "AddRoute reported added, but the stored route expires %v before the announced expiry (or configured lifetime): %s", lower.Sub(after[i].Expires), w.afterOp)
						}
					}
					e.Probe("added_route_lifetime_judged")
				}
				if peer {
					w.peers[entry.DstIP] = true
				}
				e.Probe("added")
			} else {
				if !reflect.DeepEqual(before, after) {
					w.fail("not-added-but-changed", "AddRoute reported not added (err=%v) but the table changed: %s", err, w.afterOp)
				}
				e.Probe("not_added")
				// The route of a direct peer is not subject to any bound ("peers never evicted",
				// and the link registry relies on it: a link is only ever registered together
				// with its peer route). If the table refuses one, no peer route to that router may
				// be missing afterwards.
				if peer && err == nil {
					have := false
					for i := range after {
						if after[i].Source == m.RouteSourcePeer && after[i].DstIP == entry.DstIP {
							have = true
						}
					}
					if !have {
						w.fail("peer-route-refused", "AddRoute refused the direct-peer route to %s (added=false, no error) and the table holds no peer route to it: %s", entry.DstIP, w.afterOp)
					}
				}
			}
			w.checkPeersPresent(after, nil)
			w.checkAlways(after)

		case 1: // RemoveNextHop
			x := nextHops[tp.Intn(len(nextHops))]
			w.afterOp = fmt.Sprintf("RemoveNextHop(%s)", x)
			w.opsTrace = append(w.opsTrace, w.afterOp)
			var removed int
			e.Guard("panic", func() { removed = w.rt.RemoveNextHop(x) })
			if e.Failed() {
				e.Fail("", "")
			}
			after := w.rt.VerifEntries()
			e.Ev("rmnh", uint64(removed), uint64(len(after)))
			for i := range after {
				if after[i].NextHop == x {
					w.fail("removed-next-hop-kept", "route to %s still uses removed next hop %s", after[i].DstIP, x)
				}
			}
			w.checkPeersPresent(after, func(p netip.Addr) bool { return p == x })
			w.checkAlways(after)
			e.Fault("remove_next_hop")

		case 2: // RemoveDisconnected without list
			all := append(append([]netip.Addr{}, w.dests...), w.relays...)
			x := all[tp.Intn(len(all))]
			w.afterOp = fmt.Sprintf("RemoveDisconnected(%s, nil)", x)
			w.opsTrace = append(w.opsTrace, w.afterOp)
			e.Guard("panic", func() { w.rt.RemoveDisconnected(x, nil) })
			if e.Failed() {
				e.Fail("", "")
			}
			after := w.rt.VerifEntries()
			e.Ev("rmdis", uint64(len(after)))
			for i := range after {
				if containsRouter(&after[i], x) {
					w.fail("disconnected-router-kept", "route to %s via %s still contains disconnected router %s", after[i].DstIP, after[i].NextHop, x)
				}
			}
			// Only routes containing x may go.
			w.checkOnlyRemoved(before, after, func(en *m.RoutingTableEntry) bool { return containsRouter(en, x) })
			w.checkPeersPresent(after, func(p netip.Addr) bool { return p == x })
			w.checkAlways(after)
			e.Fault("remove_disconnected")

		case 3: // RemoveDisconnected with list
			all := append(append([]netip.Addr{w.self}, w.dests...), w.relays...)
			x := all[1+tp.Intn(len(all)-1)]
			var list []netip.Addr
			for i := 0; i < 1+tp.Intn(2); i++ {
				list = append(list, all[tp.Intn(len(all))])
			}
			w.afterOp = fmt.Sprintf("RemoveDisconnected(%s, %v)", x, list)
			w.opsTrace = append(w.opsTrace, w.afterOp)
			e.Guard("panic", func() { w.rt.RemoveDisconnected(x, list) })
			if e.Failed() {
				e.Fail("", "")
			}
			after := w.rt.VerifEntries()
			e.Ev("rmdisl", uint64(len(after)))
			inList := func(a netip.Addr) bool {
				for _, l := range list {
					if l == a {
						return true
					}
				}
				return false
			}
			brokenLink := func(en *m.RoutingTableEntry) bool {
				for i, h := range en.Path.Hops {
					if h.Router == x {
						if i > 0 && inList(en.Path.Hops[i-1].Router) {
							return true
						}
						if i < len(en.Path.Hops)-1 && inList(en.Path.Hops[i+1].Router) {
							return true
						}
					}
				}
				return false
			}
			for i := range after {
				if brokenLink(&after[i]) {
					w.fail("disconnected-link-kept", "route to %s still crosses disconnected link %s-%v", after[i].DstIP, x, list)
				}
			}
			w.checkOnlyRemoved(before, after, func(en *m.RoutingTableEntry) bool { return containsRouter(en, x) })
			w.checkPeersPresent(after, func(p netip.Addr) bool { return p == x || inList(p) })
			w.checkAlways(after)
			e.Fault("remove_disconnected_list")

		case 4: // Clean
			w.afterOp = "Clean()"
			w.opsTrace = append(w.opsTrace, w.afterOp)
			e.Guard("panic", func() { w.rt.Clean() })
			if e.Failed() {
				e.Fail("", "")
			}
			after := w.rt.VerifEntries()
			e.Ev("clean", uint64(len(before)), uint64(len(after)))
			now := time.Now()
			gossipPerPrefix := map[netip.Prefix]int{}
			limitOf := map[netip.Prefix]int{}
			for i := range after {
				en := &after[i]
				if en.Source != m.RouteSourcePeer && en.Expires.Before(now) {
					w.fail("expired-survives-clean", "route to %s expired %v ago survives Clean", en.DstIP, now.Sub(en.Expires))
				}
				if en.Source == m.RouteSourceGossip {
					gossipPerPrefix[en.RoutingPrefix]++
					// the limit of a bucket is the one of the configuration its destinations
					// fall under (not of whatever configuration the bucket's base address is in)
					if rp, ok := w.rp(en.DstIP); ok {
						limitOf[en.RoutingPrefix] = rp.EntriesPerPrefix
					}
				}
			}
			for pfx, cnt := range gossipPerPrefix {
				if lim, ok := limitOf[pfx]; ok && cnt > lim {
					w.fail("gossip-over-limit-after-clean", "prefix %s holds %d gossip routes right after Clean, limit %d", pfx, cnt, lim)
				}
			}
			if len(after) < len(before) {
				e.Probe("clean_removed_something")
			}
			w.checkPeersPresent(after, nil)
			w.checkAlways(after)

		case 5: // time passes - or (wave 15) the table is only looked at
			if tp.Chance(1, 3) {
				// Printing the table (the dashboard page), asking for possible paths, looking
				// something up: none of these is an operation on the table. Its entries and
				// their order are what they were.
				what := ""
				switch tp.Intn(3) {
				case 0:
					_ = w.rt.Format()
					what = "Format()"
				case 1:
					d := w.dests[tp.Intn(len(w.dests))]
					_ = w.rt.LookupPossiblePaths(d, 1+tp.Intn(8), m.MaxAddrDistance(), tp.Chance(1, 2), nil)
					what = fmt.Sprintf("LookupPossiblePaths(%s)", d)
				default:
					d := w.dests[tp.Intn(len(w.dests))]
					_, _ = w.rt.LookupNearestRoute(d)
					_, _ = w.rt.LookupNearest(d)
					what = fmt.Sprintf("LookupNearest(%s)", d)
				}
				w.afterOp = what
				w.opsTrace = append(w.opsTrace, what)
				e.Ev("look", uint64(len(what)))
				e.Probe("table_only_looked_at")
				after := w.rt.VerifEntries()
				if !reflect.DeepEqual(before, after) {
					w.fail("changed-by-looking", "%s changed the table (entries or their order)", what)
				}
				w.checkAlways(after)
				continue
			}
			d := []time.Duration{time.Second, time.Minute, 9 * time.Minute, 11 * time.Minute, time.Hour, 3 * time.Hour, 25 * time.Hour}[tp.Intn(7)]
			time.Sleep(d)
			w.afterOp = fmt.Sprintf("sleep(%v)", d)
			w.opsTrace = append(w.opsTrace, w.afterOp)
			e.Ev("sleep", uint64(d))
			e.Fault("clock_jump")
			after := w.rt.VerifEntries()
			if !reflect.DeepEqual(before, after) {
				w.fail("changed-by-time", "table changed while only time passed")
			}
		}
	}
	// ---- a cleanup that runs while the table is used (a third of the runs) ----
	// The cleaner is a worker of its own (every ten minutes); links come and go and announcements
	// arrive while it runs. Package m runs under the cooperative scheduler here (sync replaced by
	// yielding locks): the tape picks the running task at every lock operation. Whatever the
	// interleaving: a peer route added meanwhile is there afterwards, a next hop removed
	// meanwhile is gone from every route, and the routes of the other peers are still there.
	if tp.Chance(1, 3) {
		for round, rounds := 0, 1+tp.Intn(3); round < rounds; round++ {
			np := nextHops[tp.Intn(len(nextHops))]
			rm := nextHops[tp.Intn(len(nextHops))]
			for k := 0; rm == np && k < len(nextHops); k++ {
				rm = nextHops[k]
			}
			peerEntry := m.RoutingTableEntry{DstIP: np, NextHop: np, Source: m.RouteSourcePeer}
			var added bool
			var addErr error
			tasks := []func(){func() { w.rt.Clean() }}
			doAdd, doRm := tp.Chance(2, 3), rm != np && tp.Chance(1, 2)
			if !doAdd && !doRm {
				doAdd = true
			}
			if doAdd {
				tasks = append(tasks, func() { added, addErr = w.rt.AddRoute(peerEntry) })
			}
			if doRm {
				tasks = append(tasks, func() { w.rt.RemoveNextHop(rm) })
			}
			w.afterOp = fmt.Sprintf("Clean() concurrently with AddRoute(peer %s)=%v RemoveNextHop(%s)=%v", np, doAdd, rm, doRm)
			w.opsTrace = append(w.opsTrace, w.afterOp)
			st := simsync.RunTasks(func(n, cur int) int {
				if cur >= 0 && !tp.Chance(1, 2) {
					return cur
				}
				return tp.Intn(n)
			}, tasks)
			if st.Deadlock {
				w.fail("table-tasks-deadlock", "%s deadlocked", w.afterOp)
			}
			for _, pn := range st.Panics {
				w.fail("panic", "%s: %v", w.afterOp, pn)
			}
			after := w.rt.VerifEntries()
			e.Ev("concurrent-clean", b2u(doAdd), b2u(doRm), b2u(added), uint64(st.Switches), uint64(len(after)))
			if doAdd && addErr == nil && added {
				w.peers[np] = true
			}
			if doRm {
				delete(w.peers, rm)
				for i := range after {
					if after[i].NextHop == rm {
						w.fail("removed-next-hop-kept/concurrent-clean", "%s (%d task switches): the route to %s still uses the removed next hop", w.afterOp, st.Switches, after[i].DstIP)
					}
				}
			}
			// (peer-route-lost is reported by the same oracle as in the sequential histories)
			w.afterOp += fmt.Sprintf(" (%d task switches)", st.Switches)
			w.checkPeersPresent(after, nil)
			w.checkAlways(after)
			e.Fault("task_switch")
			e.Probe("cleanup_while_the_table_is_used")
			if tp.Chance(1, 2) {
				time.Sleep(11 * time.Minute)
			}
		}
	}
	snap := w.rt.VerifEntries()
	e.Sample("router %s custom=%v dests=%d ops=%d final entries=%d", w.self, custom, len(w.dests), nOps, len(snap))
	for i, o := range w.opsTrace {
		if i < 12 {
			e.Sample("  %s", o)
		}
	}
}

func (w *world) checkOnlyRemoved(before, after []m.RoutingTableEntry, mayRemove func(*m.RoutingTableEntry) bool) {
	// Every entry of before that may not be removed must still be in after.
	for i := range before {
		if mayRemove(&before[i]) {
			continue
		}
		found := false
		for j := range after {
			if reflect.DeepEqual(before[i], after[j]) {
				found = true
				break
			}
		}
		if !found {
			w.fail("unrelated-route-removed", "route to %s via %s removed by %s although it does not contain that router", before[i].DstIP, before[i].NextHop, w.afterOp)
		}
	}
}

func b2u(b bool) uint64 {
	if b {
		return 1
	}
	return 0
}

func TestCheck(t *testing.T) {
	core.Main(t, &core.Check{
		ID:           "C11",
		QuickRuns:    4000,
		ThoroughRuns: 600000,
		Run:          run,
	})
}
