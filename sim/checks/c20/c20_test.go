// C20 Relay-only routers start, run and stop cleanly.
//
// Simulated system: the real top-level mycoria.New(version, config) instances
// with the tun interface disabled (2..3 per run), wired together by a "sim"
// peering protocol registered through the public AddProtocol (listen/connect
// use sim:// URLs on byte-level simulated connections). The tape generates the
// configurations and sequences of construct / start / peer / run for fake
// minutes / stop cycles, with link breaks and peers stopping while the other
// keeps sending.
package c20

import (
	"fmt"
	"log/slog"
	"net"
	"os"
	"runtime"
	"strings"
	"testing"
	"time"

	mycoria "github.com/mycoria/mycoria"
	"github.com/mycoria/mycoria/config"
	"github.com/mycoria/mycoria/m"
	"github.com/mycoria/mycoria/mgr"

	"mycoverif/core"
	"mycoverif/ident"
	"mycoverif/node"
	"mycoverif/simnet"
	"mycoverif/simos"
	"mycoverif/simtcp"
)

// sameLabelEnds: the two ends of a three-router line derive the same one-byte switch label
// from their addresses, so the router in the middle has to find another label for one of them.
var sameLabelEnds bool

func genStore(tp *core.Tape, i, n int, universe, secret string, idBase int) config.Store {
	id := ident.Get(ident.Routable, idBase+i)
	if sameLabelEnds && i != 1 {
		id = ident.Get(ident.SameLabel, i/2+idBase/8*2)
	}
	st := config.Store{}
	st.Router.Address = id.Store()
	st.Router.Universe = universe
	st.Router.UniverseSecret = secret
	st.Router.Lite = tp.Chance(1, 6)
	st.Router.Stub = tp.Chance(1, 6)
	st.Router.Isolate = tp.Chance(1, 6)
	st.System.DisableTun = true
	st.System.DisableChromiumWorkaround = tp.Chance(1, 2)
	// Listeners on free loopback ports, in every spelling a peering URL allows. All simulated
	// routers share the one loopback interface of the process, so ports are distinct.
	listenURL := func(port int) string {
		switch tp.Intn(4) {
		case 0:
			return fmt.Sprintf("tcp://127.0.0.1:%d", port)
		case 1:
			return fmt.Sprintf("tcp://[::1]:%d", port)
		case 2:
			return fmt.Sprintf("tcp://localhost:%d", port)
		default:
			return fmt.Sprintf("tcp:%d", port)
		}
	}
	st.Router.Listen = []string{listenURL(1024 + i*2000 + tp.Intn(999))}
	if tp.Chance(1, 4) {
		st.Router.Listen = append(st.Router.Listen, listenURL(1024+i*2000+1000+tp.Intn(999)))
	}
	if tp.Chance(1, 3) {
		st.Router.IANA = []string{fmt.Sprintf("r%d.example.org", i)}
	}
	// Friends and services (everything the parser accepts is fair game).
	nf := tp.Intn(3)
	for k := 0; k < nf; k++ {
		fid := ident.Get(ident.Routable, 30+tp.Intn(6))
		st.FriendConfigs = append(st.FriendConfigs, config.FriendConfig{Name: fmt.Sprintf("friend%d", k), IP: fid.IP.String()})
	}
	schemes := []string{"tcp", "udp", "http", "https", "icmp6", "ping6"}
	usedPort := map[string]bool{}
	for k, ns := 0, tp.Intn(4); k < ns; k++ {
		sch := schemes[tp.Intn(len(schemes))]
		port := 1 + tp.Intn(2000)
		key := fmt.Sprintf("%s%d", sch, port)
		if sch == "icmp6" || sch == "ping6" {
			key = "icmp"
		}
		if sch == "http" || sch == "https" || sch == "tcp" || sch == "udp" {
			key = fmt.Sprintf("p%d", port) // keep protocol/port keys unique
		}
		if usedPort[key] {
			continue
		}
		usedPort[key] = true
		svc := config.ServiceConfig{Name: fmt.Sprintf("svc%d", k), URL: fmt.Sprintf("%s://svc%d.myco:%d", sch, k, port)}
		switch tp.Intn(3) {
		case 0:
			svc.Public = true
			svc.Advertise = tp.Chance(1, 2)
		case 1:
			svc.Friends = true
		default:
			svc.For = []string{ident.Get(ident.Routable, 30+tp.Intn(6)).IP.String()}
		}
		st.ServiceConfigs = append(st.ServiceConfigs, svc)
	}
	return st
}

type inst struct {
	i      int
	in     *mycoria.Instance
	alerts *mgr.AlertMgr
	up     bool
}

// connectURLFor spells a connect URL that reaches the given listen URL.
func connectURLFor(tp *core.Tape, listen string) string {
	u, err := m.ParsePeeringURL(listen)
	if err != nil {
		return listen
	}
	var hosts []string
	switch u.Domain {
	case "127.0.0.1", "localhost":
		hosts = []string{"127.0.0.1", "localhost"}
	case "::1":
		hosts = []string{"[::1]", "localhost"}
	default: // all interfaces
		hosts = []string{"127.0.0.1", "[::1]", "localhost"}
	}
	return fmt.Sprintf("tcp://%s:%d", hosts[tp.Intn(len(hosts))], u.Port)
}

func run(e *core.Env) {
	tp := e.Tape
	e.StartClock()
	node.CaptureStderr()
	if p := os.Getenv("VERIF_SLOG"); p != "" && e.Trace {
		// looking closer at one replay: the routers' own log at debug level
		if lf, err := os.Create(p); err == nil {
			old := slog.Default()
			slog.SetDefault(slog.New(slog.NewTextHandler(lf, &slog.HandlerOptions{Level: slog.LevelDebug})))
			e.Cleanup(func() { slog.SetDefault(old); _ = lf.Close() })
		}
	}
	cn := simnet.NewConnNet(e)
	// The shipped TCP peering protocol runs on a simulated loopback interface (peering/ is
	// compiled against simtcp instead of net). One connection attempt takes 2..60 simulated
	// milliseconds (shipped code re-dials at once, without back-off, when a freshly set-up link
	// is refused while it has no other link).
	fabric := &simtcp.World{DialLatency: time.Duration(2+tp.Intn(59)) * time.Millisecond,
		NewPair: func(name string) (net.Conn, net.Conn) { p := cn.NewPair(name); return p.A, p.B }}
	simtcp.Install(fabric)
	e.Cleanup(func() { simtcp.Install(nil) })
	n := 2 + tp.Intn(2)
	universe := []string{"", "uni-a"}[tp.Intn(2)]
	secret := ""
	if tp.Chance(1, 2) {
		// (also with the default universe: a secret is a valid setting there too)
		secret = "topsecret"
	}
	idBase := 8 * tp.Intn(2)
	sameLabelEnds = n == 3 && tp.Chance(1, 3)
	if sameLabelEnds {
		e.Probe("two_peers_of_one_router_derive_the_same_switch_label")
	}
	stores := make([]config.Store, n)
	for i := range stores {
		stores[i] = genStore(tp, i, n, universe, secret, idBase)
	}
	// Connect graph: a line plus optional extra; the connect URL must name a listener.
	type edge struct{ from, to int }
	var edges []edge
	for i := 1; i < n; i++ {
		from, to := i, i-1
		if tp.Chance(1, 2) {
			from, to = to, from
		}
		edges = append(edges, edge{from, to})
		stores[from].Router.Connect = append(stores[from].Router.Connect, connectURLFor(tp, stores[to].Router.Listen[0]))
	}
	e.Logf("n=%d universe=%q secret=%v edges=%v", n, universe, secret != "", edges)

	var running []*inst
	stopAll := func() {
		for _, x := range running {
			if x.up {
				x.in.Stop()
				x.up = false
			}
		}
		cn.CloseAll()
	}
	e.Cleanup(stopAll)

	checkAlerts := func(where string) {
		for _, x := range running {
			for _, a := range x.alerts.Export().Alerts {
				if len(a.ID) >= 12 && a.ID[:12] == "worker-panic" {
					st := node.PanicStacks(node.NewStderr())
					cls := "unknown"
					if len(st) > 0 {
						cls = core.PanicClass(st[0])
					}
					e.Fail("worker-panic:"+cls, "instance r%d: %s (%s)", x.i, a.Message, where)
				}
			}
		}
	}

	// Wave 15: a state file is a valid setting of a relay-only router too. Half of the routers
	// keep their state in a JSON file on the simulated disk (it survives the cycles, as a disk
	// does); a third of those have been started and stopped once before, offline - a first boot
	// that met nobody - so that their first cycle here starts from the file such a boot leaves.
	simos.Reset()
	for i := range stores {
		if tp.Chance(1, 2) {
			stores[i].System.StatePath = fmt.Sprintf("/var/lib/mycoria/relay%d.json", i)
			e.Probe("router_with_state_file")
		}
	}
	for i := range stores {
		if stores[i].System.StatePath == "" || !tp.Chance(1, 3) {
			continue
		}
		cfg, err := stores[i].Parse()
		if err != nil {
			e.Fail("valid-configuration-refused", "router %d: configuration with a state file refused: %v", i, err)
		}
		var in *mycoria.Instance
		if e.Guard("panic-in-New", func() { in, err = mycoria.New("sim-offline", cfg) }) {
			e.Fail("", "")
		}
		if err != nil {
			e.Fail("construct-fails", "mycoria.New for a valid relay-only config with a state file failed: %v", err)
		}
		if err := in.Start(); err != nil {
			e.Fail("start-fails", "Start of instance r%d (offline boot) failed: %v", i, err)
		}
		time.Sleep(time.Duration(tp.Intn(3000)) * time.Millisecond) // nothing is delivered: nobody is there
		if !in.Stop() {
			e.Fail("stop-reports-failure", "offline boot: Stop of instance r%d returned false", i)
		}
		cn.CloseAll()
		simnet.Wait()
		e.Probe("offline_boot_before_the_first_cycle")
	}

	baseline := -1
	cycles := 1 + tp.Intn(3)
	for cyc := 0; cyc < cycles; cyc++ {
		e.Step()
		running = nil
		// ---- construct + start ----
		for i := 0; i < n; i++ {
			cfg, err := stores[i].Parse()
			if err != nil {
				// The generator only writes what the configuration format documents: schemes tcp, udp,
				// http, https, icmp6, ping6 with unique protocol/port pairs, loopback listeners,
				// friends by address. A refusal is the router's, not the generator's.
				e.Fail("valid-configuration-refused", "router %d: configuration %+v refused: %v", i, stores[i].ServiceConfigs, err)
			}
			var in *mycoria.Instance
			if e.Guard("panic-in-New", func() { in, err = mycoria.New("sim-"+fmt.Sprint(cyc), cfg) }) {
				e.Fail("", "")
			}
			if err != nil {
				e.Fail("construct-fails", "mycoria.New for a valid relay-only config failed: %v", err)
			}
			x := &inst{i: i, in: in, alerts: mgr.NewAlertMgr(nil)}
			for _, mm := range []*mgr.Manager{in.State().Manager(), in.Peering().Manager(), in.Switch().Manager(), in.Router().Manager()} {
				mm.SetWorkerErrorMgr(x.alerts)
			}
			running = append(running, x)
		}
		order := tp.Perm(n)
		for _, i := range order {
			x := running[i]
			var err error
			if e.Guard("panic-in-Start", func() { err = x.in.Start() }) {
				e.Fail("", "")
			}
			if err != nil {
				e.Fail("start-fails", "Start of instance r%d failed: %v", i, err)
			}
			x.up = true
			time.Sleep(time.Duration(1+tp.Intn(300)) * time.Millisecond)
			cn.RunFor(tp, time.Duration(tp.Intn(1500))*time.Millisecond, 5000)
		}
		// Some cycles are cut short: the routers are stopped within the first
		// seconds after start (workers still in their start-up sleeps), under traffic.
		early := tp.Chance(1, 4)
		if early {
			cn.RunFor(tp, time.Duration(tp.Intn(4000))*time.Millisecond, 20000)
			e.Probe("early_stop_cycle")
		}
		// ---- peer: the connect manager retries every second for 10 s while it has
		// no link at all, and every minute otherwise ----
		if !early {
			cn.RunFor(tp, 65*time.Second, 40000)
		}
		cn.DrainFIFO(tp, 5000)
		checkAlerts("after start")
		for _, ed := range edges {
			if early {
				break
			}
			a, b := running[ed.from], running[ed.to]
			la := a.in.Peering().GetLink(b.in.Identity().IP)
			lb := b.in.Peering().GetLink(a.in.Identity().IP)
			if la == nil || lb == nil {
				e.Fail("instances-do-not-peer", "cycle %d: r%d (connect %v) and r%d (listen %v) have no link after 65 s (links %v/%v, dials %d, refused %d)",
					cyc, ed.from, stores[ed.from].Router.Connect, ed.to, stores[ed.to].Router.Listen, la != nil, lb != nil, fabric.Dials, fabric.DialFails)
			}
		}
		e.Probe("instances_peered")
		// ---- run for fake minutes ----
		mins := tp.Intn(7)
		if early {
			mins = -1
		}
		faultAt := -1
		if tp.Chance(1, 3) {
			faultAt = tp.Intn(mins + 1)
		}
		for mth := 0; mth <= mins; mth++ {
			if mth == faultAt {
				ps := cn.Pairs()
				if len(ps) > 0 {
					p := ps[tp.Intn(len(ps))]
					if tp.Chance(1, 2) {
						p.A.FailReads(simnet.ErrSimIO)
					} else {
						cn.DeliverBytes(p.B, nil, true)
					}
					e.Fault("link_break")
				}
			}
			cn.RunFor(tp, time.Minute, 60000)
			checkAlerts(fmt.Sprintf("minute %d", mth))
		}
		if mins >= 5 {
			e.Probe("ran_past_announce_interval")
		}
		// ---- stop: any order, the others keep running and sending meanwhile ----
		if !early {
			cn.DrainFIFO(tp, 5000)
		}
		for _, i := range tp.Perm(n) {
			x := running[i]
			var ok bool
			if !early && tp.Chance(1, 2) {
				// Stop in a quiet mesh: nobody pings, but the network goes on delivering what is
				// in flight. (A Stop during which nothing is delivered at all leaves a handshake
				// that a peer's re-dial has just begun without its next message for as long as
				// the Stop lasts - one minute of patience, then "false": my network standing
				// still, not the router's fault; DESIGN 10.4 no. 36.)
				qdone := make(chan struct{})
				var qpan any
				go func() {
					defer func() {
						qpan = recover()
						close(qdone)
					}()
					ok = x.in.Stop()
				}()
				for k, fin := 0, false; k < 4000 && !fin; k++ {
					cn.RunFor(tp, 50*time.Millisecond, 2000)
					select {
					case <-qdone:
						fin = true
					default:
					}
				}
				simnet.Wait()
				select {
				case <-qdone:
				default:
					e.Fail("stop-does-not-return", "cycle %d: Stop of instance r%d did not return within 200 simulated seconds in a quiet mesh", cyc, i)
				}
				if qpan != nil {
					e.Fail("panic-in-Stop:unknown", "Stop panicked: %v", qpan)
				}
			} else {
				// Stop while the network keeps delivering and the peers keep pinging.
				redial := false
				linksBefore := map[string]bool{}
				pairsBefore := len(cn.Pairs())
				if tp.Chance(1, 3) {
					// ... and right after a connection broke: a peer that lost its only link
					// dials again at once, so that a handshake with the stopping router is under
					// way while its listeners and links are being closed
					var live []*simnet.ConnPair
					for _, p := range cn.Pairs() {
						if !p.A.IsClosed() && !p.B.IsClosed() {
							live = append(live, p)
						}
					}
					if len(live) > 0 {
						p := live[tp.Intn(len(live))]
						if tp.Chance(1, 2) {
							p.A.FailReads(simnet.ErrSimIO)
						} else {
							cn.DeliverBytes(p.B, nil, true)
						}
						e.Fault("link_break")
						// (long enough for the new dial to reach the listener, and only a few
						// deliveries: the stop then falls into the handshake)
						for it := 0; it < 3; it++ {
							for steps := 0; steps < 60; steps++ {
								var next *simnet.Record
								for _, r := range cn.Heads() {
									if r.Conn.ID >= pairsBefore && r.Seq > 1 {
										continue // (a new connection gets no further than its first records)
									}
									next = r
									break
								}
								if next == nil {
									break
								}
								cn.Deliver(next)
							}
							time.Sleep(time.Duration(10+tp.Intn(40)) * time.Millisecond)
							simnet.Wait()
						}
						e.Probe("stopped_while_a_peer_redials")
						redial = true
						for _, l := range x.in.Peering().GetLinks() {
							linksBefore[l.RemoteAddr().String()] = true
						}
					}
				}
				done := make(chan struct{})
				var pan any
				go func() {
					defer func() {
						pan = recover()
						close(done)
					}()
					ok = x.in.Stop()
				}()
				finished := false
				// Stop itself gives each module's workers up to a minute; six
				// simulated minutes are far beyond any honest stop.
				deadline := time.Now().Add(6 * time.Minute)
				stalledPeers := false
				for k := 0; !finished && time.Now().Before(deadline); k++ {
					if redial && !stalledPeers {
						// The connections dialled since the break are held up after their first
						// records (the listener has accepted them, the handshake has begun) until
						// the stopping router's peering module has been told to stop; then they go
						// on. A link that is registered now was not there when the stop looked at
						// the links - and from here on the peers stall: nothing is read or written
						// by them any more, the connections stay open, no keep-alive will end
						// them. The stop has to get by on its own.
						down := x.in.Peering().Manager().IsDone()
						for steps := 0; steps < 60; steps++ {
							var next *simnet.Record
							for _, r := range cn.Heads() {
								if r.Conn.ID >= pairsBefore && !down && r.Seq > 1 {
									continue
								}
								next = r
								break
							}
							if next == nil {
								break
							}
							cn.Deliver(next)
						}
						time.Sleep(time.Duration(5+tp.Intn(40)) * time.Millisecond)
						simnet.Wait()
						if down {
							for _, l := range x.in.Peering().GetLinks() {
								if !linksBefore[l.RemoteAddr().String()] && !l.IsClosing() {
									stalledPeers = os.Getenv("VERIF_C20_NOSTALL") == ""
									e.Probe("link_registered_after_the_stop_looked_then_peers_stall")
								}
							}
						}
						select {
						case <-done:
							finished = true
						default:
						}
						continue
					}
					if stalledPeers {
						time.Sleep(5 * time.Second)
						simnet.Wait()
						select {
						case <-done:
							finished = true
						default:
						}
						continue
					}
					if k < 200 {
						for _, y := range running {
							if y != x && y.up && tp.Chance(1, 3) {
								_, _, _ = y.in.Router().PingPong.Send(x.in.Identity().IP, true, 0)
							}
						}
						cn.RunFor(tp, time.Duration(5+tp.Intn(60))*time.Millisecond, 2000)
					} else {
						cn.RunFor(tp, 5*time.Second, 2000)
					}
					select {
					case <-done:
						finished = true
					default:
					}
				}
				if !finished {
					e.Fail("stop-does-not-return", "cycle %d: Stop of instance r%d did not return within the simulated minutes while its peers kept pinging", cyc, i)
				}
				if pan != nil {
					e.Fail("panic-in-Stop:unknown", "Stop panicked: %v", pan)
				}
				e.Probe("stopped_under_traffic")
			}
			x.up = false
			if !ok {
				if e.Trace {
					buf := make([]byte, 1<<20)
					buf = buf[:runtime.Stack(buf, true)]
					for _, blk := range strings.Split(string(buf), "\n\n") {
						if strings.Contains(blk, "mycoria/mycoria") && !strings.Contains(blk, "mycoverif/checks") {
							lines := strings.Split(blk, "\n")
							e.Tracef("left: %s", strings.Join(lines[:min(len(lines), 12)], " | "))
						}
					}
				}
				e.Fail("stop-reports-failure", "cycle %d: Stop of instance r%d returned false", cyc, i)
			}
			e.Fault("peer_stop")
			cn.RunFor(tp, time.Duration(tp.Intn(3000))*time.Millisecond, 20000)
			checkAlerts("after stop of r" + fmt.Sprint(i))
		}
		cn.DrainFIFO(tp, 5000)
		cn.CloseAll()
		simnet.Wait()
		time.Sleep(2 * time.Minute) // let back-off timers and sleeps of stopped workers run out
		simnet.Wait()
		g := runtime.NumGoroutine()
		e.Ev("cycle", uint64(cyc), uint64(mins))
		if baseline < 0 {
			baseline = g
		} else if g > baseline {
			e.Fail("goroutines-accumulate-over-cycles", "after cycle 1: %d goroutines, after cycle %d: %d", baseline, cyc+1, g)
		}
		e.Probe("cycle_completed")
	}
	if cycles > 1 {
		e.Probe("multi_cycle_run")
	}
	e.Sample("%d instances, universe %q secret=%v, %d construct/start/peer/run/stop cycles, listeners %v", n, universe, secret != "", cycles, stores[0].Router.Listen)
}

func TestCheck(t *testing.T) {
	core.Main(t, &core.Check{
		ID:              "C20",
		LeakIsViolation: true,
		QuickRuns:       160,
		ThoroughRuns:    16000,
		MinimiseBudget:  12,
		Run:             run,
	})
}
