// C08 Gossip routes name only routers that signed their hop; tampering is rejected.
//
// Simulated system: an honest mesh of real router nodes (a line ending in the
// victim V, which has a second peer Y) producing real announcements with hop
// chains; every hop record each router produces is recorded from the link
// crossings. Announcements are captured on the P->V link and manipulated: byte
// mutations in body, origin signature and every nesting level of the record
// chain, splices from other announcements, re-attribution, re-ordering,
// stripping, duplication, delivery over the wrong link - also with the
// outermost record re-signed by the delivering peer's real key (a malicious but
// authenticated peer). Long chains (to 99 records) are signed by the harness
// with the real keys of simulated identities.
package c08

import (
	"runtime"
	"sync"
	"bytes"
	"fmt"
	"net/netip"
	"sort"
	"strings"
	"testing"
	"time"

	"github.com/fxamacker/cbor/v2"

	"github.com/mycoria/mycoria/config"
	"github.com/mycoria/mycoria/frame"
	"github.com/mycoria/mycoria/m"
	"github.com/mycoria/mycoria/router"

	"mycoverif/core"
	"mycoverif/ident"
	"mycoverif/mesh"
	"mycoverif/node"
	"mycoverif/simnet"
	"mycoverif/simsync"
)

type layer struct {
	at  router.AnnouncePingAttachment
	sig []byte
	raw []byte // record bytes + signature as found (whole nested blob of this level)
}

// parseChain splits an appendix into its nesting levels, outermost first.
func parseChain(apx []byte) ([]layer, bool) {
	var out []layer
	for len(apx) > 0 {
		if len(apx) < 65 {
			return out, false
		}
		var at router.AnnouncePingAttachment
		if err := cbor.Unmarshal(apx[:len(apx)-64], &at); err != nil {
			return out, false
		}
		out = append(out, layer{at: at, sig: append([]byte(nil), apx[len(apx)-64:]...), raw: append([]byte(nil), apx...)})
		apx = at.NextAttachment
		if len(out) > 120 {
			return out, false
		}
	}
	return out, true
}

// encodeChain nests the levels again (innermost last); signatures are kept
// unless resign[i] holds a key for that level.
func encodeChain(ls []layer, ctx []byte, resign map[int]*m.Address) []byte {
	var inner []byte
	for i := len(ls) - 1; i >= 0; i-- {
		at := ls[i].at
		at.NextAttachment = inner
		data, err := cbor.Marshal(at)
		if err != nil {
			panic(err)
		}
		sig := ls[i].sig
		if k := resign[i]; k != nil {
			s, err := k.SignWithContext(data, ctx)
			if err != nil {
				panic(err)
			}
			sig = s
		}
		inner = append(append([]byte(nil), data...), sig...)
	}
	return inner
}

func signingContext(f frame.Frame) []byte {
	ctx := make([]byte, 16+8+64)
	copy(ctx[:16], f.SrcIP().AsSlice())
	m.PutUint64(ctx[16:24], uint64(f.SequenceTime().UnixMilli()))
	copy(ctx[24:], f.AuthData())
	return ctx
}

func withAppendix(parser *frame.Builder, data []byte, apx []byte) []byte {
	f, err := mesh.ParseCrossing(parser, data)
	if err != nil {
		return nil
	}
	defer f.ReturnToPool()
	base := len(data) - len(f.AppendixData())
	return append(append([]byte(nil), data[:base]...), apx...)
}

func tableKey(n *node.Node) string {
	var b strings.Builder
	for _, en := range n.Router.Table().VerifEntries() {
		fmt.Fprintf(&b, "%s|%s|%v|%v|%s;", en.DstIP, en.NextHop, en.Source, en.Expires, fmt.Sprint(en.Path.Hops))
	}
	return b.String()
}

// burstOps counts the lock operations of router/, state/ and storage/ since two announcements
// were handed to V together; switchAt are the two counts at which the processor changes hands.
var (
	burstOps int
	switchAt [2]int
)

func run(e *core.Env) {
	tp := e.Tape
	e.StartClock()
	burstOps, switchAt = 0, [2]int{}
	// Line n0 - n1 - ... - P - V, plus Y as a second peer of V.
	lineLen := 2 + tp.Intn(5) // routers before V
	n := lineLen + 2
	var edges [][2]int
	for i := 0; i+1 <= lineLen; i++ {
		edges = append(edges, [2]int{i, i + 1})
	}
	vi, yi, pi := lineLen, lineLen+1, lineLen-1
	edges = append(edges, [2]int{vi, yi})
	if tp.Chance(1, 3) && lineLen >= 2 {
		edges = append(edges, [2]int{yi, 0}) // a second path to the far end
	}
	if tp.Chance(1, 3) && lineLen >= 3 {
		// a chord two routers before V's peer: that router's announcements reach P twice,
		// directly and over one relay - two different announcements of one origin, issued in
		// one loop, of which P forwards both
		edges = append(edges, [2]int{pi - 2, pi})
		e.Probe("topology_with_chord_before_peer")
	}
	// Wave 17: V runs with `lite: true` in a fifth of the runs (its peers do not treat it as a
	// lite router: what an adversary sends does not depend on that). A lite router keeps less;
	// what it accepts is held to the same statement.
	liteV := tp.Chance(1, 5)
	if liteV {
		e.Probe("victim_is_a_lite_router")
	}
	ms := mesh.Build(e, mesh.Options{MinNodes: n, MaxNodes: n, Edges: edges, TwoByteLabels: true, BigInfo: true,
		Store: func(i int, id *m.Address, s *config.Store) {
			if i == vi && liteV {
				s.Router.Lite = true
			}
		}})
	V, Y, P := ms.Nodes[vi], ms.Nodes[yi], ms.Nodes[pi]
	parser := frame.NewFrameBuilder()
	// A router handles frames with one worker per CPU. In half of the runs the workers of one
	// router may overtake each other: at the lock boundaries of router/ and state/ (import-path
	// overlay sync -> simsync) a seeded coin hands the processor to another runnable goroutine.
	// It matters where two announcements reach V in the same instant (below).
	if every := []int{0, 0, 2, 3, 5}[tp.Intn(5)]; every > 0 {
		ys := tp.Uint64() | 1
		var ymu sync.Mutex
		switches := 0
		simsync.Blocking = true
		simsync.Yield = func(op string) {
			if switchAt[0] > 0 {
				// two announcements are being handled side by side: instead of a coin at every
				// lock operation, the processor changes hands at two chosen lock operations (counted
				// over all workers from the moment the two frames arrived) - every alignment of
				// the two handlers is then about equally likely
				ymu.Lock()
				burstOps++
				hit := burstOps == switchAt[0] || burstOps == switchAt[1]
				ymu.Unlock()
				if hit {
					switches++
					runtime.Gosched()
				}
				return
			}
			ymu.Lock()
			ys += 0x9e3779b97f4a7c15
			z := ys
			z = (z ^ (z >> 30)) * 0xbf58476d1ce4e5b9
			z = (z ^ (z >> 27)) * 0x94d049bb133111eb
			z ^= z >> 31
			ymu.Unlock()
			if z%uint64(every) == 0 {
				switches++
				runtime.Gosched()
			}
		}
		e.Cleanup(func() {
			simsync.Yield = nil
			simsync.Blocking = false
			e.ProbeN("lock_boundary_task_switches", switches)
		})
		e.Fault("task_switch")
	}
	byIP := ms.ByIP

	// Productions: instance -> signer -> set of nested blobs it put on a link.
	prod := map[string]map[netip.Addr]map[string]bool{}
	vSends := 0
	ms.Net.OnSend = func(c *simnet.Crossing) {
		if c.From == V {
			vSends++
		}
		f, err := mesh.ParseCrossing(parser, c.Data)
		if err != nil {
			return
		}
		defer f.ReturnToPool()
		v, ok := mesh.ViewAnnounce(f)
		if !ok || len(v.Apx) == 0 {
			return
		}
		if prod[v.Instance] == nil {
			prod[v.Instance] = map[netip.Addr]map[string]bool{}
		}
		if prod[v.Instance][c.From.IP] == nil {
			prod[v.Instance][c.From.IP] = map[string]bool{}
		}
		prod[v.Instance][c.From.IP][string(v.Apx)] = true
	}

	linkTo := func(from, to *node.Node) *simnet.Link {
		for _, l := range ms.Net.Links() {
			if l.Local == from && l.Remote == to {
				return l
			}
		}
		return nil
	}
	lPV, lYV := linkTo(P, V), linkTo(Y, V)
	inject := func(from *simnet.Link, data []byte) {
		p := &simnet.Packet{Conn: from.ConnID(), Dir: 9, Seq: 1, From: from, To: from.Other, Data: data, Tag: "adv", NoDelay: true}
		ms.Net.DeliverRaw(p)
		simnet.Wait()
	}

	// Hold back announcements on P->V; deliver everything else honestly.
	var captured [][]byte
	var foreignChains [][]layer // chains of other announcements, for splicing
	var foreignCtx [][]byte     // ... and the signing context each of them belongs to
	var foreignRaw [][]byte     // ... and the frame that carried it, as captured
	var foreignOrigin []netip.Addr
	pump := func(d time.Duration) {
		end := time.Now().Add(d)
		for guard := 0; guard < 40000; guard++ {
			var next *simnet.Packet
			for _, p := range ms.Net.Heads() {
				if p.From == lPV && !p.EOF {
					if f, err := mesh.ParseCrossing(parser, p.Data); err == nil {
						_, isAnn := mesh.ViewAnnounce(f)
						f.ReturnToPool()
						if isAnn {
							captured = append(captured, append([]byte(nil), p.Data...))
							ms.Net.Remove(p)
							continue
						}
					}
				}
				next = p
				break
			}
			if next != nil {
				ms.Net.Deliver(next)
				continue
			}
			if !time.Now().Before(end) {
				return
			}
			time.Sleep(50 * time.Millisecond)
			simnet.Wait()
		}
	}
	pump(5*time.Second + 300*time.Millisecond)
	ms.CheckPanics("worker-panic")
	if len(captured) == 0 {
		e.Infra("no announcement captured on P->V")
	}
	for _, c := range captured {
		if f, err := mesh.ParseCrossing(parser, c); err == nil {
			if ls, ok := parseChain(f.AppendixData()); ok && len(ls) > 0 {
				foreignChains = append(foreignChains, ls)
				foreignCtx = append(foreignCtx, signingContext(f))
				foreignRaw = append(foreignRaw, c)
				foreignOrigin = append(foreignOrigin, f.SrcIP())
			}
			f.ReturnToPool()
		}
	}

	reject := func(what string, from *simnet.Link, data []byte, depth int) {
		if data == nil {
			return
		}
		before, sendsBefore := tableKey(V), vSends
		inject(from, data)
		ms.CheckPanics("worker-panic")
		after := tableKey(V)
		if before != after {
			e.Fail("manipulated-announcement-changed-routes/"+what, "announcement with %d hop records, manipulation %q: V's routing table changed", depth, what)
		}
		if vSends != sendsBefore {
			e.Fail("manipulated-announcement-forwarded/"+what, "announcement with %d hop records, manipulation %q: V sent %d frames in reaction", depth, what, vSends-sendsBefore)
		}
		e.Case(0x08, uint64(depth), uint64(len(what)), uint64(len(data)))
		e.Fault("tamper_" + strings.SplitN(what, " ", 2)[0])
	}

	// rejectBurst hands V a manipulated announcement and, in the same instant, a genuine one
	// (the one its foreign records were taken from): two of V's workers handle them side by
	// side, the processor changes hands at two drawn lock operations. What V holds for the
	// manipulated announcement's origin must not change; the genuine one is judged elsewhere.
	rejectBurst := func(what string, from *simnet.Link, forged, genuine []byte, origin netip.Addr, depth int) {
		if forged == nil {
			return
		}
		only := func() string {
			var out []m.RoutingTableEntry
			for _, en := range V.Router.Table().VerifEntries() {
				if en.DstIP == origin {
					out = append(out, en)
				}
			}
			return tableKeyOf(out)
		}
		before := only()
		p1 := &simnet.Packet{Conn: from.ConnID(), Dir: 9, Seq: 1, From: from, To: from.Other, Data: forged, Tag: "adv", NoDelay: true}
		p2 := &simnet.Packet{Conn: from.ConnID(), Dir: 9, Seq: 2, From: from, To: from.Other, Data: append([]byte(nil), genuine...), Tag: "adv", NoDelay: true}
		if tp.Chance(1, 2) {
			p1, p2 = p2, p1
		}
		burstOps, switchAt = 0, [2]int{1 + tp.Intn(60), 1 + tp.Intn(120)}
		ms.Net.DeliverRaw(p1)
		ms.Net.DeliverRaw(p2)
		simnet.Wait()
		switchAt = [2]int{}
		ms.CheckPanics("worker-panic")
		if only() != before {
			e.Fail("manipulated-announcement-changed-routes/"+what, "announcement with %d hop records, manipulation %q: what V holds for its origin changed", depth, what)
		}
		e.Case(0x08, uint64(depth), uint64(len(what)), uint64(len(forged)))
		e.Fault("tamper_" + strings.SplitN(what, " ", 2)[0])
		e.Probe("manipulated_and_genuine_announcement_handled_side_by_side")
	}

	order := tp.Perm(len(captured))
	if tp.Chance(1, 3) {
		// Far origins first: V then meets several relays for the first time inside one
		// announcement, before it has seen any of them announce itself.
		depthOf := func(data []byte) int {
			d := 0
			if f, err := mesh.ParseCrossing(parser, data); err == nil {
				ls, _ := parseChain(f.AppendixData())
				d = len(ls)
				f.ReturnToPool()
			}
			return d
		}
		sort.SliceStable(order, func(a, b int) bool { return depthOf(captured[order[a]]) > depthOf(captured[order[b]]) })
		e.Probe("deep_chains_delivered_first")
	}
	processRound := func(order []int) {
		for _, ci := range order {
			orig := captured[ci]
			f, err := mesh.ParseCrossing(parser, orig)
			if err != nil {
				continue
			}
			view, _ := mesh.ViewAnnounce(f)
			ctx := signingContext(f)
			apx := append([]byte(nil), f.AppendixData()...)
			sbLen := len(f.SwitchBlock())
			msgLen := len(f.MessageData())
			origin := f.SrcIP()
			f.ReturnToPool()
			ls, ok := parseChain(apx)
			if !ok {
				e.Fail("honest-announcement-unparsable", "appendix of a real announcement does not parse")
			}
			depth := len(ls)
			if depth >= 3 {
				e.Probe("chain_depth>=3")
			}
			base := len(orig) - len(apx)
			msgStart := 49 + sbLen + 2
			pKey := map[int]*m.Address{0: P.ID}

			// ---- manipulations (all must be rejected) ----
			k := 3 + tp.Intn(6)
			for t := 0; t < k; t++ {
				switch min(tp.Intn(17), 13) {
				case 13: // colluding relays: the record at level j keeps naming its router, but another mesh
					// router signed it; every level outside it is re-signed by its real owner
					if depth < 2 {
						continue
					}
					j := 1 + tp.Intn(depth-1)
					cp := append([]layer(nil), ls...)
					named := cp[j].at.Router.IP
					keyOfSigner, bump := tp.Chance(1, 2), uint16(0)
					if tp.Chance(1, 2) {
						bump = uint16(1 + tp.Intn(20))
					}
					if e.Trace {
						holder := "none"
						if ss := V.State.GetSession(named); ss != nil {
							holder = "unknown-key"
							for _, z := range ms.Nodes {
								if bytes.Equal(ss.Address().PublicKey, z.ID.PublicKey) {
									holder = z.Name
								}
							}
						}
						e.Logf("case13 depth=%d j=%d named=%s V holds for it the key of %s", depth, j, ms.Nodes[byIP[named]].Name, holder)
					}
					// every router of the mesh in turn: which key V may wrongly hold for the named
					// router depends on what V has seen before
					for _, z := range ms.Nodes {
						if z.IP == named || z == V {
							continue
						}
						fp := append([]layer(nil), cp...)
						if keyOfSigner {
							forged := fp[j].at.Router
							forged.PublicKey = z.ID.PublicKey
							fp[j].at.Router = forged
						}
						fp[j].at.Delay += bump
						rs := map[int]*m.Address{j: z.ID}
						for o := 0; o < j; o++ {
							rs[o] = ms.Nodes[byIP[fp[o].at.Router.IP]].ID
						}
						e.Probe("record_signed_by_another_mesh_router")
						reject(fmt.Sprintf("record at level %d signed by another router of the mesh", j), lPV, withAppendix(parser, orig, encodeChain(fp, ctx, rs)), depth)
					}
				case 12: // the complete, untouched hop-record chain of ANOTHER announcement of the same origin
					var donors [][]byte
					for cj, oc := range captured {
						if cj == ci {
							continue
						}
						if of, err := mesh.ParseCrossing(parser, oc); err == nil {
							if of.SrcIP() == origin && len(of.AppendixData()) > 0 && !bytes.Equal(of.AppendixData(), apx) &&
								!bytes.Equal(of.AuthData(), orig[msgStart+msgLen:msgStart+msgLen+64]) {
								donors = append(donors, append([]byte(nil), of.AppendixData()...))
							}
							of.ReturnToPool()
						}
					}
					if len(donors) == 0 {
						continue
					}
					e.Probe("transplant_between_announcements_of_one_origin")
					reject("transplant chain of another announcement of the same origin", lPV, withAppendix(parser, orig, donors[tp.Intn(len(donors))]), depth)
				case 11: // a record that names a router V already knows, but carries the delivering peer's key and signature
					if depth < 2 {
						continue
					}
					cp := append([]layer(nil), ls...)
					forged := cp[1].at.Router
					forged.PublicKey = P.ID.PublicKey
					cp[1].at.Router = forged
					if tp.Chance(1, 2) {
						cp[1].at.Delay = uint16(tp.Intn(10))
					}
					reject("impersonate known router with own key", lPV, withAppendix(parser, orig, encodeChain(cp, ctx, map[int]*m.Address{0: P.ID, 1: P.ID})), depth)
				case 0: // body
					mut := append([]byte(nil), orig...)
					mut[msgStart+tp.Intn(msgLen)] ^= 1 << tp.Intn(8)
					reject("body bit", lPV, mut, depth)
				case 1: // origin signature
					mut := append([]byte(nil), orig...)
					mut[msgStart+msgLen+tp.Intn(64)] ^= 1 << tp.Intn(8)
					reject("origin-signature bit", lPV, mut, depth)
				case 2: // any byte of the chain, as is
					if depth == 0 {
						continue
					}
					mut := append([]byte(nil), orig...)
					mut[base+tp.Intn(len(apx))] ^= 1 << tp.Intn(8)
					reject("chain byte", lPV, mut, depth)
				case 3: // a field of the record at level j, outer levels re-encoded, outermost re-signed by P
					if depth == 0 {
						continue
					}
					j := tp.Intn(depth)
					cp := append([]layer(nil), ls...)
					switch tp.Intn(3) {
					case 0:
						cp[j].at.Delay += uint16(1 + tp.Intn(50))
					case 1:
						cp[j].at.ForwardLabel ^= m.SwitchLabel(1 + tp.Intn(100))
					default:
						cp[j].at.ReturnLabel ^= m.SwitchLabel(1 + tp.Intn(100))
					}
					rs := map[int]*m.Address{}
					if j > 0 && tp.Chance(2, 3) {
						rs = pKey
					}
					reject(fmt.Sprintf("field-change at level %d resign=%v", j, len(rs) > 0), lPV, withAppendix(parser, orig, encodeChain(cp, ctx, rs)), depth)
				case 4: // re-attribute: another router's address and key, signature kept
					if depth == 0 {
						continue
					}
					j := tp.Intn(depth)
					cp := append([]layer(nil), ls...)
					other := ms.Nodes[tp.Intn(len(ms.Nodes))]
					if other.IP == cp[j].at.Router.IP {
						other = Y
					}
					cp[j].at.Router = other.ID.PublicAddress
					rs := map[int]*m.Address{}
					if j > 0 && tp.Chance(2, 3) {
						rs = pKey
					}
					reject(fmt.Sprintf("re-attribute level %d", j), lPV, withAppendix(parser, orig, encodeChain(cp, ctx, rs)), depth)
				case 5: // splice inner records from another announcement
					if depth == 0 || len(foreignChains) < 2 {
						continue
					}
					oi := tp.Intn(len(foreignChains))
					other := foreignChains[oi]
					if len(other) > 0 && bytes.Equal(other[0].raw, ls[0].raw) {
						continue
					}
					// Records of the SAME announcement that reached P over another path are
					// records "for this very announcement": combining them is not a splice.
					if bytes.Equal(foreignCtx[oi], ctx) {
						continue
					}
					j := tp.Intn(depth)
					cp := append(append([]layer(nil), ls[:j+1]...), other...)
					if j == 0 {
						cp = append([]layer{ls[0]}, other...)
					}
					if foreignOrigin[oi] != origin && tp.Chance(1, 2) {
						rejectBurst("splice from another announcement, side by side with that announcement", lPV, withAppendix(parser, orig, encodeChain(cp, ctx, pKey)), foreignRaw[oi], origin, depth)
						continue
					}
					reject("splice from another announcement", lPV, withAppendix(parser, orig, encodeChain(cp, ctx, pKey)), depth)
				case 6: // swap two adjacent levels
					if depth < 2 {
						continue
					}
					j := tp.Intn(depth - 1)
					cp := append([]layer(nil), ls...)
					cp[j], cp[j+1] = cp[j+1], cp[j]
					rs := map[int]*m.Address{}
					if j > 0 {
						rs = pKey
					}
					reject("reorder records", lPV, withAppendix(parser, orig, encodeChain(cp, ctx, rs)), depth)
				case 7: // strip the outermost record: an earlier stage of the flood, delivered by the wrong peer
					if depth == 0 {
						continue
					}
					reject("strip outermost record", lPV, withAppendix(parser, orig, ls[0].at.NextAttachment), depth)
				case 8: // strip an inner record, outermost re-signed by P
					// (Stripping the record right below P's own only changes P's own
					// statement - a malicious peer may always claim a shorter path - so
					// the stripped record must lie deeper: then an honest router's
					// record has to be re-encoded and its signature breaks.)
					if depth < 3 {
						continue
					}
					j := 2 + tp.Intn(depth-2)
					cp := append(append([]layer(nil), ls[:j]...), ls[j+1:]...)
					reject("strip inner record", lPV, withAppendix(parser, orig, encodeChain(cp, ctx, pKey)), depth)
				case 9: // duplicate a record
					if depth == 0 {
						continue
					}
					j := tp.Intn(depth)
					cp := append(append(append([]layer(nil), ls[:j+1]...), ls[j]), ls[j+1:]...)
					rs := map[int]*m.Address{}
					if j > 0 {
						rs = pKey
					}
					reject("duplicate record", lPV, withAppendix(parser, orig, encodeChain(cp, ctx, rs)), depth)
				case 10: // right announcement, wrong link
					reject("delivered by a peer that is not the outermost signer", lYV, append([]byte(nil), orig...), depth)
				}
			}

			// Wave 16: one more forged splice per announcement, always handed over together with
			// the genuine announcement its foreign records were taken from (see rejectBurst).
			if depth > 0 && len(foreignChains) >= 2 && tp.Chance(1, 2) {
				oi := tp.Intn(len(foreignChains))
				other := foreignChains[oi]
				if foreignOrigin[oi] != origin && !bytes.Equal(foreignCtx[oi], ctx) && !(len(other) > 0 && bytes.Equal(other[0].raw, ls[0].raw)) {
					j := tp.Intn(depth)
					cp := append(append([]layer(nil), ls[:j+1]...), other...)
					if j == 0 {
						cp = append([]layer{ls[0]}, other...)
					}
					rejectBurst("splice from another announcement, side by side with that announcement", lPV, withAppendix(parser, orig, encodeChain(cp, ctx, pKey)), foreignRaw[oi], origin, depth)
				}
			}

			// ---- honest delivery ----
			before := V.Router.Table().VerifEntries()
			burst := false
			if tp.Chance(1, 3) {
				// a second genuine announcement - of another origin - reaches V in the same instant:
				// two of V's workers handle them side by side
				for _, cj := range tp.Perm(len(captured)) {
					of, err := mesh.ParseCrossing(parser, captured[cj])
					if err != nil {
						continue
					}
					otherOrigin := of.SrcIP()
					of.ReturnToPool()
					if cj == ci || otherOrigin == origin {
						continue
					}
					p1 := &simnet.Packet{Conn: lPV.ConnID(), Dir: 9, Seq: 1, From: lPV, To: lPV.Other, Data: append([]byte(nil), orig...), Tag: "adv", NoDelay: true}
					p2 := &simnet.Packet{Conn: lPV.ConnID(), Dir: 9, Seq: 2, From: lPV, To: lPV.Other, Data: append([]byte(nil), captured[cj]...), Tag: "adv", NoDelay: true}
					if tp.Chance(1, 2) {
						p1, p2 = p2, p1
					}
					burstOps, switchAt = 0, [2]int{1 + tp.Intn(60), 1 + tp.Intn(120)}
					ms.Net.DeliverRaw(p1)
					ms.Net.DeliverRaw(p2)
					simnet.Wait()
					switchAt = [2]int{}
					burst = true
					if e.Trace {
						e.Logf("burst: orig origin=%s depth=%d with origin=%s (swapped=%v)", ms.Nodes[byIP[origin]].Name, depth, ms.Nodes[byIP[otherOrigin]].Name, p1.Seq == 2)
						for _, en := range V.Router.Table().VerifEntries() {
							if en.DstIP == origin {
								e.Logf("  after: route to %s hops=%d d1=%d exp=%s", ms.Nodes[byIP[en.DstIP]].Name, len(en.Path.Hops), en.Path.Hops[1].Delay, en.Expires.Format("15:04:05"))
							}
						}
						for cx, oc := range captured {
							if of, err := mesh.ParseCrossing(parser, oc); err == nil {
								if of.SrcIP() == origin {
									ls2, _ := parseChain(of.AppendixData())
									d0 := -1
									if len(ls2) > 0 {
										d0 = int(ls2[0].at.Delay)
									}
									e.Logf("  captured[%d] origin=%s depth=%d d0=%d seqtime=%s self=%v", cx, ms.Nodes[byIP[origin]].Name, len(ls2), d0, of.(*frame.FrameV1).SequenceTime().Format("15:04:05.000"), cx == ci)
								}
								of.ReturnToPool()
							}
						}
						for _, en := range before {
							if en.DstIP == origin {
								e.Logf("  before: route to %s hops=%d d1=%d exp=%s", ms.Nodes[byIP[en.DstIP]].Name, len(en.Path.Hops), en.Path.Hops[1].Delay, en.Expires.Format("15:04:05"))
							}
						}
					}
					e.Probe("two_announcements_handled_side_by_side")
					break
				}
			}
			if !burst {
				inject(lPV, append([]byte(nil), orig...))
			}
			ms.CheckPanics("worker-panic")
			after := V.Router.Table().VerifEntries()
			if burst {
				// only what V holds for this origin is judged here (the other announcement is
				// judged when its turn comes)
				only := func(es []m.RoutingTableEntry) (out []m.RoutingTableEntry) {
					for _, en := range es {
						if en.DstIP == origin {
							out = append(out, en)
						}
					}
					return out
				}
				before, after = only(before), only(after)
			}
			// Look for a route to the origin via P whose relays are exactly the signers.
			wantRouters := []netip.Addr{V.IP}
			for _, l := range ls {
				wantRouters = append(wantRouters, l.at.Router.IP)
			}
			wantRouters = append(wantRouters, origin)
			var found *m.RoutingTableEntry
			for i := range after {
				en := &after[i]
				if en.DstIP != origin || len(en.Path.Hops) != len(wantRouters) {
					continue
				}
				same := true
				for j, h := range en.Path.Hops {
					if h.Router != wantRouters[j] {
						same = false
					}
				}
				if same {
					found = en
				}
			}
			changed := len(before) != len(after) || tableKeyOf(before) != tableKeyOf(after)
			if burst && !changed {
				// Nothing was learned from this delivery: of two frames that arrive in the same
				// instant a router may shed one when no worker is idle (load shedding, not an
				// acceptance), and what the table holds is then the outcome of earlier deliveries.
				found = nil
				e.Probe("burst_without_change_for_this_origin")
			}
			if found != nil {
				if found.NextHop != P.IP {
					e.Fail("next-hop-is-not-delivering-peer", "route learned from an announcement delivered by P has next hop %s", found.NextHop)
				}
				for j, l := range ls {
					h := found.Path.Hops[1+j]
					if h.Delay != l.at.Delay || h.ForwardLabel != l.at.ForwardLabel || h.ReturnLabel != l.at.ReturnLabel {
						e.Fail("route-hop-differs-from-signed-record", "hop %d of the learned route has delay/labels %d/%d/%d, the signed record says %d/%d/%d",
							j, h.Delay, h.ForwardLabel, h.ReturnLabel, l.at.Delay, l.at.ForwardLabel, l.at.ReturnLabel)
					}
					// byte-identical to a production of that signer for this very announcement
					if !prod[view.Instance][l.at.Router.IP][string(l.raw)] {
						e.Fail("accepted-record-never-produced", "accepted hop record of %s at level %d was never put on a link by that router for this announcement", l.at.Router.IP, j)
					}
				}
				e.Probe("honest_announcement_accepted")
			} else if changed {
				e.Fail("route-does-not-match-signers", "after an honest announcement with signers %v the table changed, but holds no route listing exactly those routers", wantRouters)
			}
			// let V's forwards flow
			pump(50 * time.Millisecond)
		}
	}
	processRound(order)

	// ---- the next announcement round, five minutes later, over links whose delays have shifted ----
	// (between two links of the line by the same amount, so that the sum along the path stays
	// the same): what V holds afterwards must be what was signed in *this* round.
	if tp.Chance(1, 3) {
		var line []*simnet.Link
		for _, l := range ms.Net.Links() {
			if l.Local != V && l.Remote != V && l.Local != Y && l.Remote != Y {
				line = append(line, l)
			}
		}
		if len(line) >= 2 {
			a, b := line[tp.Intn(len(line))], line[tp.Intn(len(line))]
			if a != b && a.Other != b {
				d := uint16(1 + tp.Intn(20))
				if a.Latency() > d {
					a.SetLatency(a.Latency() - d)
					a.Other.SetLatency(a.Other.Latency() - d)
					b.SetLatency(b.Latency() + d)
					b.Other.SetLatency(b.Other.Latency() + d)
					e.Probe("link_delays_shifted_between_rounds")
				}
			}
		}
		first := len(captured)
		pump(5*time.Minute + 2*time.Second)
		ms.CheckPanics("worker-panic")
		if len(captured) > first {
			var second []int
			for i := first; i < len(captured); i++ {
				second = append(second, i)
			}
			for i := range second { // tape-ordered
				j := i + tp.Intn(len(second)-i)
				second[i], second[j] = second[j], second[i]
			}
			processRound(second)
			e.Probe("second_announcement_round")
		}
	}

	// ---- long chains signed with real keys of simulated identities ----
	if tp.Chance(1, 3) && len(captured) > 0 {
		orig := captured[order[0]]
		f, err := mesh.ParseCrossing(parser, orig)
		if err == nil {
			ctx := signingContext(f)
			origin := f.SrcIP()
			f.ReturnToPool()
			d := 7 + tp.Intn(110)
			var cp []layer
			rs := map[int]*m.Address{}
			cp = append(cp, layer{at: router.AnnouncePingAttachment{Router: P.ID.PublicAddress, Delay: 5, ForwardLabel: 3, ReturnLabel: 4}})
			rs[0] = P.ID
			for i := 1; i < d; i++ {
				id := ident.Get(ident.Routable, 40+i)
				if _, dup := byIP[id.IP]; dup || id.IP == origin {
					continue
				}
				cp = append(cp, layer{at: router.AnnouncePingAttachment{Router: id.PublicAddress, Delay: uint16(tp.Intn(40)), ForwardLabel: m.SwitchLabel(1 + tp.Intn(16000)), ReturnLabel: m.SwitchLabel(1 + tp.Intn(16000))}})
				rs[len(cp)-1] = id
			}
			data := withAppendix(parser, orig, encodeChain(cp, ctx, rs))
			if data != nil && len(data) < 60000 {
				// First with one record altered after signing - anywhere in the chain, mostly deep
				// down: every record of a chain is verified, however long the chain is.
				if len(cp) >= 3 {
					j := 1 + tp.Intn(len(cp)-1)
					if tp.Chance(2, 3) {
						j = len(cp) - 1 - tp.Intn(min(3, len(cp)-1))
					}
					good := encodeChain(cp, ctx, rs)
					bad := make([]layer, len(cp))
					copy(bad, cp)
					bad[j].at.Delay += uint16(1 + tp.Intn(100))
					// re-sign every level above j (their signers go along with it), keep j's signature
					rs2 := map[int]*m.Address{}
					for i := 0; i < j; i++ {
						rs2[i] = rs[i]
					}
					if gl, ok := parseChain(good); ok && len(gl) == len(cp) {
						for i := j; i < len(cp); i++ {
							bad[i].sig = gl[i].sig
						}
						reject("long-chain record altered after signing", lPV, withAppendix(parser, orig, encodeChain(bad, ctx, rs2)), len(cp))
						e.Probe("long_chain_with_altered_deep_record")
					}
				}
				inject(lPV, data)
				ms.CheckPanics("worker-panic")
				e.Probe("long_chain_presented")
				if len(cp) >= 99 {
					e.Probe("chain_at_depth_limit")
				}
				// Whatever V made of it: a route to this origin over P lists exactly the routers of
				// one chain that was really signed for it - never a shortened or partial one.
				legit := map[string]bool{}
				addLegit := func(ls []layer) {
					var b strings.Builder
					for i := 0; i < len(ls); i++ { // outermost record = V's peer = first relay on the way out
						fmt.Fprintf(&b, "%s,", ls[i].at.Router.IP)
					}
					legit[b.String()] = true
				}
				addLegit(cp)
				for _, c := range captured {
					if f2, err := mesh.ParseCrossing(parser, c); err == nil {
						if f2.SrcIP() == origin {
							if ls, ok := parseChain(f2.AppendixData()); ok {
								addLegit(ls)
							}
						}
						f2.ReturnToPool()
					}
				}
				for _, en := range V.Router.Table().VerifEntries() {
					if en.DstIP != origin || en.NextHop != P.IP || en.Source != m.RouteSourceGossip {
						continue
					}
					hops := en.Path.Hops
					if len(hops) > 0 && hops[0].Router == V.IP {
						hops = hops[1:]
					}
					if len(hops) > 0 && hops[len(hops)-1].Router == origin {
						hops = hops[:len(hops)-1]
					}
					var b strings.Builder
					relays := len(hops)
					for _, h := range hops {
						fmt.Fprintf(&b, "%s,", h.Router)
					}
					if !legit[b.String()] {
						e.Fail("route-lists-other-routers-than-signed/long-chain", "after an announcement with %d signed hop records V holds a route to its origin over P that lists %d relays - not the routers of any chain signed for this origin (route: %s; chains: %v)", len(cp), relays, b.String(), legit)
					}
					if relays == len(cp) {
						e.Probe("long_chain_accepted_as_route")
					}
				}
			}
		}
	}
	e.Sample("line of %d routers before V, %d announcements captured on P->V", lineLen, len(captured))
}

func tableKeyOf(es []m.RoutingTableEntry) string {
	var b strings.Builder
	for _, en := range es {
		fmt.Fprintf(&b, "%s|%s|%v|%s;", en.DstIP, en.NextHop, en.Source, fmt.Sprint(en.Path.Hops))
	}
	return b.String()
}

func TestCheck(t *testing.T) {
	core.Main(t, &core.Check{
		ID:             "C08",
		QuickRuns:      480,
		ThoroughRuns:   16000,
		MinimiseBudget: 80,
		Run:            run,
	})
}
