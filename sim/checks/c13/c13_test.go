// C13 No input from the network can panic or stall a router worker.
//
// Simulated system: one long-lived victim V (full real node: state, peering,
// switch, router and all their workers), an authenticated malicious peer M and
// an honest peer H, all joined by byte-level simulated connections carrying
// real LinkBase links (so M's malformed messages are correctly link-sealed),
// plus raw unauthenticated connections to V's listener. The tape generates
// (a) arbitrary byte strings before, during and after a handshake and
// (b) structure-aware malformed but correctly sealed messages from M.
// Oracle: no worker-panic alert, no panic report on stderr, and after every
// batch H's ping-pong to V completes within 5 fake seconds.
package c13

import (
	"bytes"
	"fmt"
	"net/netip"
	"os"
	"runtime"
	"strings"
	"testing"
	"time"

	"github.com/fxamacker/cbor/v2"

	"github.com/mycoria/crop"
	"github.com/mycoria/mycoria/frame"
	"github.com/mycoria/mycoria/m"
	"github.com/mycoria/mycoria/peering"
	"github.com/mycoria/mycoria/router"

	"mycoverif/core"
	"mycoverif/ident"
	"mycoverif/linkpair"
	"mycoverif/node"
	"mycoverif/simnet"
)

var cborKeys = []string{"kx", "kxt", "mtu", "msg", "u", "d", "t", "p", "off", "i", "b", "s", "e", "v", "l", "srv", "n", "dns", "url", "r", "f", "a", "c", "lv", "tmtu", "err", "ua", "ack", "h", "k"}

func genValue(tp *core.Tape, depth int) any {
	switch tp.Intn(12) {
	case 0:
		return uint64(tp.Uint32())<<32 | uint64(tp.Uint32())
	case 1:
		return -int64(tp.Uint32())
	case 2:
		return tp.Bytes(tp.Intn([]int{4, 40, 600, 5000}[tp.Intn(4)]))
	case 3:
		return string(tp.Bytes(tp.Intn(300)))
	case 4:
		return tp.Chance(1, 2)
	case 5:
		return nil
	case 6:
		return float64(tp.Uint32()) / 7
	case 7, 8:
		if depth > 40 {
			return 1
		}
		n := tp.Intn(4)
		arr := make([]any, n)
		for i := range arr {
			arr[i] = genValue(tp, depth+1)
		}
		return arr
	case 9, 10:
		if depth > 40 {
			return 2
		}
		mp := map[string]any{}
		for i, n := 0, tp.Intn(5); i < n; i++ {
			mp[cborKeys[tp.Intn(len(cborKeys))]] = genValue(tp, depth+1)
		}
		return mp
	default:
		return cbor.Tag{Number: uint64(tp.Intn(300)), Content: genValue(tp, depth+1)}
	}
}

func mutateBytes(tp *core.Tape, b []byte) []byte {
	b = append([]byte(nil), b...)
	if len(b) == 0 {
		return tp.Bytes(1 + tp.Intn(20))
	}
	switch tp.Intn(6) {
	case 0:
		b[tp.Intn(len(b))] ^= 1 << tp.Intn(8)
	case 1:
		b = b[:tp.Intn(len(b))]
	case 2: // huge declared length
		pos := tp.Intn(len(b))
		huge := []byte{[]byte{0x5b, 0x7b, 0x9b, 0xbb}[tp.Intn(4)], 0x7f, 0xff, 0xff, 0xff, 0xff, 0xff, 0xff, 0xff}
		b = append(append(append([]byte(nil), b[:pos]...), huge...), b[pos:]...)
	case 3: // deep nesting
		d := 10 + tp.Intn(3000)
		b = append(bytesRepeat(0x81, d), b...)
	case 4:
		b = append(b, tp.Bytes(tp.Intn(100))...)
	default:
		pos := tp.Intn(len(b))
		b[pos] = byte(tp.Intn(256))
	}
	return b
}

func bytesRepeat(x byte, n int) []byte {
	o := make([]byte, n)
	for i := range o {
		o[i] = x
	}
	return o
}

var hashNames = []crop.Hash{"BLAKE3", "", "nope", "SHA2_256", "SHA3_512", "BLAKE2s_256", crop.Hash(strings.Repeat("H", 300)), "blake3"}
var keyTypes = []crop.KeyPairType{"Ed25519", "", "X25519", crop.KeyPairType(strings.Repeat("K", 300)), "ed25519"}
var pingTypes = []string{"hello", "pong", "error", "disconnect", "announce", "verifprobe", "nope", "", "HELLO", "a.b", strings.Repeat("x", 200)}

type world struct {
	e       *core.Env
	tp      *core.Tape
	cn      *simnet.ConnNet
	V, M, H *linkpair.Stack
	what    string
	// fn carries the frame-level links of V's two further peers (a third of the runs)
	fn *simnet.Net
}

// drain delivers what is in flight on the byte-level connections and on the frame-level links.
func (w *world) drain(n int) {
	w.cn.DrainFIFO(w.tp, n)
	if w.fn != nil {
		w.fn.DrainFIFO(w.tp, n)
		w.cn.DrainFIFO(w.tp, n)
	}
}

func (w *world) runFor(d time.Duration, n int) {
	w.cn.RunFor(w.tp, d, n)
	if w.fn != nil {
		w.fn.DrainFIFO(w.tp, n)
	}
}

func (w *world) connect(from, to *linkpair.Stack) peering.Link {
	att := linkpair.Dial(w.cn, from, to)
	w.cn.DrainFIFO(w.tp, 200)
	if att.Result.Panic != "" {
		w.e.Fail("setup-panic:"+core.PanicClass(att.Result.Panic), "honest link setup panicked")
	}
	return from.Node.Peering.GetLink(to.Node.IP)
}

func (w *world) panics() {
	stacks := node.PanicStacks(node.NewStderr())
	if len(stacks) > 0 {
		first := strings.TrimSpace(stacks[0])
		if i := strings.Index(first, "\n"); i > 0 {
			first = first[:i]
		}
		w.e.Fail("worker-panic:"+core.PanicClass(stacks[0]), "%s (after %s)", first, w.what)
	}
	for _, s := range []*linkpair.Stack{w.V, w.M, w.H} {
		if len(s.Node.PanicAlerts()) > 0 {
			w.e.Fail("worker-panic:alert-without-stack", "worker-panic alert at %s (after %s)", s.Node.Name, w.what)
		}
	}
}

// pingBody assembles version, header length, CBOR header and body with
// optional inconsistencies.
// forceCode, if >= 0, fixes the ping code of the next header pingBody builds.
var forceCode = -1

func pingBody(tp *core.Tape, id *m.Address, pingType string, body []byte) []byte {
	hdr := router.PingHeader{
		PingID: uint64(tp.Uint32()), PingType: pingType, PingCode: uint8(tp.Intn(7)), FollowUp: tp.Chance(1, 3),
		AddrHash: id.Hash, KeyType: id.Type, PublicKey: id.PublicKey,
	}
	if forceCode >= 0 {
		hdr.PingCode, hdr.FollowUp = uint8(forceCode), false
		forceCode = -1
	}
	switch tp.Intn(8) {
	case 0:
		hdr.AddrHash = hashNames[tp.Intn(len(hashNames))]
	case 1:
		hdr.KeyType = keyTypes[tp.Intn(len(keyTypes))]
	case 2:
		hdr.PublicKey = tp.Bytes([]int{0, 1, 31, 33, 64, 200}[tp.Intn(6)])
	}
	hd, _ := cbor.Marshal(&hdr)
	if tp.Chance(1, 6) {
		hd = mutateBytes(tp, hd)
	}
	hl := len(hd)
	if hl > 255 {
		hd, hl = hd[:255], 255
	}
	declared := hl
	if tp.Chance(1, 8) {
		declared = tp.Intn(256)
	}
	out := []byte{byte([]int{1, 1, 1, 0, 2, 255}[tp.Intn(6)]), byte(declared)}
	out = append(out, hd...)
	out = append(out, body...)
	if tp.Chance(1, 12) {
		out = out[:tp.Intn(len(out)+1)]
	}
	if len(out) == 0 {
		out = []byte{0}
	}
	return out
}

func run(e *core.Env) {
	tp := e.Tape
	forceCode = -1
	e.StartClock()
	node.CaptureStderr()
	node.NewStderr()
	w := &world{e: e, tp: tp, cn: simnet.NewConnNet(e)}
	perm := tp.Perm(10)
	// V has a stub tun device in half of the runs, so that authenticated
	// traffic reaches the inner-packet checks instead of the rejected path.
	vTun := tp.Chance(1, 2)
	// In a quarter of the runs V is configured to connect on its own to routers it hears
	// about (the shipped generator writes autoConnect: true): what announcements put into the
	// router records is then read by the connect manager, a worker of its own that sits in
	// connection attempts for simulated seconds.
	auto := tp.Chance(1, 4)
	minAuto := []int{0, 1, 3, 25}[tp.Intn(4)]
	mk := func(name string, i int) *linkpair.Stack {
		id := ident.Get(ident.Routable, perm[i])
		st := node.BaseStore(id)
		if name == "V" && auto {
			st.Router.AutoConnect = true
			st.Router.MinAutoConnect = minAuto
		}
		return linkpair.NewStackTun(e, name, id, st, true, name == "V" && vTun)
	}
	w.V, w.M, w.H = mk("V", 0), mk("M", 1), mk("H", 2)
	V, M, H := w.V.Node, w.M.Node, w.H.Node
	fab := linkpair.NewFabric(w.cn)
	if auto {
		fab.DialLatency = time.Duration(1+tp.Intn(3000)) * time.Millisecond
		fab.Register("m.example", w.M.Listener)
		V.Peering.AddProtocol("sim", fab.Protocol())
		e.Probe("victim_connects_on_its_own")
	}
	lM := w.connect(w.M, w.V)
	lH := w.connect(w.H, w.V)
	if lM == nil || lH == nil {
		e.Infra("links to V did not come up")
	}
	// In a third of the runs V has two more peers, on frame-level links: a frame handed to such a
	// link is written and released before Send returns - the schedule in which a link's writer
	// is done with a frame at once. What V forwards to several peers (announcements,
	// disconnect notices) goes to them as well.
	if tp.Chance(1, 3) {
		w.fn = simnet.New(e)
		for k := 0; k < 2; k++ {
			F := mk(fmt.Sprintf("F%d", k+1), 3+k)
			if _, _, err := w.fn.Connect(V, F.Node, simnet.ConnectOpts{LabelAtA: m.SwitchLabel(200 + k), LabelAtB: m.SwitchLabel(77), LatencyMs: 3}); err != nil {
				e.Infra("frame-level peer: %v", err)
			}
		}
		e.Probe("victim_with_four_peers")
	}
	// Let announcements flow, then set up end-to-end keys M<->V.
	w.cn.RunFor(tp, 5*time.Second+300*time.Millisecond, 20000)
	w.drain(5000)
	if _, err := M.Router.HelloPing.Send(V.IP); err == nil {
		simnet.Wait()
		w.drain(2000)
	}
	w.panics()
	unknown := ident.Get(ident.Routable, 20+tp.Intn(8)) // identities V has never seen

	sendFromM := func(f frame.Frame) {
		l := M.Peering.GetLink(V.IP)
		if l == nil {
			// M's link was closed (e.g. after garbage): reconnect like a real peer would.
			l = w.connect(w.M, w.V)
			e.Probe("malicious_peer_reconnected")
			if l == nil {
				f.ReturnToPool()
				return
			}
		}
		if f.MessageType().IsPriority() {
			_ = l.SendPriority(f)
		} else {
			_ = l.Send(f)
		}
		simnet.Wait()
		w.drain(400)
	}
	labelsAtV := func() []m.SwitchLabel {
		var ls []m.SwitchLabel
		for _, l := range V.Peering.GetLinks() {
			ls = append(ls, l.SwitchLabel())
		}
		return ls
	}
	genSwitchBlock := func() []byte {
		switch tp.Intn(6) {
		case 0:
			return nil
		case 1:
			return tp.Bytes(1 + tp.Intn(255))
		case 2:
			return bytesRepeat(0xff, 1+tp.Intn(255)) // over-long varints
		case 3:
			return make([]byte, 1+tp.Intn(255)) // zeros
		default:
			var b []byte
			ls := labelsAtV()
			for i, n := 0, 1+tp.Intn(60); i < n; i++ {
				l := uint64(tp.Intn(70000))
				if len(ls) > 0 && tp.Chance(1, 2) {
					l = uint64(ls[tp.Intn(len(ls))])
				}
				var buf [4]byte
				k := 0
				for l >= 0x80 {
					buf[k] = byte(l) | 0x80
					l >>= 7
					k++
				}
				buf[k] = byte(l)
				b = append(b, buf[:k+1]...)
			}
			b = append(b, make([]byte, tp.Intn(4))...)
			if len(b) > 255 {
				b = b[:255]
			}
			return b
		}
	}

	nBatches := 3 + tp.Intn(10)
	for batch := 0; batch < nBatches; batch++ {
		e.Step()
		switch tp.Pick(2, 10, 2) {
		case 2:
			// ---- (c) the authenticated peer misbehaves inside an exchange V started ----
			// V pings M like its keep-alive does (also a retry with the same id); M's honest
			// router answers; on top of that M sends further, correctly sealed answers to the
			// same request: duplicates, answers with a wrong body, answers to an unknown id.
			_, id, err := V.Router.PingPong.Send(M.IP, true, 0)
			if err != nil {
				break
			}
			if tp.Chance(1, 3) {
				_, _, _ = V.Router.PingPong.Send(M.IP, true, id)
			}
			early := tp.Chance(1, 2)
			if !early {
				simnet.Wait()
				w.drain(400)
			}
			for k, n := 0, 1+tp.Intn(3); k < n; k++ {
				hdr := router.PingHeader{PingID: id, PingType: "pong", FollowUp: true}
				inner, _ := cbor.Marshal(map[string]string{"msg": "pong"})
				switch tp.Intn(6) {
				case 0:
					inner, _ = cbor.Marshal(map[string]string{"msg": "ping"})
				case 1:
					inner = tp.Bytes(tp.Intn(40))
				case 2:
					hdr.PingID = uint64(tp.Uint32())
				}
				hd, _ := cbor.Marshal(&hdr)
				body := append([]byte{1, byte(len(hd))}, append(hd, inner...)...)
				f, err := M.Inst.Builder.NewFrameV1(M.IP, V.IP, frame.RouterPing, nil, body, nil)
				if err != nil {
					continue
				}
				if sess := M.State.GetSession(V.IP); sess == nil || f.Seal(sess) != nil {
					f.ReturnToPool()
					continue
				}
				w.what = fmt.Sprintf("extra answer %d of M to V's own ping (before the honest answer: %v)", k+1, early)
				sendFromM(f)
				w.panics()
			}
			simnet.Wait()
			w.drain(400)
			e.Probe("extra_answers_to_own_request")
			e.Fault("duplicate_response")
		case 0:
			// ---- (a) raw bytes on a fresh connection to V's listener ----
			pair := w.cn.NewPair("raw")
			if !w.V.Listener.Offer(pair.B) {
				e.Infra("listener gone")
			}
			simnet.Wait()
			mode := tp.Intn(6)
			w.what = fmt.Sprintf("raw connection mode %d", mode)
			switch mode {
			case 4, 5:
				// A remote end with a valid identity of its own that signs everything correctly -
				// the shipped handshake code produces its messages - but puts oversized or
				// wrongly typed values into its handshake response. The frame is assembled by
				// hand: a peer is not bound by the size limits of our frame builder.
				oid := ident.Get(ident.Routable, 34+tp.Intn(4))
				O, err := node.New("O", oid, node.BaseStore(oid), node.Options{LinkOnly: true})
				if err != nil {
					e.Infra("node: %v", err)
				}
				take := func() frame.Frame {
					simnet.Wait()
					for _, r := range w.cn.Pending() {
						if r.Conn == pair && r.Dir == 1 && !r.EOF && len(r.Data) > 2 {
							w.cn.Remove(r)
							d := r.Data[2:]
							ps := O.Inst.Builder.GetPooledSlice(len(d))
							copy(ps, d)
							if f, err := O.Inst.Builder.ParseFrame(ps[:len(d)], ps, 0); err == nil {
								return f
							}
							return nil
						}
					}
					return nil
				}
				sendRaw := func(f frame.Frame) {
					d, err := f.FrameDataWithMargins(0, 0)
					if err != nil {
						return
					}
					rec := make([]byte, 2+len(d))
					m.PutUint16(rec[:2], uint16(len(rec)))
					copy(rec[2:], d)
					w.cn.DeliverBytes(pair.B, rec, false)
				}
				hs, oReq, err := O.Peering.VerifNewHandshake(true)
				if err != nil {
					e.Infra("handshake state: %v", err)
				}
				sendRaw(oReq)
				vReq := take()
				if vReq == nil {
					break
				}
				oResp, err := hs.Handle(vReq)
				if err != nil || oResp == nil {
					break
				}
				var rm map[string]any
				if cbor.Unmarshal(oResp.MessageData(), &rm) != nil {
					break
				}
				big := []int{300, 2500, 9000, 16500, 17000, 30000, 60000}[tp.Intn(7)]
				fill := []byte{1, 'a', '"', 0xff, 0}[tp.Intn(5)]
				switch tp.Intn(6) {
				case 0, 1:
					rm["kxt"] = strings.Repeat(string([]byte{fill}), big)
				case 2:
					rm["kx"] = bytes.Repeat([]byte{fill}, big)
				case 3:
					rm["err"] = strings.Repeat(string([]byte{fill}), big)
				case 4:
					rm["c"] = bytes.Repeat([]byte{fill}, big)
				default:
					rm[cborKeys[tp.Intn(len(cborKeys))]] = genValue(tp, 38)
					rm["kxt"] = genValue(tp, 38)
				}
				msg, _ := cbor.Marshal(rm)
				if 48+1+2+len(msg)+64 > 65000 {
					msg = msg[:65000-115]
				}
				raw := make([]byte, 48+1+2+len(msg)+64)
				raw[0], raw[4] = 1, byte(frame.RouterPing)
				sa, da := oid.IP.As16(), V.IP.As16()
				copy(raw[16:32], sa[:])
				copy(raw[32:48], da[:])
				m.PutUint16(raw[49:51], uint16(len(msg)))
				copy(raw[51:], msg)
				ps := O.Inst.Builder.GetPooledSlice(len(raw))
				if ps == nil {
					break
				}
				copy(ps, raw)
				f, err := O.Inst.Builder.ParseFrame(ps[:len(raw)], ps, 0)
				if err != nil {
					break
				}
				if fv, ok := f.(*frame.FrameV1); ok {
					fv.SetTTL(0)
					fv.SetSequenceTime(time.Now().Round(time.Millisecond).Add(5 * time.Millisecond))
					_ = fv.SignRaw(oid.PrivateKey)
					fv.SetTTL(1)
					w.what = fmt.Sprintf("well-signed handshake response of %d bytes with an odd field, from a dialling stranger", len(raw))
					sendRaw(fv)
					e.Probe("well_signed_handshake_response_with_odd_fields")
				}

			case 0: // pure noise
				for i, n := 0, 1+tp.Intn(4); i < n; i++ {
					w.cn.DeliverBytes(pair.B, tp.Bytes(tp.Intn(66000)), false)
				}
			case 1: // extreme length prefixes
				for _, l := range []int{0, 1, 2, 3, 4, 0xffff, 0xfffe, 600, 601} {
					b := tp.Bytes(2 + tp.Intn(40))
					m.PutUint16(b[:2], uint16(l))
					w.cn.DeliverBytes(pair.B, b, false)
				}
			case 2: // a real peering request from a throw-away identity, then noise
				att := ident.Get(ident.Routable, 30+tp.Intn(4))
				type req struct {
					V  string          `cbor:"v,omitempty"`
					U  string          `cbor:"u,omitempty"`
					A  m.PublicAddress `cbor:"a,omitempty"`
					C  []byte          `cbor:"c,omitempty"`
					LV int             `cbor:"lv,omitempty"`
				}
				r := req{V: "x", A: att.PublicAddress, C: tp.Bytes(tp.Intn(64)), LV: tp.Intn(3)}
				switch tp.Intn(5) {
				case 0:
					r.A.Hash = hashNames[tp.Intn(len(hashNames))]
				case 1:
					r.A.Type = keyTypes[tp.Intn(len(keyTypes))]
				case 2:
					r.A.PublicKey = tp.Bytes([]int{0, 1, 31, 33, 64, 70000}[tp.Intn(6)])
				case 3:
					r.A.IP = netip.MustParseAddr("2001:db8::1")
				}
				body, _ := cbor.Marshal(&r)
				if tp.Chance(1, 3) {
					body = mutateBytes(tp, body)
				}
				if len(body) > 10000 {
					body = body[:10000]
				}
				if f, err := frame.NewFrameBuilder().NewFrameV1(r.A.IP, m.RouterAddress, frame.RouterPing, nil, body, nil); err == nil {
					f.SetTTL(0)
					f.SetSequenceTime(time.Now())
					_ = f.SignRaw(att.PrivateKey)
					f.SetTTL(1)
					d, _ := f.FrameDataWithMargins(0, 0)
					rec := make([]byte, 2+len(d))
					m.PutUint16(rec[:2], uint16(len(rec)))
					copy(rec[2:], d)
					w.cn.DeliverBytes(pair.B, rec, false)
				}
				w.drain(50)
				w.cn.DeliverBytes(pair.B, tp.Bytes(tp.Intn(3000)), false)
			default: // noise in the middle of M's established link
				for _, p := range w.cn.Pairs() {
					if p.Name == "M>V" && !p.A.IsClosed() && tp.Chance(1, 2) {
						w.cn.DeliverBytes(p.B, tp.Bytes(1+tp.Intn(70000)), false)
						w.what = "noise on the established link of M"
					}
				}
			}
			w.drain(2000)
			_ = pair.A.Close()
			w.drain(100)
			e.Fault("inject")

		default:
			// ---- (b) correctly sealed but malformed messages from M ----
			for k, n := 0, 1+tp.Intn(12); k < n; k++ {
				if tp.Chance(1, 8) {
					// A plain, fully valid message in between: an inner packet from M for V's
					// interface (V then keeps a connection state for M, whatever its verdict), or an
					// error report about M / V / H sealed by M. What the malformed messages around
					// it meet at V is then a router with a history.
					if tp.Chance(1, 2) {
						pkt := make([]byte, 44+tp.Intn(40))
						pkt[0] = 6 << 4
						pkt[6] = []byte{6, 17, 58}[tp.Intn(3)]
						s, d := M.IP.As16(), V.IP.As16()
						copy(pkt[8:24], s[:])
						copy(pkt[24:40], d[:])
						m.PutUint16(pkt[40:42], uint16(1024+tp.Intn(3)))
						m.PutUint16(pkt[42:44], []uint16{22, 53, 80}[tp.Intn(3)])
						if f, err := M.Inst.Builder.NewFrameV1(M.IP, V.IP, frame.NetworkTraffic, nil, pkt, nil); err == nil {
							if sess := M.State.GetSession(V.IP); sess != nil && f.Seal(sess) == nil {
								w.what = "valid traffic frame from M for V's interface"
								sendFromM(f)
								e.Probe("valid_traffic_frame_in_between")
							} else {
								f.ReturnToPool()
							}
						}
					} else {
						about := []netip.Addr{M.IP, M.IP, H.IP, V.IP}[tp.Intn(4)]
						w.what = "valid error report from M about " + about.String()
						switch tp.Intn(3) {
						case 0:
							_ = M.Router.ErrorPing.SendUnreachable(V.IP, about)
						case 1:
							_ = M.Router.ErrorPing.SendRejected(V.IP, about, []uint8{6, 17, 58}[tp.Intn(3)], uint16(1024+tp.Intn(3)))
						default:
							_ = M.Router.ErrorPing.SendAccessDenied(V.IP, about, []uint8{6, 17, 58}[tp.Intn(3)], uint16(1024+tp.Intn(3)))
						}
						simnet.Wait()
						w.drain(400)
						e.Probe("valid_error_report_in_between")
					}
					w.panics()
					continue
				}
				src := M.ID
				firstContact := tp.Chance(1, 6)
				if firstContact {
					src = unknown
				}
				dst := V.IP
				switch tp.Intn(8) {
				case 0:
					dst = m.RouterAddress
				case 1:
					dst = H.IP
				case 2:
					dst = unknown.IP
				}
				mt := []frame.MessageType{frame.RouterPing, frame.RouterPing, frame.RouterHopPingDeprecated, frame.RouterHopPing, frame.RouterCtrl,
					frame.NetworkTraffic, frame.SessionCtrl, frame.SessionData, frame.MessageType(5), frame.MessageType(tp.Intn(256))}[tp.Intn(10)]
				var body, apx []byte
				kind := ""
				switch {
				case mt == frame.NetworkTraffic || mt == frame.SessionData || mt == frame.SessionCtrl:
					kind = "traffic"
					n := []int{0, 1, 39, 43, 44, 60, 1280, 9000}[tp.Intn(8)]
					pkt := tp.Bytes(n)
					if n >= 44 {
						pkt[0] = 6 << 4
						s, d := src.IP.As16(), V.IP.As16()
						switch tp.Intn(4) {
						case 0: // consistent
							copy(pkt[8:24], s[:])
							copy(pkt[24:40], d[:])
						case 1: // inner source differs
							copy(pkt[24:40], d[:])
						case 2: // inner destination differs
							copy(pkt[8:24], s[:])
						}
						pkt[6] = []byte{6, 17, 58, 0, 255}[tp.Intn(5)]
					}
					body = pkt
				default:
					pt := pingTypes[tp.Intn(len(pingTypes))]
					kind = "ping:" + pt
					var inner []byte
					switch tp.Intn(4) {
					case 0:
						inner, _ = cbor.Marshal(genValue(tp, 0))
					case 1: // the right shape with wrong field types
						mp := map[string]any{}
						for i, n := 0, 1+tp.Intn(6); i < n; i++ {
							mp[cborKeys[tp.Intn(len(cborKeys))]] = genValue(tp, 38)
						}
						inner, _ = cbor.Marshal(mp)
					case 2: // a valid announce message body
						msg := router.AnnouncePingMsg{Info: &m.RouterInfo{Version: "x", IANA: []string{strings.Repeat("i", tp.Intn(800))}},
							ReturnLabel: m.SwitchLabel(tp.Intn(65536)), Stub: tp.Chance(1, 2), Expires: time.Now().Add(time.Duration(tp.Intn(7200)-3600) * time.Second)}
						inner, _ = cbor.Marshal(&msg)
					default:
						inner = tp.Bytes(tp.Intn(200))
					}
					if tp.Chance(1, 6) {
						// a well-formed error report about a router V may hold connection states
						// for (the sender itself, another peer, V, a stranger)
						pt = "error"
						kind = "ping:error"
						about := []netip.Addr{M.IP, M.IP, H.IP, V.IP, unknown.IP}[tp.Intn(5)]
						if tp.Chance(1, 2) {
							inner, _ = cbor.Marshal(map[string]any{"u": about})
							forceCode = 1
						} else {
							inner, _ = cbor.Marshal(map[string]any{"d": about, "t": []uint8{6, 17, 58, 0}[tp.Intn(4)], "p": uint16(tp.Intn(65536))})
							forceCode = 3 + tp.Intn(2)
						}
						e.Probe("well_formed_error_report")
					}
					if tp.Chance(1, 8) {
						// a well-formed disconnect notice of the sender, as a hop ping or addressed to V
						// (V removes the routes over the sender and passes the notice on to its
						// other peers)
						pt = "disconnect"
						kind = "ping:disconnect"
						if tp.Chance(1, 2) {
							inner, _ = cbor.Marshal(map[string]any{"off": true})
						} else {
							inner, _ = cbor.Marshal(map[string]any{"d": []netip.Addr{H.IP, unknown.IP}[:1+tp.Intn(2)]})
						}
						if tp.Chance(2, 3) {
							mt = []frame.MessageType{frame.RouterHopPing, frame.RouterHopPingDeprecated}[tp.Intn(2)]
						} else {
							mt, dst = frame.RouterPing, V.IP
						}
						forceCode = 0
						e.Probe("well_formed_disconnect_notice")
					} else if tp.Chance(1, 4) {
						inner = mutateBytes(tp, inner)
					}
					body = pingBody(tp, src, pt, inner)
					// hop-record chains
					if tp.Chance(1, 3) {
						depth := []int{1, 2, 5, 30, 99, 100, 101, 120}[tp.Intn(8)]
						ctx := tp.Bytes(88)
						var nested []byte
						for i := 0; i < depth; i++ {
							signer := ident.Get(ident.Routable, 40+i%30)
							at := router.AnnouncePingAttachment{Router: signer.PublicAddress, Delay: uint16(tp.Intn(65536)),
								ForwardLabel: m.SwitchLabel(tp.Intn(65536)), ReturnLabel: m.SwitchLabel(tp.Intn(65536)), NextAttachment: nested}
							if i == depth-1 {
								at.Router = M.ID.PublicAddress
							}
							if tp.Chance(1, 20) {
								at.Router.Hash = hashNames[tp.Intn(len(hashNames))]
							}
							data, _ := cbor.Marshal(at)
							sig, _ := signer.SignWithContext(data, ctx)
							nested = append(data, sig...)
							if len(nested) > 9000 {
								break
							}
						}
						apx = nested
						if tp.Chance(1, 4) {
							apx = mutateBytes(tp, apx)
						}
						if len(apx) > 10000 {
							apx = apx[:10000]
						}
					}
				}
				if len(body) == 0 {
					body = []byte{0}
				}
				if len(body) > 10000 {
					body = body[:10000]
				}
				// sizes at pooled-buffer tier boundaries
				if tp.Chance(1, 5) && len(body) < 9000 {
					target := []int{600, 1600, 5100, 9600}[tp.Intn(4)] + tp.Intn(3) - 1
					pad := target - (12 + 51 + len(body) + 64 + len(apx) + 16)
					if pad > 0 && len(body)+pad <= 10000 {
						body = append(body, make([]byte, pad)...)
					}
				}
				sb := genSwitchBlock()
				// Transit frames are forwarded without looking at their seal: anything can stand
				// in the source field - also addresses no error reply can ever be sent to - and
				// the destination may be one whose best route leads back to where it came from.
				srcIP := src.IP
				if tp.Chance(1, 6) {
					var rb [16]byte
					copy(rb[:], tp.Bytes(16))
					srcIP = []netip.Addr{ident.Get(ident.Privacy, tp.Intn(4)).IP, netip.IPv6Unspecified(), netip.AddrFrom16(rb),
						netip.MustParseAddr("2001:db8::1"), V.IP, netip.MustParseAddr("fd00::4")}[tp.Intn(6)]
					rb[0], rb[1] = 0xfd, byte(0x10+tp.Intn(0x60))
					dst = []netip.Addr{M.IP, H.IP, unknown.IP, netip.AddrFrom16(rb)}[tp.Intn(4)]
					e.Probe("transit_frame_with_odd_source")
				}
				f, err := M.Inst.Builder.NewFrameV1(srcIP, dst, mt, sb, body, apx)
				if err != nil {
					continue
				}
				sealedOK := false
				if !firstContact {
					if sess := M.State.GetSession(dst); sess != nil {
						sealedOK = f.Seal(sess) == nil
					} else if sess := M.State.GetSession(V.IP); sess != nil && tp.Chance(1, 2) {
						sealedOK = f.Seal(sess) == nil
					}
				}
				if !sealedOK && !mt.IsEncrypted() {
					f.SetTTL(0)
					f.SetSequenceTime(time.Now().Add(time.Duration(tp.Intn(2000)-1000) * time.Millisecond))
					_ = f.SignRaw(src.PrivateKey)
				}
				// A properly signed announcement with a long, validly signed hop
				// chain whose labels need more than a switch block can hold.
				if tp.Chance(1, 10) && !firstContact {
					f.ReturnToPool()
					amsg := router.AnnouncePingMsg{Info: &m.RouterInfo{Version: "x"}, ReturnLabel: m.SwitchLabel(tp.Intn(65536)), Expires: time.Now().Add(time.Hour)}
					inner, _ := cbor.Marshal(&amsg)
					hdr := router.PingHeader{PingID: uint64(tp.Uint32()) + 1, PingType: "announce", AddrHash: unknown.Hash, KeyType: unknown.Type, PublicKey: unknown.PublicKey}
					hd, _ := cbor.Marshal(&hdr)
					abody := append([]byte{1, byte(len(hd))}, append(hd, inner...)...)
					af, aerr := M.Inst.Builder.NewFrameV1(unknown.IP, m.RouterAddress, frame.RouterHopPingDeprecated, nil, abody, nil)
					if aerr != nil {
						continue
					}
					af.SetTTL(0)
					af.SetSequenceTime(time.Now().Round(time.Millisecond).Add(time.Duration(k) * time.Millisecond))
					_ = af.SignRaw(unknown.PrivateKey)
					ctx := make([]byte, 88)
					copy(ctx[:16], unknown.IP.AsSlice())
					m.PutUint64(ctx[16:24], uint64(af.SequenceTime().UnixMilli()))
					copy(ctx[24:], af.AuthData())
					depth := []int{1, 2, 3, 30, 60, 90, 98}[tp.Intn(7)]
					big := tp.Chance(2, 3)
					var nested []byte
					// validly signed records around a malformed innermost attachment
					switch tp.Intn(5) {
					case 0:
						nested = tp.Bytes(1 + tp.Intn(63)) // shorter than a signature
					case 1:
						nested = tp.Bytes(64 + tp.Intn(3)) // signature-sized, (almost) no record
					case 2:
						nested = mutateBytes(tp, tp.Bytes(70+tp.Intn(200)))
					}
					for i := 0; i < depth; i++ {
						signer := ident.Get(ident.Routable, 40+i)
						if i == depth-1 {
							signer = M.ID
						}
						lab := func() m.SwitchLabel {
							if big {
								return m.SwitchLabel(16384 + tp.Intn(40000))
							}
							return m.SwitchLabel(1 + tp.Intn(127))
						}
						at := router.AnnouncePingAttachment{Router: signer.PublicAddress, Delay: uint16(tp.Intn(50)), ForwardLabel: lab(), ReturnLabel: lab(), NextAttachment: nested}
						data, _ := cbor.Marshal(at)
						sig, _ := signer.SignWithContext(data, ctx)
						nested = append(data, sig...)
					}
					if len(nested) > 10000 {
						af.ReturnToPool()
						continue
					}
					if err := af.SetAppendixData(nested); err != nil {
						af.ReturnToPool()
						continue
					}
					af.SetTTL(30)
					w.what = fmt.Sprintf("validly signed announcement from M with %d hop records, big labels=%v", depth, big)
					e.Probe("valid_long_announce_chain")
					sendFromM(af)
					w.panics()
					continue
				}
				f.SetTTL([]uint8{32, 1, 0, 2, 255}[tp.Intn(5)])
				if tp.Chance(1, 10) {
					f.SetFlowFlag(frame.FlowControlFlag(tp.Intn(256)))
				}
				w.what = fmt.Sprintf("frame from M: %s type=%d dst=%s switchblock=%d body=%d appendix=%d first-contact=%v", kind, mt, dst, len(sb), len(body), len(apx), firstContact)
				e.Ev("frame", uint64(mt), uint64(len(sb)), uint64(len(body)), uint64(len(apx)))
				sendFromM(f)
				w.panics()
				e.Fault("malformed_sealed_frame")
				// The same message again, 1..6 times in quick succession, each freshly sealed
				// (rate limits, cool-downs and duplicate handling have paths of their own).
				if tp.Chance(1, 5) && !firstContact {
					for rep, nrep := 0, 1+tp.Intn(6); rep < nrep; rep++ {
						g, err := M.Inst.Builder.NewFrameV1(src.IP, dst, mt, sb, body, apx)
						if err != nil {
							break
						}
						ok := false
						if sess := M.State.GetSession(dst); sess != nil {
							ok = g.Seal(sess) == nil
						} else if sess := M.State.GetSession(V.IP); sess != nil {
							ok = g.Seal(sess) == nil
						}
						if !ok {
							g.ReturnToPool()
							break
						}
						w.what = fmt.Sprintf("repetition %d of frame from M: %s type=%d dst=%s body=%d", rep+1, kind, mt, dst, len(body))
						sendFromM(g)
						w.panics()
						e.Fault("repeated_message")
					}
				}
			}
		}
		w.panics()

		// ---- V dials a router it heard about; the router is announced again meanwhile ----
		// M relays (validly signed) announcements of a router X that V has no link to. X's public
		// info names listeners and hosts; V's connect manager picks X up at its next round and
		// dials. While an attempt is under way M delivers a newer announcement of X: without
		// public info, with empty lists, with fewer or other entries.
		if auto && tp.Chance(1, 2) {
			x := ident.Get(ident.Routable, 30+tp.Intn(4))
			genInfo := func() *m.RouterInfo {
				info := &m.RouterInfo{Version: "x"}
				for i, n := 0, 1+tp.Intn(3); i < n; i++ {
					info.Listeners = append(info.Listeners, fmt.Sprintf("sim:%d", 1+tp.Intn(9)))
				}
				for i, n := 0, 1+tp.Intn(3); i < n; i++ {
					info.IANA = append(info.IANA, []string{"m.example", "a.example", "b.example", "192.0.2.7", "c.example"}[tp.Intn(5)])
				}
				return info
			}
			announceX := func(info *m.RouterInfo) bool {
				amsg := router.AnnouncePingMsg{Info: info, ReturnLabel: m.SwitchLabel(1 + tp.Intn(100)), Expires: time.Now().Add(time.Hour)}
				inner, _ := cbor.Marshal(&amsg)
				hdr := router.PingHeader{PingID: uint64(tp.Uint32()) + 1, PingType: "announce", AddrHash: x.Hash, KeyType: x.Type, PublicKey: x.PublicKey}
				hd, _ := cbor.Marshal(&hdr)
				abody := append([]byte{1, byte(len(hd))}, append(hd, inner...)...)
				af, aerr := M.Inst.Builder.NewFrameV1(x.IP, m.RouterAddress, frame.RouterHopPingDeprecated, nil, abody, nil)
				if aerr != nil {
					return false
				}
				af.SetTTL(0)
				af.SetSequenceTime(time.Now().Round(time.Millisecond))
				_ = af.SignRaw(x.PrivateKey)
				ctx := make([]byte, 88)
				copy(ctx[:16], x.IP.AsSlice())
				m.PutUint64(ctx[16:24], uint64(af.SequenceTime().UnixMilli()))
				copy(ctx[24:], af.AuthData())
				at := router.AnnouncePingAttachment{Router: M.ID.PublicAddress, Delay: uint16(tp.Intn(50)), ForwardLabel: m.SwitchLabel(1 + tp.Intn(127)), ReturnLabel: m.SwitchLabel(1 + tp.Intn(127))}
				data, _ := cbor.Marshal(at)
				sig, _ := M.ID.SignWithContext(data, ctx)
				if err := af.SetAppendixData(append(data, sig...)); err != nil {
					af.ReturnToPool()
					return false
				}
				af.SetTTL(30)
				sendFromM(af)
				return true
			}
			w.what = "announcement of a router with listeners, relayed by M"
			if announceX(genInfo()) {
				w.panics()
				if sr, err := V.Storage.GetRouter(x.IP); err == nil && sr != nil && sr.PublicInfo != nil {
					e.Probe("victim_knows_a_router_with_listeners")
				}
				started := fab.StartedCount()
				if tp.Chance(1, 2) {
					V.Peering.TriggerPeering() // what the router does itself whenever it loses a link
				}
				for i := 0; i < 650 && fab.StartedCount() == started; i++ {
					w.runFor(100*time.Millisecond, 2000)
				}
				if fab.StartedCount() > started {
					e.Probe("victim_dials_a_router_it_heard_about")
					// part of the attempt's time passes, then the newer announcement arrives
					w.runFor(time.Duration(tp.Intn(int(fab.DialLatency/time.Millisecond)+1))*time.Millisecond, 2000)
					var info2 *m.RouterInfo
					kind := tp.Intn(5)
					switch kind {
					case 0:
					case 1:
						info2 = &m.RouterInfo{Version: "y"}
					case 2:
						info2 = genInfo()
						info2.Listeners = info2.Listeners[:1]
						info2.IANA = nil
					default:
						info2 = genInfo()
					}
					w.what = fmt.Sprintf("a newer announcement of a router (public info kind %d) while V's connect manager dials it", kind)
					if announceX(info2) {
						e.Fault("record_changed_while_dialled")
					}
					w.runFor(4*fab.DialLatency+2*time.Second, 5000)
					w.drain(2000)
					w.panics()
				}
			}
		}

		// ---- a peer that stops reading (a tenth of the batches) ----
		// M takes no more bytes from its connection with V while a good thousand frames for M
		// arrive at V over another link. V's queue towards M fills up; what V cannot queue it has to shed - it must go on serving
		// everybody else. The honest peer's ping is the witness.
		if tp.Chance(1, 10) {
			var vm *simnet.SimConn
			for _, p := range w.cn.Pairs() {
				if p.Name == "M>V" && !p.A.IsClosed() && !p.B.IsClosed() {
					vm = p.B // V's end of the connection M dialled
				}
			}
			if vm != nil && M.Peering.GetLink(V.IP) != nil && H.Peering.GetLink(V.IP) != nil {
				vm.StallWrites(true)
				w.what = "a flood of frames for a peer that has stopped reading"
				// regular traffic or - the smaller queue - priority frames (pings, control)
				floodType := frame.NetworkTraffic
				if tp.Chance(1, 2) {
					floodType = []frame.MessageType{frame.RouterPing, frame.RouterCtrl, frame.RouterHopPing}[tp.Intn(3)]
					w.what = "a flood of priority frames for a peer that has stopped reading"
					e.Probe("priority_flood_towards_a_peer_that_does_not_read")
				}
				for k := 0; k < 1040; k++ {
					// (the frames come in over H's link: a frame is never routed back over the
					// link it arrived on. Who sends them does not matter to V: transit frames are
					// forwarded without a look at their seal.)
					f, err := H.Inst.Builder.NewFrameV1(H.IP, M.IP, floodType, nil, []byte("traffic frame for a peer that does not read ........"), nil)
					if err != nil {
						break
					}
					f.SetTTL(20)
					if l := H.Peering.GetLink(V.IP); l != nil {
						if floodType == frame.NetworkTraffic {
							_ = l.Send(f)
						} else {
							_ = l.SendPriority(f)
						}
					}
					// one at a time, so that V's workers are free for each (a router sheds what
					// arrives while its workers are busy)
					simnet.Wait()
					w.drain(50)
				}
				simnet.Wait()
				w.drain(2000)
				w.panics()
				notify, _, err := H.Router.PingPong.Send(V.IP, true, 0)
				if err == nil {
					simnet.Wait()
					w.runFor(5*time.Second, 20000)
					select {
					case <-notify:
						e.Probe("router_serves_others_while_one_peer_does_not_read")
					default:
						e.Fail("router-stalled", "while M does not read, %s makes V deaf: the honest peer's ping to V got no answer within 5 s", w.what)
					}
				}
				vm.StallWrites(false)
				simnet.Wait()
				w.drain(5000)
				e.Fault("stalled_reader")
			}
		}

		// ---- no stall: the honest peer's ping-pong still completes within 5 s ----
		if H.Peering.GetLink(V.IP) == nil {
			e.Fail("honest-link-lost", "the honest peer's link to V was closed (after %s)", w.what)
		}
		notify, _, err := H.Router.PingPong.Send(V.IP, true, 0)
		if err != nil {
			e.Fail("honest-ping-cannot-be-sent", "%v", err)
		}
		simnet.Wait()
		w.runFor(5*time.Second, 20000)
		select {
		case <-notify:
			e.Probe("honest_ping_pong_ok")
		default:
			e.Fail("router-stalled", "after %s the honest peer's ping to V got no answer within 5 s", w.what)
		}
		w.panics()
	}
	// ---- no worker is left waiting for something that never comes ----
	// (H's ping above only fails once every worker of a pool is stuck; a single stuck worker
	// shows when the router is told to stop and one of its workers is still there two
	// simulated minutes later.)
	_ = w.V.Listener.Close() // as the protocol's Stop does; the accept loop ends with its listener
	killed := false
	if auto {
		// V's connect manager may be in the middle of a connection attempt of its own. The
		// routers it talks to are alive and go on answering while V stops: the network keeps
		// delivering during the two minutes V's workers are given.
		res := make(chan bool, 1)
		go func() { res <- V.Kill() }()
		for i := 0; i < 150 && len(res) == 0; i++ {
			w.runFor(time.Second, 5000)
		}
		simnet.Wait()
		killed = <-res
	} else {
		killed = V.Kill()
	}
	if !killed {
		if os.Getenv("VERIF_DEBUG_STACKS") != "" {
			buf := make([]byte, 1<<20)
			buf = buf[:runtime.Stack(buf, true)]
			fmt.Fprintf(os.Stderr, "%s\n", buf)
		}
		e.Fail("worker-never-returns", "a worker of V is still running 2 simulated minutes after cancellation: it waits for something that never comes (last input: %s)", w.what)
	}
	e.Sample("%d batches; last: %s", nBatches, w.what)
}

func TestCheck(t *testing.T) {
	core.Main(t, &core.Check{
		ID:             "C13",
		QuickRuns:      800,
		ThoroughRuns:   40000,
		MinimiseBudget: 100,
		Run:            run,
	})
}
