// C03 Replay protection: every authenticated frame is accepted at most once.
//
// Simulated system: a sender and a receiver with real sessions (end-to-end
// encrypted regular + priority, end-to-end signed) and a handshake-style
// derived link session carrying link frames. The fault space is the delivery
// history: any order, any multiplicity, any subset of what the sender sealed.
// Oracle: a ten-line reference model of "at most once + window progress".
package c03

import (
	"fmt"
	"testing"
	"time"

	"github.com/mycoria/mycoria/frame"
	"github.com/mycoria/mycoria/peering"
	"github.com/mycoria/mycoria/state"

	"mycoverif/core"
	"mycoverif/ident"
	"mycoverif/node"
	"mycoverif/simsync"
)

type sealed struct {
	seq  uint64 // sequence number (or unix-milli timestamp for signed)
	data []byte
}

// model is the reference: set of accepted numbers and the newest accepted.
type model struct {
	accepted map[uint64]bool
	max      uint64
	any      bool
}

func newModel() *model { return &model{accepted: map[uint64]bool{}} }

// expect returns (mustAccept, mustReject) for delivering number s.
func (mo *model) expect(s uint64, signed bool) (mustAccept, mustReject bool) {
	if mo.accepted[s] {
		return false, true
	}
	if signed {
		// strictly increasing timestamps only
		if !mo.any || s > mo.max {
			return true, false
		}
		return false, true
	}
	if !mo.any || s > mo.max || mo.max-s <= 64 {
		return true, false
	}
	return false, false // older than the window: may be refused
}

func (mo *model) accept(s uint64) {
	mo.accepted[s] = true
	if !mo.any || s > mo.max {
		mo.max = s
	}
	mo.any = true
}

type channel struct {
	name   string
	signed bool
	frames []sealed
	mo     *model
	// deliver presents a copy of the bytes to the receiver; nil error = accepted.
	deliver func(data []byte) error
}

func genHistory(tp *core.Tape, n int, e *core.Env) []int {
	// Returns indices into the sealed frames, any order / multiplicity / subset.
	mode := tp.Intn(9)
	var h []int
	switch mode {
	case 0: // in order with rare replays of something already delivered
		for i := 0; i < n; i++ {
			h = append(h, i)
			if tp.Chance(1, 6) {
				h = append(h, tp.Intn(i+1))
				e.Fault("dup")
			}
		}
	case 1: // bounded displacement
		d := 1 + tp.Intn(10)
		h = make([]int, n)
		for i := range h {
			h[i] = i
		}
		for i := 0; i < n; i++ {
			j := i + tp.Intn(d+1)
			if j < n && j != i {
				h[i], h[j] = h[j], h[i]
				e.Fault("reorder")
			}
		}
		for i := 0; i < n/4; i++ {
			if tp.Chance(1, 2) {
				h = append(h, tp.Intn(n))
				e.Fault("dup")
			}
		}
	case 2: // window edge: jump ahead, then deliver frames 63/64/65/66 behind, twice
		if n < 70 {
			n2 := n
			for i := 0; i < n2; i++ {
				h = append(h, i)
			}
			break
		}
		start := tp.Intn(n - 68)
		top := start + 66 + tp.Intn(n-start-66)
		for i := 0; i <= start; i++ {
			if tp.Chance(3, 4) {
				h = append(h, i)
			} else {
				e.Fault("drop")
			}
		}
		h = append(h, top)
		for _, back := range tp.Perm(6) {
			k := top - (62 + back)
			if k >= 0 {
				h = append(h, k)
				e.Probe("window_edge_62_67")
			}
		}
		for _, back := range tp.Perm(6) {
			k := top - (62 + back)
			if k >= 0 && tp.Chance(1, 2) {
				h = append(h, k)
				e.Fault("dup")
			}
		}
		e.Fault("reorder")
	case 3: // replay the very newest, and the one before it
		for i := 0; i < n; i++ {
			h = append(h, i)
			switch tp.Intn(6) {
			case 1:
				h = append(h, i)
				e.Fault("dup")
			case 2:
				if i > 0 {
					h = append(h, i-1)
					e.Fault("dup")
				}
			case 3:
				if i > 1 {
					h = append(h, i-1-tp.Intn(min(i, 70)))
					e.Fault("dup")
				}
			}
		}
	case 4: // long-delayed stragglers
		var held []int
		for i := 0; i < n; i++ {
			if tp.Chance(1, 5) {
				held = append(held, i)
				e.Fault("delay")
				continue
			}
			h = append(h, i)
			if len(held) > 0 && tp.Chance(1, 8) {
				k := tp.Intn(len(held))
				h = append(h, held[k])
				held = append(held[:k], held[k+1:]...)
			}
		}
		for _, k := range tp.Perm(len(held)) {
			h = append(h, held[k])
		}
	case 5: // fully random with multiplicity
		l := tp.Intn(2*n + 1)
		for i := 0; i < l; i++ {
			h = append(h, tp.Intn(n))
		}
		e.Fault("reorder")
		e.Fault("dup")
	case 6: // newest jumps ahead by an exact distance, then the previous newest and its neighbours are replayed
		i := 0
		for i < n {
			h = append(h, i)
			if tp.Chance(1, 4) {
				d := []int{1, 2, 3, 62, 63, 64, 65, 66}[tp.Intn(8)]
				if i+d < n {
					h = append(h, i+d)
					for _, back := range tp.Perm(3) {
						if k := i - 1 + back; k >= 0 && k < n && tp.Chance(2, 3) {
							h = append(h, k) // i-1, i, i+1
						}
					}
					e.Fault("drop")
					e.Fault("dup")
					e.Probe("exact_jump_then_replay")
					i += d
				}
			}
			i++
		}
	case 7: // everything in order, then replays at exact distances behind the newest
		for i := 0; i < n; i++ {
			h = append(h, i)
		}
		for k, m := 0, 1+tp.Intn(12); k < m; k++ {
			d := []int{0, 1, 2, 62, 63, 64, 65, 66, 67, tp.Intn(n)}[tp.Intn(10)]
			if n-1-d >= 0 {
				h = append(h, n-1-d)
				e.Fault("dup")
				e.Probe("replay_at_exact_distance")
			}
		}
	default: // plain in order (fault free)
		for i := 0; i < n; i++ {
			h = append(h, i)
		}
	}
	return h
}

func copyFrame(f frame.Frame) []byte {
	d, err := f.FrameDataWithMargins(0, 0)
	if err != nil {
		panic(err)
	}
	return append([]byte(nil), d...)
}

func run(e *core.Env) {
	tp := e.Tape
	e.StartClock()
	sID, rID := ident.Get(ident.Routable, 0), ident.Get(ident.Routable, 1)
	if tp.Chance(1, 2) {
		sID, rID = rID, sID
	}
	sN, err := node.New("S", sID, node.BaseStore(sID), node.Options{})
	if err != nil {
		e.Infra("node: %v", err)
	}
	rN, err := node.New("R", rID, node.BaseStore(rID), node.Options{})
	if err != nil {
		e.Infra("node: %v", err)
	}
	if err := sN.State.AddRouter(&rID.PublicAddress); err != nil {
		e.Infra("add router: %v", err)
	}
	if err := rN.State.AddRouter(&sID.PublicAddress); err != nil {
		e.Infra("add router: %v", err)
	}
	sSess := sN.State.GetSession(rID.IP)
	rSess := rN.State.GetSession(sID.IP)
	if sSess == nil || rSess == nil {
		e.Infra("no session")
	}
	// Real key exchange (as hello / peering does it).
	kx, kxt, err := sSess.Encryption().InitKeyClientStart()
	if err != nil {
		e.Infra("kx: %v", err)
	}
	kx2, kxt2, err := rSess.Encryption().InitKeyServer(kx, kxt)
	if err != nil {
		e.Infra("kx: %v", err)
	}
	if err := sSess.Encryption().InitKeyClientComplete(kx2, kxt2); err != nil {
		e.Infra("kx: %v", err)
	}
	// Link-layer session exactly as peering's finalize derives it.
	var sLink, rLink *state.EncryptionSession
	sLink, err = sSess.Encryption().DeriveSessionFromKX(true, "link layer crypt")
	if err != nil {
		e.Infra("derive: %v", err)
	}
	rLink, err = rSess.Encryption().DeriveSessionFromKX(false, "link layer crypt")
	if err != nil {
		e.Infra("derive: %v", err)
	}
	sSess.Encryption().InitCleanup()
	rSess.Encryption().InitCleanup()

	// In a quarter of the runs the regular-class counters of both sessions start shortly
	// below the numbers at which the receiver begins to look out for the next key, so that
	// the history straddles that edge - without ever reaching the wrap itself (what happens
	// at the wrap is C15's subject; here no key change is due, and none must happen).
	if tp.Chance(1, 4) {
		const lookout = 0xFFFF_FF00 // 255 below the largest number (see the statement of C15)
		(&state.EncryptionSessionTestHelper{EncryptionSession: sSess.Encryption()}).ReglSetOut(lookout - uint32(tp.Intn(150)))
		(&state.EncryptionSessionTestHelper{EncryptionSession: sLink}).ReglSetOut(lookout - uint32(tp.Intn(150)))
		e.Probe("numbers_shortly_below_the_wrap")
	}

	sB, rB := sN.Inst.Builder, rN.Inst.Builder

	deliverE2E := func(data []byte) error {
		ps := rB.GetPooledSlice(len(data) + peering.FrameOffset + peering.FrameOverhead)
		copy(ps[peering.FrameOffset:], data)
		f, err := rB.ParseFrame(ps[peering.FrameOffset:peering.FrameOffset+len(data)], ps, peering.FrameOffset)
		if err != nil {
			rB.ReturnPooledSlice(ps)
			return fmt.Errorf("parse: %w", err)
		}
		defer f.ReturnToPool()
		return f.Unseal(rSess)
	}
	deliverLink := func(data []byte) error {
		buf := append([]byte(nil), data...)
		return peering.LinkFrame(buf).Unseal(rLink)
	}

	// Which channels take part in this run (swarm style).
	var chans []*channel
	nReg := 1 + tp.Intn(220)
	nPrio := tp.Intn(120)
	nSig := tp.Intn(30)
	nLink := tp.Intn(220)
	if tp.Chance(1, 3) { // focus one channel per run sometimes
		switch tp.Intn(4) {
		case 0:
			nPrio, nSig, nLink = 0, 0, 0
		case 1:
			nReg, nSig, nLink = 0, 0, 0
			nPrio = 1 + nPrio
		case 2:
			nReg, nPrio, nLink = 0, 0, 0
			nSig = 1 + nSig
		case 3:
			nReg, nPrio, nSig = 0, 0, 0
			nLink = 1 + nLink
		}
	}
	mk := func(name string, signed bool, n int, mt frame.MessageType, del func([]byte) error) {
		if n == 0 {
			return
		}
		c := &channel{name: name, signed: signed, mo: newModel(), deliver: del}
		for i := 0; i < n; i++ {
			if signed && tp.Chance(1, 3) {
				time.Sleep(time.Duration(tp.Intn(5000)) * time.Millisecond)
			}
			f, err := sB.NewFrameV1(sID.IP, rID.IP, mt, nil, tp.Bytes(1+tp.Intn(40)), nil)
			if err != nil {
				e.Infra("new frame: %v", err)
			}
			if err := f.Seal(sSess); err != nil {
				e.Infra("seal %s #%d: %v", name, i, err)
			}
			var seq uint64
			if signed {
				seq = uint64(f.SequenceTime().UnixMilli())
			} else {
				seq = uint64(f.SequenceNum())
			}
			c.frames = append(c.frames, sealed{seq: seq, data: copyFrame(f)})
			f.ReturnToPool()
		}
		chans = append(chans, c)
	}
	mk("regular", false, nReg, frame.NetworkTraffic, deliverE2E)
	mk("priority", false, nPrio, frame.RouterCtrl, deliverE2E)
	mk("signed", true, nSig, frame.RouterPing, deliverE2E)
	if nLink > 0 {
		c := &channel{name: "link", mo: newModel(), deliver: deliverLink}
		for i := 0; i < nLink; i++ {
			inner, err := sB.NewFrameV1(sID.IP, rID.IP, frame.RouterPing, nil, tp.Bytes(1+tp.Intn(40)), nil)
			if err != nil {
				e.Infra("new frame: %v", err)
			}
			d, err := inner.FrameDataWithMargins(peering.FrameOffset, peering.FrameOverhead)
			if err != nil {
				e.Infra("margins: %v", err)
			}
			lf := peering.LinkFrame(d)
			if err := lf.Seal(sLink); err != nil {
				e.Infra("link seal: %v", err)
			}
			c.frames = append(c.frames, sealed{seq: uint64(lf.SequenceNum()), data: append([]byte(nil), d...)})
			inner.ReturnToPool()
		}
		chans = append(chans, c)
	}

	// Histories per channel, then interleave channels by the tape.
	type cursor struct {
		c *channel
		h []int
		p int
	}
	var curs []*cursor
	for _, c := range chans {
		curs = append(curs, &cursor{c: c, h: genHistory(tp, len(c.frames), e)})
		e.Sample("channel %s: %d sealed, history of %d deliveries", c.name, len(c.frames), len(curs[len(curs)-1].h))
	}
	for {
		var live []*cursor
		for _, cu := range curs {
			if cu.p < len(cu.h) {
				live = append(live, cu)
			}
		}
		if len(live) == 0 {
			break
		}
		cu := live[tp.Intn(len(live))]
		idx := cu.h[cu.p]
		cu.p++
		fr := cu.c.frames[idx]
		if cu.c.signed && tp.Chance(1, 10) {
			time.Sleep(time.Duration(tp.Intn(100000)) * time.Millisecond)
			e.Fault("clock_advance")
		}
		// Now and then the receiver starts a new key exchange on this very session (a link
		// setup with the same router begins: the handshake's client role calls exactly this)
		// or drops the exchange again. Until an exchange completes nothing about what was
		// accepted before may be forgotten.
		if tp.Chance(1, 50) {
			switch tp.Intn(5) {
			case 0, 1:
				_, _, _ = rSess.Encryption().InitKeyClientStart()
			case 2:
				rSess.Encryption().InitCleanup()
			case 3:
				// a key setup that is *refused*: the sender's hello request carries an exchange
				// key that is a low-order point (32 zero bytes pass as a key and fail the
				// exchange). A refused setup installs nothing, and forgets nothing.
				_, _, _ = rSess.Encryption().InitKeyServer(make([]byte, 32), kxt)
				e.Probe("key_setup_refused_on_live_session")
			default:
				// ... or a completion nobody asked for (no exchange pending)
				rSess.Encryption().InitCleanup()
				_ = rSess.Encryption().InitKeyClientComplete(make([]byte, 32), kxt)
				e.Probe("key_setup_refused_on_live_session")
			}
			e.Fault("key_exchange_started_on_live_session")
		}
		mustAcc, mustRej := cu.c.mo.expect(fr.seq, cu.c.signed)
		var derr error
		e.Guard("panic", func() { derr = cu.c.deliver(fr.data) })
		if e.Failed() {
			e.Fail("", "")
		}
		accepted := derr == nil
		e.Step()
		e.Ev(cu.c.name, fr.seq, b2u(accepted))
		if cu.c.mo.any && !cu.c.signed {
			if d := int64(cu.c.mo.max) - int64(fr.seq); d >= 63 && d <= 65 {
				e.Probe("delivered_at_distance_63_65")
			}
		}
		switch {
		case accepted && mustRej:
			kind := "dup-accepted"
			if cu.c.signed && !cu.c.mo.accepted[fr.seq] {
				kind = "older-timestamp-accepted"
			}
			sub := "other"
			if !cu.c.signed {
				switch {
				case fr.seq == cu.c.mo.max:
					sub = "newest"
				case cu.c.mo.max-fr.seq <= 64:
					sub = "inside-window"
				default:
					sub = "outside-window"
				}
			}
			e.Fail(fmt.Sprintf("%s/%s/%s", cu.c.name, kind, sub),
				"%s frame #%d (number %d) accepted again; newest accepted %d; history so far %v",
				cu.c.name, idx, fr.seq, cu.c.mo.max, cu.h[:cu.p])
		case !accepted && mustAcc:
			e.Fail(fmt.Sprintf("%s/fresh-refused", cu.c.name),
				"%s frame #%d (number %d) is not a duplicate and within 64 of newest accepted %d (any=%v) but was refused: %v; history so far %v",
				cu.c.name, idx, fr.seq, cu.c.mo.max, cu.c.mo.any, derr, cu.h[:cu.p])
		}
		if accepted {
			cu.c.mo.accept(fr.seq)
		}
	}

	// ---- a session that lives through key roll-overs (a fifth of the runs) ----
	// Sequential and in order on the end-to-end session: traffic crosses the 32-bit wrap, goes
	// on in the new epoch up to the numbers at which the receiver looks out for the next key
	// again (the counter is moved forward by the harness), and then every frame of the current
	// epoch is delivered a second time: none may unseal again, and fresh frames must go on.
	if tp.Chance(1, 5) {
		sh := &state.EncryptionSessionTestHelper{EncryptionSession: sSess.Encryption()}
		sealOne := func(what string) sealed {
			f, err := sB.NewFrameV1(sID.IP, rID.IP, frame.NetworkTraffic, nil, tp.Bytes(1+tp.Intn(40)), nil)
			if err != nil {
				e.Infra("new frame: %v", err)
			}
			if err := f.Seal(sSess); err != nil {
				e.Infra("seal (%s): %v", what, err)
			}
			s := sealed{seq: uint64(f.SequenceNum()), data: copyFrame(f)}
			f.ReturnToPool()
			return s
		}
		for round, rounds := 1, 1+tp.Intn(2); round <= rounds; round++ {
			sh.ReglSetOut(0xFFFF_FFFF - uint32(1+tp.Intn(4)))
			var epochFrames, oldFrames []sealed
			crossed := false
			for i := 0; i < 9; i++ {
				fr := sealOne("across the wrap")
				if fr.seq <= 8 && !crossed {
					crossed = true
					oldFrames = epochFrames // accepted under the previous keys
					epochFrames = nil       // frames of the new epoch only
				}
				if err := deliverE2E(fr.data); err != nil {
					e.Fail("regular/fresh-refused/across-the-wrap", "roll-over %d: in-order frame number %d refused: %v", round, fr.seq, err)
				}
				epochFrames = append(epochFrames, fr)
			}
			// What was accepted under the previous keys arrives once more, right after the
			// roll-over (the new epoch is at its first few numbers): a receiver that goes on
			// serving late frames of the previous epoch has to remember which of them it has
			// had. Fresh frames of the new epoch follow.
			if tp.Chance(1, 2) {
				for _, k := range tp.Perm(len(oldFrames)) {
					if err := deliverE2E(oldFrames[k].data); err == nil {
						e.Fail("regular/dup-accepted/previous-epoch-after-roll-over", "roll-over %d: frame number %d, accepted before the roll-over, unsealed a second time after it", round, oldFrames[k].seq)
					}
				}
				e.Probe("previous_epochs_frames_again_after_a_roll_over")
			}
			sh.ReglSetOut(0xFFFF_FF00 + uint32(tp.Intn(100)))
			for i := 0; i < 3; i++ {
				fr := sealOne("high in the new epoch")
				if err := deliverE2E(fr.data); err != nil {
					e.Fail("regular/fresh-refused/across-the-wrap", "roll-over %d: frame number %d of the new epoch refused: %v", round, fr.seq, err)
				}
				epochFrames = append(epochFrames, fr)
			}
			for _, k := range tp.Perm(len(epochFrames)) {
				if err := deliverE2E(epochFrames[k].data); err == nil {
					e.Fail("regular/dup-accepted/after-roll-over", "roll-over %d: frame number %d of the current epoch unsealed a second time", round, epochFrames[k].seq)
				}
			}
			for i := 0; i < 3; i++ {
				fr := sealOne("after the duplicates")
				if err := deliverE2E(fr.data); err != nil {
					e.Fail("regular/fresh-refused/across-the-wrap", "roll-over %d: fresh frame number %d refused after duplicates were delivered: %v", round, fr.seq, err)
				}
			}
		}
		e.Probe("session_through_key_roll_overs")
	}

	// ---- a copy of an accepted frame is opened while new keys are installed (a third of the runs) ----
	// A router unseals end-to-end frames on one worker per CPU, and a key setup message of the
	// same source (hello request served, or the response to an own request) is handled by another
	// of these workers on the live session. Package state runs under the cooperative scheduler
	// here (sync and sync/atomic replaced by yielding shims): the tape picks the running task at
	// every lock and atomic operation. Whatever the interleaving, the copy must not unseal a
	// second time, and the frames sealed under the new keys must unseal.
	if tp.Chance(1, 3) {
		sealOne := func(mt frame.MessageType) sealed {
			f, err := sB.NewFrameV1(sID.IP, rID.IP, mt, nil, tp.Bytes(1+tp.Intn(40)), nil)
			if err != nil {
				e.Infra("new frame: %v", err)
			}
			if err := f.Seal(sSess); err != nil {
				e.Infra("seal (re-key phase): %v", err)
			}
			s := sealed{seq: uint64(f.SequenceNum()), data: copyFrame(f)}
			f.ReturnToPool()
			return s
		}
		// fresh keys first, so that the phase does not depend on what the histories above left
		rekey := func() {
			kx, kxt, err := sSess.Encryption().InitKeyClientStart()
			if err != nil {
				e.Infra("kx: %v", err)
			}
			kx2, kxt2, err := rSess.Encryption().InitKeyServer(kx, kxt)
			if err != nil {
				e.Infra("kx: %v", err)
			}
			if err := sSess.Encryption().InitKeyClientComplete(kx2, kxt2); err != nil {
				e.Infra("kx: %v", err)
			}
			sSess.Encryption().InitCleanup()
			rSess.Encryption().InitCleanup()
		}
		rekey()
		var acc []sealed
		for i, n := 0, 2+tp.Intn(5); i < n; i++ {
			mt := frame.NetworkTraffic
			if tp.Chance(1, 4) {
				mt = frame.RouterCtrl
			}
			fr := sealOne(mt)
			if err := deliverE2E(fr.data); err != nil {
				e.Fail("regular/fresh-refused/after-re-key", "frame number %d sealed under freshly installed keys refused: %v", fr.seq, err)
			}
			acc = append(acc, fr)
		}
		dup := acc[tp.Intn(len(acc))]
		serverRole := tp.Chance(1, 2)
		var kx, kx2 []byte
		var kxt, kxt2 string
		var err error
		if serverRole {
			// S starts a new exchange; R serves it while the copy is being opened
			kx, kxt, err = sSess.Encryption().InitKeyClientStart()
		} else {
			// R starts, S serves (S now seals under the new keys); R completes while the copy is being opened
			kx, kxt, err = rSess.Encryption().InitKeyClientStart()
			if err == nil {
				kx2, kxt2, err = sSess.Encryption().InitKeyServer(kx, kxt)
			}
		}
		if err != nil {
			e.Infra("kx: %v", err)
		}
		var dupErr, kxErr error
		st := simsync.RunTasks(func(n, cur int) int {
			if cur >= 0 && !tp.Chance(1, 2) {
				return cur
			}
			return tp.Intn(n)
		}, []func(){
			func() { dupErr = deliverE2E(dup.data) },
			func() {
				if serverRole {
					kx2, kxt2, kxErr = rSess.Encryption().InitKeyServer(kx, kxt)
				} else {
					kxErr = rSess.Encryption().InitKeyClientComplete(kx2, kxt2)
				}
			},
		})
		if st.Deadlock {
			e.Fail("receiver-tasks-deadlock", "an Unseal call and a key installation on one session deadlocked")
		}
		for _, p := range st.Panics {
			e.Fail("panic", "a receive task panicked: %v", p)
		}
		if kxErr != nil {
			e.Infra("kx under tasks: %v", kxErr)
		}
		e.Ev("dup-vs-rekey", b2u(serverRole), dup.seq, b2u(dupErr == nil), uint64(st.Switches))
		if dupErr == nil {
			e.Fail("regular/dup-accepted/while-keys-are-installed",
				"frame number %d had been accepted; a copy of it was opened by one worker while another installed new keys on the session (receiver in the %s role, %d task switches): the copy unsealed a second time",
				dup.seq, map[bool]string{true: "server", false: "client"}[serverRole], st.Switches)
		}
		if serverRole {
			if err := sSess.Encryption().InitKeyClientComplete(kx2, kxt2); err != nil {
				e.Infra("kx: %v", err)
			}
		}
		sSess.Encryption().InitCleanup()
		rSess.Encryption().InitCleanup()
		for i := 0; i < 4; i++ {
			fr := sealOne(frame.NetworkTraffic)
			if err := deliverE2E(fr.data); err != nil {
				e.Fail("regular/fresh-refused/after-re-key",
					"a copy of accepted frame number %d was opened while new keys were installed (copy refused: %v); afterwards frame number %d sealed under the new keys is refused: %v",
					dup.seq, dupErr != nil, fr.seq, err)
			}
		}
		e.Probe("copy_opened_while_keys_are_installed")
		if st.Switches > 0 {
			e.Probe("task_switches")
		}
	}

	// ---- first contact handled by two workers at once (a quarter of the runs) ----
	// R knows router X (stored record) but holds no session for it - first contact, or the
	// session cleaner dropped the idle one. A signed frame of X and a copy of it (it reached R
	// over two links) are handled by two of R's frame workers: each asks the state for the
	// session of X and unseals. Under the cooperative scheduler the tape picks the running task
	// at every lock operation of package state. However the two interleave, the frame is
	// accepted at most once, and a later copy is refused.
	if tp.Chance(1, 4) {
		xID := ident.Get(ident.Routable, 2)
		xN, err := node.New("X", xID, node.BaseStore(xID), node.Options{})
		if err != nil {
			e.Infra("node: %v", err)
		}
		if err := xN.State.AddRouter(&rID.PublicAddress); err != nil {
			e.Infra("add router: %v", err)
		}
		if err := rN.State.AddRouter(&xID.PublicAddress); err != nil {
			e.Infra("add router: %v", err)
		}
		xSess := xN.State.GetSession(rID.IP)
		if xSess == nil {
			e.Infra("no session")
		}
		sealX := func() sealed {
			f, err := xN.Inst.Builder.NewFrameV1(xID.IP, rID.IP, frame.RouterPing, nil, tp.Bytes(1+tp.Intn(40)), nil)
			if err != nil {
				e.Infra("new frame: %v", err)
			}
			if err := f.Seal(xSess); err != nil {
				e.Infra("seal (first contact): %v", err)
			}
			s := sealed{seq: uint64(f.SequenceTime().UnixMilli()), data: copyFrame(f)}
			f.ReturnToPool()
			return s
		}
		handle := func(data []byte) error {
			sess := rN.State.GetSession(xID.IP)
			if sess == nil {
				return fmt.Errorf("no session")
			}
			ps := rB.GetPooledSlice(len(data) + peering.FrameOffset + peering.FrameOverhead)
			copy(ps[peering.FrameOffset:], data)
			f, err := rB.ParseFrame(ps[peering.FrameOffset:peering.FrameOffset+len(data)], ps, peering.FrameOffset)
			if err != nil {
				rB.ReturnPooledSlice(ps)
				return fmt.Errorf("parse: %w", err)
			}
			defer f.ReturnToPool()
			return f.Unseal(sess)
		}
		fr := sealX()
		nTasks := 2 + tp.Intn(2)
		errs := make([]error, nTasks)
		var tasks []func()
		for i := 0; i < nTasks; i++ {
			tasks = append(tasks, func() { errs[i] = handle(fr.data) })
		}
		st := simsync.RunTasks(func(n, cur int) int {
			if cur >= 0 && !tp.Chance(1, 2) {
				return cur
			}
			return tp.Intn(n)
		}, tasks)
		if st.Deadlock {
			e.Fail("receiver-tasks-deadlock", "concurrent first-contact handling deadlocked")
		}
		for _, p := range st.Panics {
			e.Fail("panic", "a receive task panicked: %v", p)
		}
		ok := 0
		for _, err := range errs {
			if err == nil {
				ok++
			}
		}
		e.Ev("first-contact", uint64(nTasks), uint64(ok), uint64(st.Switches))
		if ok > 1 {
			e.Fail("signed/dup-accepted/first-contact-by-several-workers",
				"R held no session for X; a signed frame of X and %d copies of it were handled by %d workers at once (%d task switches): %d of them unsealed", nTasks-1, nTasks, st.Switches, ok)
		}
		if ok == 0 {
			e.Fail("signed/fresh-refused/first-contact-by-several-workers", "none of %d concurrent copies of a fresh signed frame unsealed: %v", nTasks, errs)
		}
		if err := handle(fr.data); err == nil {
			e.Fail("signed/dup-accepted/first-contact-by-several-workers", "a later copy of the signed frame unsealed again")
		}
		time.Sleep(2 * time.Millisecond)
		if err := handle(sealX().data); err != nil {
			e.Fail("signed/fresh-refused/first-contact-by-several-workers", "a newer signed frame of X is refused after the concurrent first contact: %v", err)
		}
		e.Probe("first_contact_by_several_workers")
	}
}

func b2u(b bool) uint64 {
	if b {
		return 1
	}
	return 0
}

func TestCheck(t *testing.T) {
	core.Main(t, &core.Check{
		ID:           "C03",
		QuickRuns:    3000,
		ThoroughRuns: 400000,
		Run:          run,
	})
}
