// C06 Traffic policy: default-deny inbound firewall, no spoofing, outbound isolation.
//
// Simulated system: a receiver R with a generated configuration and three
// senders S1 (friend), S2 (listed in a "for"), S3 (stranger), all real router
// nodes with stub tun devices on simulated links, end-to-end keys from real
// hello exchanges over the simulated mesh. Inbound packets are built by the
// harness as the sender and sealed with the sender's real session (so
// "authenticated but lying inner header" is expressible); outbound packets are
// pushed into a node's tun receive channel. Oracle: a policy model written from
// the statement over the configuration store.
package c06

import (
	"fmt"
	"net/netip"
	"strings"
	"testing"
	"time"

	"github.com/mycoria/mycoria/config"
	"github.com/mycoria/mycoria/frame"
	"github.com/mycoria/mycoria/m"

	"mycoverif/core"
	"mycoverif/ident"
	"mycoverif/mesh"
	"mycoverif/node"
	"mycoverif/simnet"
)

type svcModel struct {
	protos  []uint8
	port    uint16
	public  bool
	friends bool
	forIPs  map[netip.Addr]bool
	url     string
}

// admits is the reference evaluator, written from the statement.
func admits(svcs []svcModel, friends map[netip.Addr]bool, proto uint8, port uint16, sender netip.Addr) (bool, string) {
	for _, s := range svcs {
		match := false
		for _, p := range s.protos {
			if p == proto {
				match = true
			}
		}
		if !match {
			continue
		}
		if proto == 6 || proto == 17 {
			if port != s.port {
				continue
			}
		}
		if s.public || (s.friends && friends[sender]) || s.forIPs[sender] {
			return true, s.url
		}
		return false, s.url + " (sender not admitted)"
	}
	return false, "no service for this protocol and port"
}

func packet(src, dst netip.Addr, proto uint8, sport, dport uint16, payload []byte) []byte {
	p := make([]byte, 40+8+len(payload))
	p[0] = 6 << 4
	m.PutUint16(p[4:6], uint16(8+len(payload)))
	p[6] = proto
	p[7] = 64
	s, d := src.As16(), dst.As16()
	copy(p[8:24], s[:])
	copy(p[24:40], d[:])
	m.PutUint16(p[40:42], sport)
	m.PutUint16(p[42:44], dport)
	copy(p[48:], payload)
	return p
}

func run(e *core.Env) {
	tp := e.Tape
	e.StartClock()
	perm := tp.Perm(12)
	ids := []*m.Address{ident.Get(ident.Routable, perm[0]), ident.Get(ident.Routable, perm[1]), ident.Get(ident.Routable, perm[2]), ident.Get(ident.Routable, perm[3])}
	R, S1, S2, S3 := ids[0], ids[1], ids[2], ids[3]
	extraFriend := ident.Get(ident.Routable, 20) // a friend that is not in the mesh

	// ---- generated configuration of R ----
	var svcs []svcModel
	// Friends: any subset, including none at all (a friends-only service then admits nobody).
	friendSet := map[netip.Addr]bool{}
	rStore := node.BaseStore(R)
	haveSone := false
	soneName := "sone"
	switch tp.Pick(5, 2, 2, 2, 2) {
	case 4:
		// two friends whose names differ only in case (legal: names are kept as written): a
		// service "for" one of them is for that router, not for its namesake
		soneName = "Sone"
		friendSet[S1.IP], friendSet[S3.IP], haveSone = true, true, true
		rStore.FriendConfigs = []config.FriendConfig{{Name: "Sone", IP: S1.IP.String()}, {Name: "sone", IP: S3.IP.String()}}
		if tp.Chance(1, 2) {
			rStore.FriendConfigs[0], rStore.FriendConfigs[1] = rStore.FriendConfigs[1], rStore.FriendConfigs[0]
		}
		e.Probe("friends_whose_names_differ_only_in_case")
	case 0:
		friendSet[S1.IP], friendSet[extraFriend.IP], haveSone = true, true, true
		rStore.FriendConfigs = []config.FriendConfig{{Name: "sone", IP: S1.IP.String()}, {Name: "far", IP: extraFriend.IP.String()}}
	case 1:
		friendSet[S1.IP], haveSone = true, true
		rStore.FriendConfigs = []config.FriendConfig{{Name: "sone", IP: S1.IP.String()}}
	case 2:
		friendSet[extraFriend.IP] = true
		rStore.FriendConfigs = []config.FriendConfig{{Name: "far", IP: extraFriend.IP.String()}}
	default:
		e.Probe("config_without_friends")
	}
	rStore.Router.Isolate = tp.Chance(1, 2)
	schemes := []string{"tcp", "udp", "http", "https", "icmp6", "ping6"}
	usedKey := map[string]bool{}
	var ports []uint16
	for k, n := 0, tp.Intn(6); k < n; k++ {
		sch := schemes[tp.Intn(len(schemes))]
		sm := svcModel{forIPs: map[netip.Addr]bool{}}
		url := sch + "://svc" + fmt.Sprint(k) + ".myco"
		explicit := tp.Chance(2, 3)
		port := uint16(1 + tp.Intn(3000))
		if tp.Chance(1, 4) {
			port = []uint16{80, 443, 1, 65535, 22}[tp.Intn(5)]
		}
		switch sch {
		case "tcp":
			sm.protos, explicit = []uint8{6}, true
		case "udp":
			sm.protos, explicit = []uint8{17}, true
		case "http":
			sm.protos = []uint8{6, 17}
			if !explicit {
				port = 80
			}
		case "https":
			sm.protos = []uint8{6, 17}
			if !explicit {
				port = 443
			}
		default:
			sm.protos, explicit, port = []uint8{58}, false, 0
		}
		if explicit {
			url += fmt.Sprintf(":%d", port)
		}
		sm.port, sm.url = port, url
		// keys must be unique per protocol/port or the parser refuses the config
		dup := false
		for _, p := range sm.protos {
			// also guard against the shipped parser's view of udp (TCP) so that
			// generated configurations always parse
			for _, alt := range []uint8{p, 6} {
				if usedKey[fmt.Sprintf("%d-%d", alt, port)] && (alt == p || sch == "udp") {
					dup = true
				}
			}
		}
		if dup {
			continue
		}
		for _, p := range sm.protos {
			usedKey[fmt.Sprintf("%d-%d", p, port)] = true
		}
		if sch == "udp" {
			usedKey[fmt.Sprintf("6-%d", port)] = true
		}
		sc := config.ServiceConfig{Name: fmt.Sprintf("svc%d", k), URL: url}
		switch tp.Intn(4) {
		case 0:
			sc.Public, sm.public = true, true
		case 1:
			sc.Friends, sm.friends = true, true
		case 2:
			sc.For = []string{S2.IP.String()}
			sm.forIPs[S2.IP] = true
			if haveSone && tp.Chance(1, 2) {
				sc.For = append(sc.For, soneName)
				sm.forIPs[S1.IP] = true
			}
		default:
			sc.Friends, sm.friends = true, true
			sc.For = []string{S2.IP.String()}
			sm.forIPs[S2.IP] = true
		}
		rStore.ServiceConfigs = append(rStore.ServiceConfigs, sc)
		svcs = append(svcs, sm)
		if port != 0 {
			ports = append(ports, port)
		}
	}
	// The generated store must be something the real parser accepts.
	if _, err := rStore.Parse(); err != nil && !strings.Contains(err.Error(), "no way to connect") {
		// The statement speaks about configurations the parser accepts. (On the shipped tree the
		// generator's configurations are always accepted; the probe shows if that ever changes.)
		e.Logf("generated config refused by parser: %v", err)
		e.Probe("generated_config_refused_by_parser")
		return
	}
	var urls []string
	for _, s := range svcs {
		urls = append(urls, s.url)
	}
	e.Logf("isolate=%v services=%v", rStore.Router.Isolate, urls)
	e.Sample("R: isolate=%v friends=%d services=%v", rStore.Router.Isolate, len(friendSet), urls)

	ms := mesh.Build(e, mesh.Options{
		MinNodes: 4, MaxNodes: 4, Kinds: []string{"star"}, Tun: true, Idents: ids,
		Store: func(i int, id *m.Address, s *config.Store) {
			if i == 0 {
				keep := *s
				*s = rStore
				s.System = keep.System
			}
		},
	})
	nodes := ms.Nodes
	rN := nodes[0]
	names := map[netip.Addr]string{R.IP: "R", S1.IP: "S1", S2.IP: "S2", S3.IP: "S3", extraFriend.IP: "far"}

	// Let the routers learn about each other, then set up end-to-end keys with
	// real hello exchanges.
	ms.Net.RunFor(tp, 5*time.Second+200*time.Millisecond, 20000)
	ms.Net.DrainFIFO(tp, 20000)
	for i := 1; i < 4; i++ {
		if _, err := nodes[i].Router.HelloPing.Send(R.IP); err != nil {
			e.Infra("hello: %v", err)
		}
		simnet.Wait()
		ms.Net.DrainFIFO(tp, 2000)
		s := nodes[i].State.GetSession(R.IP)
		if s == nil || !s.Encryption().IsSetUp() {
			e.Infra("hello exchange %s<->R did not complete", names[nodes[i].IP])
		}
	}

	drainTun := func(n *node.Node) (frames []frame.Frame, raws [][]byte) {
		for {
			select {
			case f := <-n.Tun.SendFrame:
				frames = append(frames, f)
			case r := <-n.Tun.SendRaw:
				raws = append(raws, r)
			default:
				return
			}
		}
	}

	// 5-tuples on which R itself sent something: replies to those are
	// ordinary stateful behaviour and carry no verdict.
	rOutbound := map[string]bool{}
	// ... and the mirror image: 5-tuples on which R accepted something from the
	// mesh; R's replies on those are the same stateful behaviour.
	rInbound := map[string]bool{}
	rRefused := map[string]bool{}
	tuple := func(remote netip.Addr, proto uint8, lport, rport uint16) string {
		return fmt.Sprintf("%s/%d/%d/%d", remote, proto, lport, rport)
	}

	// Earlier packets, for histories on one 5-tuple: a repeated inbound packet, and the mirror
	// image of a packet R's own interface tried to send (whether or not R let it out).
	type flow struct {
		si           int
		proto        uint8
		sport, dport uint16
	}
	var prevIn, prevOut []flow
	// Routers about which R was sent an error ping in this run: such a ping may legitimately
	// make R drop packets it would otherwise admit (the statement only says when a packet may
	// be handed over, never that it must be), so "admitted but dropped" is not judged for them.
	disturbed := map[netip.Addr]bool{}

	seq := 0
	flooding := false
	inbound := func(force *flow) {
		seq++
		si := 1 + tp.Intn(3)
		proto := []uint8{6, 17, 58, 6, 17, 1, 47, 0, 255, uint8(tp.Intn(256))}[tp.Intn(10)]
		var dport uint16
		switch {
		case len(ports) > 0 && tp.Chance(1, 5):
			// ports that differ from a service port only in the high byte (by a protocol number,
			// a multiple of 256, one bit): what a packed or truncated lookup key would confuse
			sp := ports[tp.Intn(len(ports))]
			switch tp.Intn(4) {
			case 0:
				dport = sp ^ uint16([]int{1, 6, 17, 6 ^ 17, 58, 58 ^ 6}[tp.Intn(6)])<<8
			case 1:
				dport = sp + uint16(256*(1+tp.Intn(8)))
			case 2:
				dport = sp - uint16(256*(1+tp.Intn(8)))
			default:
				dport = sp ^ 1<<uint(tp.Intn(16))
			}
			e.Probe("inbound_port_aliasing_a_service_port")
		case len(ports) > 0 && tp.Chance(2, 3):
			dport = uint16(int(ports[tp.Intn(len(ports))]) + tp.Intn(3) - 1)
		default:
			dport = []uint16{0, 80, 443, 65535, uint16(tp.Intn(65536))}[tp.Intn(5)]
		}
		sport := uint16(1024 + tp.Intn(60000))
		var quoted []byte
		switch mode := tp.Intn(5); {
		case force != nil:
			si, proto, sport, dport = force.si, force.proto, force.sport, force.dport
		case mode == 0 && len(prevIn) > 0:
			fl := prevIn[tp.Intn(len(prevIn))]
			si, proto, sport, dport = fl.si, fl.proto, fl.sport, fl.dport
			e.Probe("inbound_repeats_earlier_tuple")
		case mode == 1 && len(prevOut) > 0:
			fl := prevOut[tp.Intn(len(prevOut))]
			si, proto, sport, dport = fl.si, fl.proto, fl.dport, fl.sport
			e.Probe("inbound_mirrors_local_packet_of_R")
		case mode == 2 && len(prevIn) > 0:
			// an earlier inbound packet with exactly one component changed: the same router from
			// the same source port to another port (drawn above), another router on the same
			// ports, or another protocol - a verdict remembered for one 5-tuple says nothing
			// about its neighbours
			fl := prevIn[tp.Intn(len(prevIn))]
			switch tp.Intn(4) {
			case 0, 1:
				si, proto, sport = fl.si, fl.proto, fl.sport
			case 2:
				proto, sport, dport = fl.proto, fl.sport, fl.dport
			default:
				si, sport, dport = fl.si, fl.sport, fl.dport
			}
			e.Probe("inbound_next_to_an_earlier_tuple")
		case mode == 3 && len(prevIn)+len(prevOut) > 0 && tp.Chance(1, 2):
			// an ICMPv6 error message (destination unreachable, packet too big, time exceeded,
			// parameter problem) that quotes a packet of an earlier flow between R and this
			// router, as R would have sent it: whatever R remembers about that flow - admitted or
			// refused - an ICMPv6 packet is judged as what it is
			k := tp.Intn(len(prevIn) + len(prevOut))
			if k < len(prevIn) {
				fl := prevIn[k]
				si = fl.si
				quoted = packet(R.IP, nodes[si].IP, fl.proto, fl.dport, fl.sport, []byte("quoted"))
			} else {
				fl := prevOut[k-len(prevIn)]
				si = fl.si
				quoted = packet(R.IP, nodes[si].IP, fl.proto, fl.sport, fl.dport, []byte("quoted"))
			}
			proto = 58
			sport = uint16(1+tp.Intn(4))<<8 | uint16(tp.Intn(8)) // type and code
			e.Probe("inbound_icmp6_error_quoting_an_earlier_flow")
		}
		sender := nodes[si]
		innerSrc, innerDst := sender.IP, R.IP
		frameSrc := sender.IP
		sealer := sender
		lie := ""
		liePick := tp.Pick(10, 2, 1, 1, 1, 1)
		if flooding {
			liePick = 0
		}
		switch liePick {
		case 5:
			// not an IPv6 packet at all: another version number over bytes that would be an
			// admissible IPv6 packet - it has no "inner IPv6 source and destination"
			lie = "not-ipv6"
		case 1:
			innerSrc, lie = nodes[1+tp.Intn(3)].IP, "inner-src"
			if innerSrc == sender.IP {
				innerSrc = extraFriend.IP
			}
			if len(prevIn) > 0 && tp.Chance(1, 2) {
				// ... on the 5-tuple of an earlier inbound flow of another router: R may hold an
				// allowed connection state for exactly this packet - it was never checked for
				// this sender
				fl := prevIn[tp.Intn(len(prevIn))]
				if nodes[fl.si] != sender {
					innerSrc, proto, sport, dport = nodes[fl.si].IP, fl.proto, fl.sport, fl.dport
					e.Probe("spoofed_source_on_a_known_flow")
				}
			}
		case 2:
			innerDst, lie = nodes[1+tp.Intn(3)].IP, "inner-dst"
		case 3:
			// frame claims a friend as source but is sealed by the stranger
			frameSrc, sealer, lie = S1.IP, nodes[3], "frame-src-spoofed"
			innerSrc = S1.IP
			sender = nodes[3]
		case 4:
			lie = "unsealed"
		}
		payload := []byte(fmt.Sprintf("IN%05d:%x", seq, tp.Bytes(4)))
		if quoted != nil && proto == 58 {
			payload = append(quoted, payload...)
		}
		pkt := packet(innerSrc, innerDst, proto, sport, dport, payload)
		if lie == "not-ipv6" {
			pkt[0] = byte([]int{4, 0, 5, 7, 15}[tp.Intn(5)])<<4 | pkt[0]&0x0f
		}
		if force == nil && lie == "" && !flooding && (proto == 6 || proto == 17) && tp.Chance(1, 8) {
			// A fragment that is not the first of its packet (fragment header, offset > 0, an
			// identification R has never seen): it has no ports. The bytes where a first fragment
			// would carry them are the ones drawn above - often those of a service that admits
			// the sender. Its protocol is 44, for which no service can be defined.
			ext := make([]byte, 8)
			ext[0] = proto
			m.PutUint16(ext[2:4], uint16(1+tp.Intn(8000))<<3|uint16(tp.Intn(2)))
			copy(ext[4:8], tp.Bytes(4))
			np := append(append(append([]byte(nil), pkt[:40]...), ext...), pkt[40:]...)
			np[6] = 44
			m.PutUint16(np[4:6], uint16(len(np)-40))
			pkt, proto = np, 44
			e.Probe("inbound_later_fragment_with_port_like_bytes")
		}
		f, err := sender.Inst.Builder.NewFrameV1(frameSrc, R.IP, frame.NetworkTraffic, nil, pkt, nil)
		if err != nil {
			e.Infra("frame: %v", err)
		}
		if lie != "unsealed" {
			sess := sealer.State.GetSession(R.IP)
			if err := f.Seal(sess); err != nil {
				e.Infra("seal: %v", err)
			}
		}
		if err := sender.Router.RouteFrame(f); err != nil {
			e.Infra("route: %v", err)
		}
		simnet.Wait()
		ms.Net.DrainFIFO(tp, 500)
		frames, _ := drainTun(rN)
		delivered := false
		for _, g := range frames {
			if strings.Contains(string(g.MessageData()), string(payload)) {
				delivered = true
			}
			g.ReturnToPool()
		}
		effProto, effPort := proto, dport
		if proto != 6 && proto != 17 {
			effPort = 0
		}
		want, why := false, ""
		switch {
		case lie != "":
			want, why = false, "lying or unauthenticated frame: "+lie
		default:
			want, why = admits(svcs, friendSet, effProto, effPort, sender.IP)
		}
		key := tuple(innerSrc, proto, effPort, func() uint16 {
			if proto == 6 || proto == 17 {
				return sport
			}
			return 0
		}())
		e.Ev("in", uint64(si), uint64(proto), uint64(dport), b2u(delivered), b2u(want))
		if lie == "" {
			rInbound[key] = true
			prevIn = append(prevIn, flow{si, proto, sport, dport})
		}
		if rOutbound[key] {
			e.Probe("inbound_on_reply_tuple_not_judged")
			return
		}
		desc := fmt.Sprintf("packet from %s proto %d dst port %d (%s); services %v", names[sender.IP], proto, dport, why, urls)
		switch {
		case delivered && !want:
			cls := "unadmitted-packet-delivered"
			if lie != "" {
				cls = "spoofed-or-unauthenticated-packet-delivered/" + lie
			}
			e.Fail(cls, "%s was handed to the local interface", desc)
		case !delivered && want && disturbed[sender.IP]:
			e.Probe("admitted_but_dropped_after_error_ping_not_judged")
		case !delivered && want && rRefused[key]:
			// R's own refused packet left a non-allowed state on this 5-tuple; dropping the
			// mirror image is stricter than the statement asks, never laxer.
			e.Probe("admitted_but_dropped_on_tuple_of_refused_local_packet_not_judged")
		case !delivered && want:
			scheme := why
			if i := strings.Index(why, "://"); i > 0 {
				scheme = why[:i]
			}
			e.Fail("admitted-packet-dropped/"+scheme+fmt.Sprintf("/proto-%d", proto), "%s was not handed to the local interface", desc)
		}
		if want {
			e.Probe("inbound_admitted_and_delivered")
		} else {
			e.Probe("inbound_denied")
		}
		if lie != "" {
			e.Fault("spoof_" + lie)
		}
	}

	outbound := func() {
		seq++
		oi := tp.Intn(4)
		o := nodes[oi]
		isolate := oi == 0 && rStore.Router.Isolate
		src := o.IP
		if tp.Chance(1, 5) {
			src = nodes[(oi+1)%4].IP
		}
		var dst netip.Addr
		switch tp.Intn(8) {
		case 0:
			dst = netip.MustParseAddr("2001:db8::1")
		case 1:
			dst = netip.MustParseAddr("ff02::1")
		case 2:
			dst = netip.MustParseAddr("ff0e::fb")
		case 3:
			dst = extraFriend.IP
		case 4:
			dst = ident.Get(ident.Privacy, 0).IP
		default:
			dst = nodes[tp.Intn(4)].IP
			if dst == o.IP {
				dst = nodes[(oi+2)%4].IP
			}
		}
		proto := []uint8{6, 17, 58}[tp.Intn(3)]
		sport, dport := uint16(1024+tp.Intn(60000)), uint16(1+tp.Intn(3000))
		payload := []byte(fmt.Sprintf("OUT%05d:%x", seq, tp.Bytes(4)))
		pkt := packet(src, dst, proto, sport, dport, payload)
		// What the local interface hands over is not always an IPv6 packet: an IPv4 packet, or
		// one with any other version number, has no IPv6 source and destination at all, whatever
		// its bytes 8..39 look like (here: exactly like an admissible packet).
		notV6 := false
		if tp.Chance(1, 10) {
			pkt[0] = byte([]int{4, 0, 5, 7, 15}[tp.Intn(5)])<<4 | pkt[0]&0x0f
			notV6 = true
			e.Probe("local_packet_that_is_not_ipv6")
		}
		buf := o.Inst.Builder.GetPooledSlice(len(pkt))
		copy(buf, pkt)
		before := len(ms.Net.Crossings)
		if !notV6 && oi != 0 && dst == R.IP && src == o.IP {
			// traffic from another node's local interface towards R is inbound traffic for R
			lp, rp := dport, sport
			if proto == 58 {
				lp, rp = 0, 0
			}
			rInbound[tuple(o.IP, proto, lp, rp)] = true
		}
		o.Tun.RecvRaw <- buf[:len(pkt)]
		simnet.Wait()
		// Did anything towards dst leave this router? (traffic or the hello before it)
		left := false
		for _, c := range ms.Net.Crossings[before:] {
			if c.From != o || len(c.Data) < 48 {
				continue
			}
			cd := netip.AddrFrom16([16]byte(c.Data[32:48]))
			mt := frame.MessageType(c.Data[4])
			if cd == dst && (mt == frame.NetworkTraffic || (mt == frame.RouterPing && strings.Contains(string(c.Data), "hello"))) {
				left = true
			}
		}
		// let the hello / traffic play out honestly
		ms.Net.RunFor(tp, 300*time.Millisecond, 2000)
		for _, n := range nodes {
			frames, _ := drainTun(n)
			for _, g := range frames {
				g.ReturnToPool()
			}
		}
		if notV6 {
			if left {
				e.Fail("local-packet-entered-mesh/not-an-ipv6-packet", "%s sent a frame towards %s for a local packet with IP version %d", names[o.IP], dst, pkt[0]>>4)
			}
			e.Ev("out-not-v6", uint64(oi), b2u(left))
			e.Probe("outbound_not_sent")
			return
		}
		if oi == 0 {
			lp, rp := sport, dport
			if proto == 58 {
				lp, rp = 0, 0
			}
			// Only a packet R really let out opens a connection whose replies are stateful.
			if left {
				rOutbound[tuple(dst, proto, lp, rp)] = true
			} else {
				rRefused[tuple(dst, proto, lp, rp)] = true
			}
			for k := 1; k < 4; k++ {
				if nodes[k].IP == dst && src == o.IP {
					prevOut = append(prevOut, flow{k, proto, lp, rp})
				}
			}
		}
		okSrc := src == o.IP
		okDst := m.BaseNetPrefix.Contains(dst) && !dst.IsMulticast()
		okIso := !isolate || friendSet[dst]
		allowed := okSrc && okDst && okIso
		e.Ev("out", uint64(oi), b2u(left), b2u(allowed))
		if e.Trace {
			e.Logf("  out detail: node=%s src=%s dst=%s proto=%d sport=%d dport=%d isolate=%v friend=%v", names[o.IP], names[src], dst, proto, sport, dport, isolate, friendSet[dst])
			for _, c := range ms.Net.Crossings[before:] {
				if c.From == o {
					e.Logf("    crossing %s->%s len=%d type=%d dst=%s hello=%v", c.From.Name, c.To.Name, len(c.Data), c.Data[4], netip.AddrFrom16([16]byte(c.Data[32:48])), strings.Contains(string(c.Data), "hello"))
				}
			}
		}
		replyTuple := false
		if oi == 0 {
			lp, rp := sport, dport
			if proto == 58 {
				lp, rp = 0, 0
			}
			replyTuple = rInbound[tuple(dst, proto, lp, rp)]
		}
		if replyTuple {
			e.Probe("outbound_on_reply_tuple_not_judged")
		} else if left && !allowed {
			reason := "foreign-source"
			switch {
			case !okDst:
				reason = "non-mycoria-or-multicast-destination"
			case !okIso:
				reason = "isolated-non-friend-destination"
			}
			e.Fail("local-packet-entered-mesh/"+reason, "%s sent a frame towards %s for a local packet with source %s (isolate=%v)", names[o.IP], dst, src, isolate)
		}
		if left {
			e.Probe("outbound_allowed_sent")
		} else {
			e.Probe("outbound_not_sent")
		}
	}

	// rekey: router a has lost its keys for b (a restart, an expired session) and sets up
	// new ones with a real hello exchange; b serves the request on its live session.
	rekey := func(a, b *node.Node) {
		sess := a.State.GetSession(b.IP)
		if sess == nil {
			return
		}
		old := sess.Encryption()
		if err := a.State.SetEncryptionSession(b.IP, nil); err != nil {
			return
		}
		if _, err := a.Router.HelloPing.Send(b.IP); err != nil {
			// an exchange of a is still within its 30 s: no second one; a keeps its keys
			_ = a.State.SetEncryptionSession(b.IP, old)
			return
		}
		simnet.Wait()
		ms.Net.DrainFIFO(tp, 2000)
		sa, sb := a.State.GetSession(b.IP), b.State.GetSession(a.IP)
		if sa == nil || sb == nil || !sa.Encryption().IsSetUp() || !sb.Encryption().IsSetUp() {
			e.Infra("hello exchange %s<->%s in mid-run did not complete", names[a.IP], names[b.IP])
		}
		e.Probe("hello_exchange_repeated_mid_run")
	}

	// A flood first (one run in thirty): one router sends R twelve thousand packets from as
	// many source ports within seconds - a port scan, or a busy client. Every one of them is
	// judged like any other packet, and so is everything after it: whatever R keeps per flow,
	// running out of room for it is no reason to let anything through, in either direction.
	if tp.Chance(1, 30) {
		si := 1 + tp.Intn(3)
		proto := []uint8{6, 17}[tp.Intn(2)]
		dport := uint16(1 + tp.Intn(65535))
		if len(ports) > 0 && tp.Chance(1, 2) {
			dport = ports[tp.Intn(len(ports))]
		}
		flooding = true
		for i := 0; i < 12000; i++ {
			inbound(&flow{si, proto, uint16(2000 + i), dport})
		}
		flooding = false
		for k := 0; k < 10; k++ {
			outbound()
		}
		e.Fault("flood")
		e.Probe("twelve_thousand_flows_from_one_router")
	}

	nOps := 6 + tp.Intn(40)
	for op := 0; op < nOps; op++ {
		e.Step()
		switch tp.Pick(8, 3, 2, 1, 1, 1) {
		case 0:
			inbound(nil)
		case 5:
			// One history in one go: an earlier inbound flow (admitted or refused), a report
			// that its sender is unreachable, a fresh hello exchange with that sender, and the
			// same flow again - all within the lifetime of R's record of the flow.
			if len(prevIn) == 0 {
				continue
			}
			fl := prevIn[tp.Intn(len(prevIn))]
			inbound(&fl)
			x := nodes[fl.si]
			from := nodes[1+tp.Intn(3)]
			_ = from.Router.ErrorPing.SendUnreachable(R.IP, x.IP)
			disturbed[x.IP] = true
			simnet.Wait()
			ms.Net.DrainFIFO(tp, 500)
			a, b := x, rN
			if tp.Chance(1, 3) {
				a, b = rN, x
			}
			rekey(a, b)
			inbound(&fl)
			e.Probe("flow_repeated_after_unreachable_report_and_new_hello")
		case 1:
			outbound()
		case 4:
			// a sender (or R) sets up fresh end-to-end keys with a new hello exchange: a
			// completed exchange proves nothing about what the configuration admits
			i := 1 + tp.Intn(3)
			a, b := nodes[i], rN
			if tp.Chance(1, 3) {
				a, b = rN, nodes[i]
			}
			rekey(a, b)
		case 3:
			// an authentic error ping to R: some router reports a router unreachable, or a
			// destination service as rejecting / denying
			from := nodes[1+tp.Intn(3)]
			about := nodes[1+tp.Intn(3)].IP
			proto, port := uint8(6), uint16(tp.Intn(65536))
			if len(prevIn) > 0 && tp.Chance(2, 3) {
				fl := prevIn[tp.Intn(len(prevIn))]
				about, proto, port = nodes[fl.si].IP, fl.proto, fl.sport
			}
			var err error
			switch tp.Intn(3) {
			case 0:
				err = from.Router.ErrorPing.SendUnreachable(R.IP, about)
			case 1:
				err = from.Router.ErrorPing.SendRejected(R.IP, about, proto, port)
			default:
				err = from.Router.ErrorPing.SendAccessDenied(R.IP, about, proto, port)
			}
			_ = err
			disturbed[about] = true
			simnet.Wait()
			ms.Net.DrainFIFO(tp, 500)
			e.Fault("error_ping_about_peer")
		default:
			// time gaps that cross the 10 s / 10 min connection-state expiries
			// and the 10 s error cool-downs
			d := []time.Duration{time.Second, 11 * time.Second, 61 * time.Second, 11 * time.Minute}[tp.Intn(4)]
			ms.Net.RunFor(tp, d, 60000)
			e.Fault("clock_jump")
		}
		ms.CheckPanics("worker-panic")
	}
}

func b2u(b bool) uint64 {
	if b {
		return 1
	}
	return 0
}

func TestCheck(t *testing.T) {
	core.Main(t, &core.Check{
		ID:             "C06",
		QuickRuns:      320,
		ThoroughRuns:   32000,
		MinimiseBudget: 100,
		Run:            run,
	})
}
