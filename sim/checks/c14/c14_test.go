// C14 End-to-end key setup never ends in a silent key mismatch.
//
// Simulated system: two real router nodes joined by a simulated link (or three
// in a line, the middle one relaying). Both call the public HelloPing.Send; the
// tape orders, drops and duplicates the hello frames of concurrent setups and
// advances the fake clock past the 5 s cool-down and 30 s expiry for retries.
// Oracle at every quiescent point with no hello frame in flight: if both ends
// report IsSetUp, traffic sealed by either one must unseal at the other.
package c14

import (
	"fmt"
	"runtime"
	"strings"
	"sync"
	"testing"
	"time"

	"github.com/mycoria/mycoria/frame"

	"mycoverif/core"
	"mycoverif/mesh"
	"mycoverif/node"
	"mycoverif/simnet"
	"mycoverif/simsync"
)

// helloAge returns how long ago a hello frame was signed by its origin.
func helloAge(p *simnet.Packet, parser *frame.Builder) time.Duration {
	f, err := mesh.ParseCrossing(parser, p.Data)
	if err != nil {
		return 0
	}
	defer f.ReturnToPool()
	return time.Since(f.SequenceTime())
}

func isHello(p *simnet.Packet, parser *frame.Builder) (bool, bool) {
	if p.EOF {
		return false, false
	}
	f, err := mesh.ParseCrossing(parser, p.Data)
	if err != nil {
		return false, false
	}
	defer f.ReturnToPool()
	if f.MessageType() != frame.RouterPing {
		return false, false
	}
	hdr, _, ok := mesh.PingInfo(f)
	if !ok || hdr.PingType != "hello" {
		return false, false
	}
	return true, hdr.FollowUp
}

// burstOps counts lock operations of router/ and state/ since two frames were handed to one
// router together; switchAt are the two counts at which the processor changes hands (0: coin).
var (
	burstOps int
	switchAt [2]int
)

func run(e *core.Env) {
	burstOps, switchAt = 0, [2]int{}
	tp := e.Tape
	if tp.Chance(1, 8) {
		runHandshakeKeys(e)
		return
	}
	if tp.Chance(1, 8) {
		runThreeRouters(e)
		return
	}
	e.StartClock()
	nNodes := 2
	if tp.Chance(1, 4) {
		nNodes = 3
	}
	ms := mesh.Build(e, mesh.Options{MinNodes: nNodes, MaxNodes: nNodes, Kinds: []string{"line"}, TwoByteLabels: true})
	parser := frame.NewFrameBuilder()
	// A router handles frames with one worker per CPU. In half of the runs the workers of
	// one router may overtake each other: at the lock boundaries of router/ and state/
	// (import-path overlay sync -> simsync) a seeded coin hands the processor to another
	// runnable goroutine.
	// (The hook is always installed: without a coin it only acts on the switch points that a
	// burst of two frames draws for itself.)
	if every := []int{0, 0, 2, 3, 5}[tp.Intn(5)]; true {
		ys := tp.Uint64() | 1
		var ymu sync.Mutex
		switches := 0
		simsync.Blocking = true
		simsync.Yield = func(op string) {
			if switchAt[0] > 0 {
				// two frames are being handled side by side and this burst drew switch points:
				// the processor changes hands at exactly two lock operations, counted over all
				// workers from the arrival of the frames (every alignment of the two handlers
				// is then about equally likely; a coin at every lock makes late alignments
				// exponentially rare)
				ymu.Lock()
				burstOps++
				hit := burstOps == switchAt[0] || burstOps == switchAt[1]
				ymu.Unlock()
				if hit {
					switches++
					runtime.Gosched()
				}
				return
			}
			ymu.Lock()
			ys += 0x9e3779b97f4a7c15
			z := ys
			z = (z ^ (z >> 30)) * 0xbf58476d1ce4e5b9
			z = (z ^ (z >> 27)) * 0x94d049bb133111eb
			z ^= z >> 31
			ymu.Unlock()
			if every > 0 && z%uint64(every) == 0 {
				switches++
				runtime.Gosched()
			}
		}
		e.Cleanup(func() {
			simsync.Yield = nil
			simsync.Blocking = false
			e.ProbeN("lock_boundary_task_switches", switches)
		})
		if every > 0 {
			e.Fault("task_switch")
		}
	}
	A, B := ms.Nodes[0], ms.Nodes[nNodes-1]
	ai, bi := 0, nNodes-1
	if A.IP.Compare(B.IP) < 0 {
		e.Probe("initiator0_has_lower_address")
	} else {
		e.Probe("initiator0_has_higher_address")
	}
	// Either the routers already know each other from announcements, or the
	// hello is first contact (only possible between direct peers).
	if nNodes == 3 || tp.Chance(1, 2) {
		ms.Net.RunFor(tp, 5*time.Second+200*time.Millisecond, 20000)
		ms.Net.DrainFIFO(tp, 20000)
		e.Probe("routers_knew_each_other")
	}

	// pump delivers everything that is not a hello frame (honest network for
	// the rest), leaving hello frames to the adversary.
	pump := func() []*simnet.Packet {
		for guard := 0; guard < 20000; guard++ {
			var hello []*simnet.Packet
			progressed := false
			for _, p := range ms.Net.Heads() {
				if h, _ := isHello(p, parser); h {
					hello = append(hello, p)
					continue
				}
				ms.Net.Deliver(p)
				progressed = true
				break
			}
			if !progressed {
				// Heads only shows the oldest per direction; hello frames may
				// block younger frames behind them. Collect all hello frames
				// and deliver the first non-hello frame anywhere.
				hello = hello[:0]
				var other *simnet.Packet
				for _, p := range ms.Net.Pending() {
					if h, _ := isHello(p, parser); h {
						hello = append(hello, p)
					} else if other == nil {
						other = p
					}
				}
				if other != nil {
					ms.Net.Deliver(other)
					continue
				}
				return hello
			}
		}
		e.Infra("pump does not terminate")
		return nil
	}

	sealProbe := func(from, to *node.Node) (ok bool, detail string) {
		fs := from.State.GetSession(to.IP)
		ts := to.State.GetSession(from.IP)
		if fs == nil || ts == nil {
			return false, "session missing"
		}
		f, err := from.Inst.Builder.NewFrameV1(from.IP, to.IP, frame.NetworkTraffic, nil, []byte("0123456789abcdef0123456789abcdef0123456789abcdef"), nil)
		if err != nil {
			e.Infra("frame: %v", err)
		}
		if err := f.Seal(fs); err != nil {
			f.ReturnToPool()
			return false, "seal: " + err.Error()
		}
		d, _ := f.FrameDataWithMargins(0, 0)
		g, err := mesh.ParseCrossing(to.Inst.Builder, d)
		f.ReturnToPool()
		if err != nil {
			e.Infra("parse: %v", err)
		}
		defer g.ReturnToPool()
		if err := g.Unseal(ts); err != nil {
			return false, "unseal: " + err.Error()
		}
		return true, ""
	}

	var history []string
	staleDelivered := false
	// The shipped tun worker checks "not set up" and then sends the hello; the frame worker may
	// serve the peer's request in between. decided[x] = x has passed the check, not yet sent.
	decided := map[string]bool{}
	overtaken := false
	noteDelivery := func(p *simnet.Packet) {
		if _, fu := isHello(p, parser); !fu && helloAge(p, parser) >= 30*time.Second {
			staleDelivered = true
			e.Probe("stale_hello_request_delivered")
		}
	}
	check := func(where string) {
		ms.CheckPanics("worker-panic")
		as, bs := A.State.GetSession(B.IP), B.State.GetSession(A.IP)
		aUp := as != nil && as.Encryption().IsSetUp()
		bUp := bs != nil && bs.Encryption().IsSetUp()
		e.Ev("q", b2u(aUp), b2u(bUp))
		if !(aUp && bUp) {
			return
		}
		e.Probe("both_set_up_at_quiescence")
		ok1, d1 := sealProbe(A, B)
		ok2, d2 := sealProbe(B, A)
		if !ok1 || !ok2 {
			sub := "other"
			for _, h := range history {
				if h == "both-initiated" {
					sub = "both-initiated"
				}
			}
			for _, h := range history {
				if len(h) > 15 && h[:15] == "deliver-at-once" {
					// two hello frames were handled by two workers of one router at the same time
					sub = "hello-frames-handled-at-once"
				}
			}
			for _, h := range history {
				if strings.HasPrefix(h, "send-while-request-arrives") {
					sub = "hello-sent-while-a-request-is-handled"
				}
			}
			if overtaken {
				// A router sent its hello although its session had been set up (as the server
				// of the peer's request) between its decision and the send.
				sub = "hello-sent-after-decision-was-overtaken"
			}
			if staleDelivered {
				// A hello request older than the 30 s after which its sender
				// forgets the exchange was delivered: recorded finding.
				sub = "stale-request-after-expiry"
			}
			e.Fail("both-set-up-but-cannot-decrypt/"+sub,
				"%s: both routers report encryption established, but A->B ok=%v (%s), B->A ok=%v (%s); history %v",
				where, ok1, d1, ok2, d2, history)
		}
		e.Probe("both_set_up_and_traffic_unseals")
	}

	sendHello := func(from, to *node.Node, name string) {
		_, err := from.Router.HelloPing.Send(to.IP)
		history = append(history, fmt.Sprintf("%s.hello(%v)", name, err != nil))
		e.Ev("hello", b2u(err != nil))
		simnet.Wait()
	}

	pendingSetups := func(hello []*simnet.Packet) (reqs int) {
		for _, p := range hello {
			if _, fu := isHello(p, parser); !fu {
				reqs++
			}
		}
		return
	}

	// Focused opening in an eighth of the runs (two routers): X starts a setup and Y serves it; Y
	// then loses its keys again before its response has arrived (what the "no encryption keys"
	// error ping of X does to it when Y's first traffic overtakes the response) and starts a
	// setup of its own - its request travels behind its response. Both reach X in the same
	// instant and are handled by two of X's workers; then X's response reaches Y.
	if nNodes == 2 && tp.Chance(1, 5) {
		X, Y, xn, yn := A, B, "A", "B"
		if tp.Chance(1, 2) {
			X, Y, xn, yn = B, A, "B", "A"
		}
		sendHello(X, Y, xn)
		for _, p := range pump() {
			if p.To.Local == Y {
				noteDelivery(p)
				ms.Net.Deliver(p)
			}
		}
		_ = Y.State.SetEncryptionSession(X.IP, nil)
		history = append(history, yn+".forgets-keys")
		e.Fault("session_reset")
		sendHello(Y, X, yn)
		var toX []*simnet.Packet
		for _, p := range pump() {
			if p.To.Local == X {
				toX = append(toX, p)
			}
		}
		if len(toX) >= 2 {
			for _, p := range toX[:2] {
				_, fu := isHello(p, parser)
				history = append(history, fmt.Sprintf("deliver-at-once(%s->%s resp=%v)", p.From.Local.Name, p.To.Local.Name, fu))
				noteDelivery(p)
				ms.Net.Remove(p)
			}
			if tp.Chance(2, 3) {
				// (the worker that was woken last runs first: mostly the response is handed
				// over second, so that its worker is the one that gets ahead)
				toX[0], toX[1] = toX[1], toX[0]
			}
			toX[0].NoDelay, toX[1].NoDelay = true, true
			burstOps, switchAt = 0, [2]int{1 + tp.Intn(60), 200 + tp.Intn(2)*(tp.Intn(100)-199)}
			if e.Trace {
				e.Logf("former-server opening: switch points %v", switchAt)
			}
			ms.Net.DeliverRaw(toX[0])
			ms.Net.DeliverRaw(toX[1])
			simnet.Wait()
			switchAt = [2]int{}
			e.Probe("response_and_new_request_of_the_former_server_handled_at_once")
			e.Nontrivial()
			// what X answered reaches Y; once nothing of the setups is in flight the claim applies
			for guard := 0; guard < 8; guard++ {
				hs := pump()
				if len(hs) == 0 {
					break
				}
				for _, p := range hs {
					noteDelivery(p)
					ms.Net.Deliver(p)
				}
			}
			if e.Trace {
				xs, ys := X.State.GetSession(Y.IP), Y.State.GetSession(X.IP)
				e.Logf("former-server opening: X=%s Y=%s ops=%d xUp=%v yUp=%v pending=%d", xn, yn, burstOps, xs != nil && xs.Encryption().IsSetUp(), ys != nil && ys.Encryption().IsSetUp(), len(pump()))
			}
			if len(pump()) == 0 {
				check("after the former server's own setup")
			}
		}
	}

	// Focused opening in a fifth of the runs: both routers start a setup; the request of the
	// router with the lower address is served by the other one; then that router's request
	// and its response reach the lower one in the same instant, in either order.
	if tp.Chance(1, 5) {
		lo, hi := A, B
		if B.IP.Compare(A.IP) < 0 {
			lo, hi = B, A
		}
		sendHello(lo, hi, "lo")
		sendHello(hi, lo, "hi")
		history = append(history, "both-initiated")
		var toHi, toLo []*simnet.Packet
		for _, p := range pump() {
			if p.To.Local == hi || nNodes == 3 && p.From.Local == lo {
				toHi = append(toHi, p)
			}
		}
		for _, p := range toHi {
			noteDelivery(p)
			ms.Net.Deliver(p)
		}
		for guard := 0; guard < 4; guard++ { // (relayed in a line of three)
			toLo = toLo[:0]
			for _, p := range pump() {
				if p.To.Local == lo {
					toLo = append(toLo, p)
				} else {
					noteDelivery(p)
					ms.Net.Deliver(p)
				}
			}
			if len(toLo) >= 2 {
				break
			}
		}
		if len(toLo) >= 2 {
			if tp.Chance(1, 2) {
				toLo[0], toLo[1] = toLo[1], toLo[0]
			}
			for _, p := range toLo[:2] {
				_, fu := isHello(p, parser)
				history = append(history, fmt.Sprintf("deliver-at-once(%s->%s resp=%v)", p.From.Local.Name, p.To.Local.Name, fu))
				noteDelivery(p)
				ms.Net.Remove(p)
			}
			toLo[0].NoDelay, toLo[1].NoDelay = true, true // the same instant, no fake time in between
			if tp.Chance(1, 2) {
				burstOps, switchAt = 0, [2]int{1 + tp.Intn(80), 1 + tp.Intn(160)}
			}
			ms.Net.DeliverRaw(toLo[0])
			ms.Net.DeliverRaw(toLo[1])
			simnet.Wait()
			switchAt = [2]int{}
			e.Probe("request_and_response_of_the_peer_handled_at_once")
			e.Nontrivial()
		}
	}

	// Second focused opening (a sixth of the runs): slow delivery around the 30 s after which a
	// router forgets its own setup. The lower router's request is held for 24..29.9 s, the higher
	// one starts its own setup just before it is delivered, and its request reaches the lower
	// router 0.2..8 s later - before or after that router's own setup timed out. Nothing is
	// lost and no frame is older than 30 s when it arrives.
	if tp.Chance(1, 6) {
		lo, hi := A, B
		if B.IP.Compare(A.IP) < 0 {
			lo, hi = B, A
		}
		sleepHeld := func(d time.Duration) {
			end := time.Now().Add(d)
			for time.Now().Before(end) {
				step := 50 * time.Millisecond
				if r := time.Until(end); r < step {
					step = r
				}
				time.Sleep(step)
				simnet.Wait()
				pump()
			}
			history = append(history, "sleep("+d.String()+")")
		}
		deliverTo := func(dst *node.Node, wantResp bool) {
			for guard := 0; guard < 6; guard++ { // (a relay in between forwards in several steps)
				progressed := false
				for _, p := range pump() {
					if _, fu := isHello(p, parser); fu != wantResp {
						continue
					}
					if f, err := mesh.ParseCrossing(parser, p.Data); err == nil {
						toDst := f.DstIP() == dst.IP
						f.ReturnToPool()
						if !toDst {
							continue
						}
					}
					history = append(history, fmt.Sprintf("deliver(%s->%s resp=%v)", p.From.Local.Name, p.To.Local.Name, wantResp))
					noteDelivery(p)
					ms.Net.Deliver(p)
					progressed = true
				}
				if !progressed {
					return
				}
			}
		}
		if tp.Chance(1, 3) {
			// ... or a retry: the first request is served, its response is held for longer than
			// the 30 s after which the requester gives its exchange up (and for less than the
			// minute after which it forgets it), the requester tries again, that request is
			// served too - and the late first response arrives before the second one.
			sendHello(lo, hi, "first")
			deliverTo(hi, false)
			sleepHeld(30200*time.Millisecond + time.Duration(tp.Intn(25000))*time.Millisecond)
			sendHello(lo, hi, "retry")
			deliverTo(hi, false)
			deliverTo(lo, true) // oldest first
			history = append(history, "late-response-before-the-retrys")
			e.Probe("late_first_response_arrives_before_the_retrys")
			e.Fault("delay")
		} else {
			sendHello(lo, hi, "lo")
			sleepHeld(24*time.Second + time.Duration(tp.Intn(5900))*time.Millisecond)
			sendHello(hi, lo, "hi")
			history = append(history, "both-initiated")
			deliverTo(hi, false)
			sleepHeld(200*time.Millisecond + time.Duration(tp.Intn(7800))*time.Millisecond)
			deliverTo(lo, false)
			if tp.Chance(1, 2) {
				deliverTo(hi, true)
				deliverTo(lo, true)
			} else {
				deliverTo(lo, true)
				deliverTo(hi, true)
			}
			e.Probe("slow_delivery_around_the_setup_timeout")
			e.Fault("delay")
		}
	}

	steps := 4 + tp.Intn(24)
	retriesA, retriesB := 0, 0
	for s := 0; s < steps; s++ {
		e.Step()
		hello := pump()
		if len(hello) == 0 {
			check(fmt.Sprintf("step %d", s))
		}
		// A hello is started exactly when the shipped tun handler would start
		// one: the caller's session is missing or its encryption is not set up.
		notUp := func(x, y *node.Node) bool {
			s := x.State.GetSession(y.IP)
			return s == nil || !s.Encryption().IsSetUp()
		}
		var opts []string
		if retriesA < 5 && notUp(A, B) {
			opts = append(opts, "A", "A")
		}
		if retriesB < 5 && notUp(B, A) {
			opts = append(opts, "B", "B")
		}
		if retriesA < 5 && notUp(A, B) && !decided["A"] {
			opts = append(opts, "A-decides")
		}
		if retriesB < 5 && notUp(B, A) && !decided["B"] {
			opts = append(opts, "B-decides")
		}
		if decided["A"] {
			opts = append(opts, "A-sends", "A-sends")
		}
		if decided["B"] {
			opts = append(opts, "B-sends", "B-sends")
		}
		opts = append(opts, "time")
		if !notUp(A, B) || !notUp(B, A) {
			opts = append(opts, "forget")
		}
		for range hello {
			opts = append(opts, "deliver", "deliver", "drop", "dup")
		}
		// two hello frames for one router that arrive in the same instant are handled by two of
		// its frame workers at the same time
		var pairAt [][2]*simnet.Packet
		for i, p := range hello {
			for _, q := range hello[i+1:] {
				if p.To.Local == q.To.Local {
					pairAt = append(pairAt, [2]*simnet.Packet{p, q})
				}
			}
		}
		if len(pairAt) > 0 {
			opts = append(opts, "deliver2", "deliver2", "deliver2")
		}
		// a router starts its own setup (the tun worker calls Send) in the instant in which a
		// request of the other router reaches it (a frame worker handles it): two goroutines
		// of one router, interleaved at the lock boundaries
		var reqAt []*simnet.Packet
		for _, p := range hello {
			if _, fu := isHello(p, parser); fu {
				continue
			}
			if p.To.Local == A && retriesA < 5 && notUp(A, B) || p.To.Local == B && retriesB < 5 && notUp(B, A) {
				reqAt = append(reqAt, p)
			}
		}
		if len(reqAt) > 0 {
			opts = append(opts, "send+deliver", "send+deliver", "send+deliver")
		}
		switch op := opts[tp.Intn(len(opts))]; op {
		case "A":
			sendHello(A, B, "A")
			retriesA++
			if h := pump(); pendingSetups(h) >= 2 {
				history = append(history, "both-initiated")
				e.Probe("hello_both_initiated")
			}
		case "B":
			sendHello(B, A, "B")
			retriesB++
			if h := pump(); pendingSetups(h) >= 2 {
				history = append(history, "both-initiated")
				e.Probe("hello_both_initiated")
			}
		case "A-decides", "B-decides":
			decided[op[:1]] = true
			history = append(history, op)
		case "A-sends", "B-sends":
			x, y, name := A, B, "A"
			if op[:1] == "B" {
				x, y, name = B, A, "B"
			}
			decided[name] = false
			if !notUp(x, y) {
				overtaken = true
				e.Probe("hello_sent_after_decision_was_overtaken")
				e.Fault("slow_sender")
			}
			sendHello(x, y, name)
			if name == "A" {
				retriesA++
			} else {
				retriesB++
			}
			if h := pump(); pendingSetups(h) >= 2 {
				history = append(history, "both-initiated")
				e.Probe("hello_both_initiated")
			}
		case "forget":
			// One side loses its keys, as after the "no encryption keys" error
			// ping (the shipped handler calls exactly this) or a restart.
			x, y, name := A, B, "A"
			if notUp(A, B) || (!notUp(B, A) && tp.Chance(1, 2)) {
				x, y, name = B, A, "B"
			}
			_ = x.State.SetEncryptionSession(y.IP, nil)
			history = append(history, name+".forgets-keys")
			e.Fault("session_reset")
		case "time":
			d := []time.Duration{100 * time.Millisecond, time.Second, 6 * time.Second, 31 * time.Second}[tp.Intn(4)]
			// Time passes with the hello frames held back by the adversary.
			end := time.Now().Add(d)
			for time.Now().Before(end) {
				step := 50 * time.Millisecond
				if r := time.Until(end); r < step {
					step = r
				}
				time.Sleep(step)
				simnet.Wait()
				pump()
			}
			history = append(history, "sleep("+d.String()+")")
			e.Fault("delay")
			if d >= 31*time.Second {
				e.Probe("hello_state_expired")
			}
		case "deliver":
			p := hello[tp.Intn(len(hello))]
			if p != hello[0] {
				e.Fault("reorder")
			}
			_, fu := isHello(p, parser)
			history = append(history, fmt.Sprintf("deliver(%s->%s resp=%v%s)", p.From.Local.Name, p.To.Local.Name, fu, p.Tag))
			noteDelivery(p)
			ms.Net.Deliver(p)
		case "deliver2":
			pr := pairAt[tp.Intn(len(pairAt))]
			if tp.Chance(1, 2) {
				pr[0], pr[1] = pr[1], pr[0]
			}
			for _, p := range pr {
				_, fu := isHello(p, parser)
				history = append(history, fmt.Sprintf("deliver-at-once(%s->%s resp=%v%s)", p.From.Local.Name, p.To.Local.Name, fu, p.Tag))
				noteDelivery(p)
			}
			ms.Net.Remove(pr[0])
			ms.Net.Remove(pr[1])
			pr[0].NoDelay, pr[1].NoDelay = true, true // the same instant, no fake time in between
			if tp.Chance(1, 2) {
				burstOps, switchAt = 0, [2]int{1 + tp.Intn(80), 1 + tp.Intn(160)}
			}
			ms.Net.DeliverRaw(pr[0])
			ms.Net.DeliverRaw(pr[1])
			simnet.Wait()
			switchAt = [2]int{}
			e.Probe("two_hello_frames_handled_at_once")
			e.Nontrivial()
		case "send+deliver":
			p := reqAt[tp.Intn(len(reqAt))]
			x, y, name := A, B, "A"
			if p.To.Local == B {
				x, y, name = B, A, "B"
			}
			noteDelivery(p)
			history = append(history, fmt.Sprintf("send-while-request-arrives(%s)", name))
			ms.Net.Remove(p)
			p.NoDelay = true
			done := make(chan struct{})
			send := func() {
				_, err := x.Router.HelloPing.Send(y.IP)
				e.Ev("hello", b2u(err != nil))
				close(done)
			}
			if tp.Chance(1, 2) {
				go send()
				ms.Net.DeliverRaw(p)
			} else {
				go func() { runtime.Gosched(); send() }()
				ms.Net.DeliverRaw(p)
			}
			simnet.Wait()
			<-done
			if name == "A" {
				retriesA++
			} else {
				retriesB++
			}
			if h := pump(); pendingSetups(h) >= 2 {
				history = append(history, "both-initiated")
				e.Probe("hello_both_initiated")
			}
			e.Probe("hello_sent_while_a_request_is_handled")
			e.Nontrivial()
		case "drop":
			p := hello[tp.Intn(len(hello))]
			_, fu := isHello(p, parser)
			history = append(history, fmt.Sprintf("drop(%s->%s resp=%v)", p.From.Local.Name, p.To.Local.Name, fu))
			ms.Net.Remove(p)
			e.Fault("drop")
		case "dup":
			p := hello[tp.Intn(len(hello))]
			_, fu := isHello(p, parser)
			history = append(history, fmt.Sprintf("dup(%s->%s resp=%v)", p.From.Local.Name, p.To.Local.Name, fu))
			ms.Net.Duplicate(p)
			e.Fault("dup")
		}
	}
	// Finally deliver or drop whatever hello frames remain, then check.
	for guard := 0; guard < 200; guard++ {
		hello := pump()
		if len(hello) == 0 {
			break
		}
		p := hello[tp.Intn(len(hello))]
		if tp.Chance(1, 4) {
			ms.Net.Remove(p)
			history = append(history, "drop(final)")
			e.Fault("drop")
		} else {
			_, fu := isHello(p, parser)
			history = append(history, fmt.Sprintf("deliver(%s->%s resp=%v%s)", p.From.Local.Name, p.To.Local.Name, fu, p.Tag))
			noteDelivery(p)
			ms.Net.Deliver(p)
		}
	}
	check("end")
	_ = ai
	_ = bi
	e.Sample("nodes=%d history=%v", nNodes, history)
}

func b2u(b bool) uint64 {
	if b {
		return 1
	}
	return 0
}

func TestCheck(t *testing.T) {
	core.Main(t, &core.Check{
		ID:             "C14",
		QuickRuns:      1200,
		ThoroughRuns:   200000,
		MinimiseBudget: 200,
		Run:            run,
	})
}
