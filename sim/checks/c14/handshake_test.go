package c14

// Wave 15: the peering handshake is the other way end-to-end keys get installed (a link that is
// set up makes the keys agreed in its handshake the keys of the session with the peer). Two
// real peering stacks (shipped listener, accept loop, setup worker, handshake, link workers) on
// simulated connections: they connect, one of them loses its keys for the other (a restart with
// the same identity and nothing else, the "no encryption keys" error, or nothing), the link goes
// away and a new one is set up - in either direction. Whenever nothing is in flight: if both
// routers consider end-to-end encryption established, what either seals the other unseals.

import (
	"fmt"
	"strings"
	"time"

	"github.com/mycoria/mycoria/frame"

	"mycoverif/core"
	"mycoverif/ident"
	"mycoverif/linkpair"
	"mycoverif/node"
	"mycoverif/simnet"
)

func runHandshakeKeys(e *core.Env) {
	tp := e.Tape
	e.StartClock()
	e.Probe("keys_from_peering_handshakes")
	node.CaptureStderr()
	cn := simnet.NewConnNet(e)
	ids := [2]int{tp.Intn(4), 4 + tp.Intn(4)}
	gen := [2]int{}
	var S [2]*linkpair.Stack
	mk := func(i int) {
		id := ident.Get(ident.Routable, ids[i])
		S[i] = linkpair.NewStack(e, fmt.Sprintf("r%d.%d", i, gen[i]), id, node.BaseStore(id), false)
		gen[i]++
	}
	mk(0)
	mk(1)
	var history []string
	sealProbe := func(x, y *linkpair.Stack) (bool, string) {
		xs := x.Node.State.GetSession(y.Node.IP)
		f, err := x.Node.Inst.Builder.NewFrameV1(x.Node.IP, y.Node.IP, frame.NetworkTraffic, nil, []byte("end-to-end probe ........"), nil)
		if err != nil {
			e.Infra("frame: %v", err)
		}
		defer f.ReturnToPool()
		if err := f.Seal(xs); err != nil {
			return false, "seal: " + err.Error()
		}
		d, _ := f.FrameDataWithMargins(0, 0)
		b := y.Node.Inst.Builder
		buf := b.GetPooledSlice(len(d))
		copy(buf, d)
		g, err := b.ParseFrame(buf[:len(d)], buf, 0)
		if err != nil {
			b.ReturnPooledSlice(buf)
			return false, "parse: " + err.Error()
		}
		defer g.ReturnToPool()
		if err := g.Unseal(y.Node.State.GetSession(x.Node.IP)); err != nil {
			return false, "unseal: " + err.Error()
		}
		return true, ""
	}
	check := func(where string) {
		as, bs := S[0].Node.State.GetSession(S[1].Node.IP), S[1].Node.State.GetSession(S[0].Node.IP)
		aUp := as != nil && as.Encryption().IsSetUp()
		bUp := bs != nil && bs.Encryption().IsSetUp()
		e.Ev("hq", b2u(aUp), b2u(bUp))
		if !(aUp && bUp) {
			return
		}
		e.Probe("both_set_up_at_quiescence")
		ok1, d1 := sealProbe(S[0], S[1])
		ok2, d2 := sealProbe(S[1], S[0])
		if !ok1 || !ok2 {
			e.Fail("both-set-up-but-cannot-decrypt/keys-from-a-peering-handshake",
				"%s: both routers report encryption established, but A->B ok=%v (%s), B->A ok=%v (%s); history %v", where, ok1, d1, ok2, d2, history)
		}
		e.Probe("both_set_up_and_traffic_unseals")
	}
	linked := func() bool {
		return S[0].Node.Peering.GetLink(S[1].Node.IP) != nil && S[1].Node.Peering.GetLink(S[0].Node.IP) != nil
	}
	closeAll := func() {
		for i := 0; i < 2; i++ {
			for _, l := range S[i].Node.Peering.GetLinks() {
				l.Close(nil)
			}
		}
		simnet.Wait()
		cn.DrainFIFO(tp, 200)
		for _, r := range cn.Pending() {
			cn.Remove(r)
		}
	}
	for round, rounds := 0, 2+tp.Intn(4); round < rounds; round++ {
		e.Step()
		c := tp.Intn(2)
		if round > 0 {
			// a new connection is not made in the same millisecond as the last one ended
			// (signed frames of one router carry strictly increasing time stamps)
			time.Sleep(time.Duration(20+tp.Intn(5000)) * time.Millisecond)
		}
		att := linkpair.Dial(cn, S[c], S[1-c])
		if tp.Chance(1, 4) {
			// both routers dial each other at the same time: two handshakes between the same
			// two routers run interleaved, the tape decides whose records arrive first
			att2 := linkpair.Dial(cn, S[1-c], S[c])
			cn.DrainFIFO(tp, 800)
			if att2.Result.Panic != "" {
				e.Fail("panic-in-handshake", "%s", att2.Result.Panic)
			}
			history = append(history, "both dial at once")
			e.Fault("cross_connect")
		}
		cn.DrainFIFO(tp, 400)
		history = append(history, fmt.Sprintf("%s dials %s: linked=%v", S[c].Node.Name, S[1-c].Node.Name, linked()))
		e.Logf("handshake round %d: done=%v err=%v linked=%v history=%v", round, att.Result.Done, att.Result.Err, linked(), history)
		if att.Result.Panic != "" {
			e.Fail("panic-in-handshake", "%s", att.Result.Panic)
		}
		if !linked() {
			e.Probe("handshake_did_not_end_in_a_link") // whether honest routers peer is C04's and C20's claim
		} else {
			e.Probe("link_set_up")
			if n := len(history); n >= 2 && strings.Contains(history[n-2], "restarted") {
				e.Probe("link_set_up_after_one_router_restarted")
			}
			if n := len(history); n >= 2 && strings.Contains(history[n-2], "forgets") {
				e.Probe("link_set_up_after_one_router_lost_its_keys")
			}
		}
		check(fmt.Sprintf("after connection %d", round))
		if round+1 == rounds {
			break
		}
		// what happens to the keys before the next connection
		switch tp.Intn(4) {
		case 0: // one router restarts: same identity, nothing else survives
			closeAll()
			v := tp.Intn(2)
			_ = S[v].Listener.Close()
			S[v].Node.Kill()
			simnet.Wait()
			mk(v)
			history = append(history, fmt.Sprintf("r%d restarted", v))
			e.Fault("restart")
		case 1: // one router drops its keys for the other (what the "no encryption keys" error does)
			v := tp.Intn(2)
			_ = S[v].Node.State.SetEncryptionSession(S[1-v].Node.IP, nil)
			history = append(history, fmt.Sprintf("r%d forgets keys", v))
			e.Fault("session_reset")
			if tp.Chance(1, 2) {
				closeAll()
			}
		case 2: // the link just goes away
			closeAll()
			history = append(history, "link closed")
		default: // a second connection next to the first (the other direction, or the same)
			history = append(history, "no close")
		}
		check(fmt.Sprintf("between connections %d and %d", round, round+1))
	}
	closeAll()
	e.Sample("keys from peering handshakes: %v", history)
}
