package c14

import (
	"fmt"
	"time"

	"github.com/mycoria/mycoria/frame"

	"mycoverif/core"
	"mycoverif/mesh"
	"mycoverif/node"
	"mycoverif/simnet"
)

// runThreeRouters: key setups of one router with several others, one after the other.
//
// A router keeps end-to-end keys with many routers at a time. Three or four real routers on an
// honest network (nothing lost, nothing reordered); a seeded sequence of 2..6 key setups between
// seeded pairs, with simulated seconds to many minutes in between (the hello handler's
// cool-down is 5 s, its states expire after 30 s and are cleaned once a minute). After every
// setup the statement is checked for EVERY pair of routers, not only the pair that has just
// talked: if both ends report established keys, traffic sealed by either one unseals at the
// other. A setup with one router must not touch what was agreed with another.
func runThreeRouters(e *core.Env) {
	tp := e.Tape
	e.StartClock()
	e.Probe("setups_with_several_routers_in_turn")
	n := 3 + tp.Intn(2)
	kind := []string{"line", "ring", "star"}[tp.Intn(3)]
	ms := mesh.Build(e, mesh.Options{MinNodes: n, MaxNodes: n, Kinds: []string{kind}, TwoByteLabels: true})
	ms.Net.RunFor(tp, 5*time.Second+200*time.Millisecond, 20000)
	ms.Net.DrainFIFO(tp, 20000)

	sealProbe := func(from, to *node.Node) (bool, string) {
		fs := from.State.GetSession(to.IP)
		ts := to.State.GetSession(from.IP)
		if fs == nil || ts == nil {
			return false, "session missing"
		}
		f, err := from.Inst.Builder.NewFrameV1(from.IP, to.IP, frame.NetworkTraffic, nil, []byte("0123456789abcdef0123456789abcdef0123456789abcdef"), nil)
		if err != nil {
			e.Infra("frame: %v", err)
		}
		if err := f.Seal(fs); err != nil {
			f.ReturnToPool()
			return false, "seal: " + err.Error()
		}
		d, _ := f.FrameDataWithMargins(0, 0)
		g, err := mesh.ParseCrossing(to.Inst.Builder, d)
		f.ReturnToPool()
		if err != nil {
			e.Infra("parse: %v", err)
		}
		defer g.ReturnToPool()
		if err := g.Unseal(ts); err != nil {
			return false, "unseal: " + err.Error()
		}
		return true, ""
	}
	var history []string
	checkAll := func(where string) {
		ms.CheckPanics("worker-panic")
		for i := 0; i < n; i++ {
			for j := i + 1; j < n; j++ {
				x, y := ms.Nodes[i], ms.Nodes[j]
				_, xe := x.State.VerifPeekSession(y.IP)
				_, ye := y.State.VerifPeekSession(x.IP)
				if xe == nil || ye == nil || !xe.IsSetUp() || !ye.IsSetUp() {
					continue
				}
				e.Probe("pair_set_up_at_quiescence")
				ok1, d1 := sealProbe(x, y)
				ok2, d2 := sealProbe(y, x)
				if !ok1 || !ok2 {
					e.Fail("silent-key-mismatch/setups-with-several-routers",
						"%s: n%d and n%d both report established keys, but n%d->n%d: %v %s, n%d->n%d: %v %s; history: %v",
						where, i, j, i, j, ok1, d1, j, i, ok2, d2, history)
				}
			}
		}
	}

	for step, steps := 0, 2+tp.Intn(5); step < steps; step++ {
		e.Step()
		i := tp.Intn(n)
		j := tp.Intn(n - 1)
		if j >= i {
			j++
		}
		x, y := ms.Nodes[i], ms.Nodes[j]
		notify, err := x.Router.HelloPing.Send(y.IP)
		history = append(history, fmt.Sprintf("n%d->n%d", i, j))
		if err != nil {
			history[len(history)-1] += "(refused: " + err.Error() + ")"
		} else {
			simnet.Wait()
			ms.Net.DrainFIFO(tp, 5000)
			select {
			case <-notify:
				e.Probe("setup_completed")
			default:
				history[len(history)-1] += "(not completed)"
			}
		}
		checkAll(fmt.Sprintf("after setup %d", step+1))
		// simulated time between two setups: none, past the cool-down, past the expiry of the
		// exchange, past one or several rounds of the once-a-minute cleaner
		gap := []time.Duration{0, 6 * time.Second, 31 * time.Second, 61 * time.Second, 2 * time.Minute, 6 * time.Minute}[tp.Intn(6)]
		gap += time.Duration(tp.Intn(1000)) * time.Millisecond
		if gap > time.Second {
			ms.Net.RunFor(tp, gap, 40000)
			ms.Net.DrainFIFO(tp, 20000)
			history = append(history, gap.Round(time.Second).String())
			checkAll(fmt.Sprintf("%v after setup %d", gap.Round(time.Second), step+1))
		}
	}
	e.Sample("%d routers (%s), setups and pauses: %v", n, kind, history)
}
