// Package ident produces deterministic, valid router identities for the
// simulator: seeded Ed25519 keys whose real address digest (computed by
// /repo's m.DigestToAddress) falls into the wanted range, validated through
// the real m.AddressFromStorage. Nothing about the digest is re-implemented.
package ident

import (
	"crypto/ed25519"
	"crypto/sha256"
	"encoding/binary"
	"encoding/hex"
	"encoding/json"
	"fmt"
	"net/netip"
	"os"
	"sync"

	"github.com/mycoria/mycoria/m"

	"mycoverif/core"
)

func init() { core.OnExit(Save) }

// Kind selects the address range of an identity.
type Kind int

// Kinds.
const (
	Routable Kind = iota // fd00::/9, geo-marked (outside the special /12)
	Privacy              // fd80::/9
	Roaming              // fd00::/16 roaming, outside internal
	ContinentA           // geo-marked, all inside one continent prefix (fd10::/12)
	ContinentB           // geo-marked, all inside another continent prefix (fd40::/12)
	SameLabel            // geo-marked, all with the same derived one-byte switch label (42)
	RegionStart          // geo-marked, in a country prefix that begins at the first address of its region
)

var (
	continentA = netip.MustParsePrefix("fd10::/12")
	continentB = netip.MustParsePrefix("fd40::/12")
)

type cacheFile struct {
	Counters map[string][]uint64 `json:"counters"`
}

var (
	lock    sync.Mutex
	pools   = map[Kind][]*m.Address{}
	next    = map[Kind]uint64{}
	cache   cacheFile
	loaded  bool
	dirty   bool
	cacheFn = os.Getenv("VERIF_IDENT_CACHE")
)

func kindName(k Kind) string {
	switch k {
	case Routable:
		return "routable"
	case Privacy:
		return "privacy"
	case RegionStart:
		return "region-start"
	case SameLabel:
		return "same-label"
	case ContinentA:
		return "continent-a"
	case ContinentB:
		return "continent-b"
	default:
		return "roaming"
	}
}

func accept(k Kind, ip netip.Addr) bool {
	switch k {
	case Routable:
		return m.GetAddressType(ip) == m.TypeGeoMarked
	case Privacy:
		return m.GetAddressType(ip) == m.TypePrivacy
	case RegionStart:
		if m.GetAddressType(ip) != m.TypeGeoMarked {
			return false
		}
		marker, err := m.LookupCountryMarker(ip)
		if err != nil || marker == nil {
			return false
		}
		region, _ := ip.Prefix(m.RegionPrefixBits)
		return marker.Prefix.Masked().Addr() == region.Addr() && marker.Prefix.Bits() > m.RegionPrefixBits
	case SameLabel:
		l, ok := m.DeriveSwitchLabelFromIP(ip)
		return m.GetAddressType(ip) == m.TypeGeoMarked && ok && l == 42
	case ContinentA:
		return m.GetAddressType(ip) == m.TypeGeoMarked && continentA.Contains(ip)
	case ContinentB:
		return m.GetAddressType(ip) == m.TypeGeoMarked && continentB.Contains(ip)
	default:
		return m.GetAddressType(ip) == m.TypeRoaming
	}
}

// FromCounter derives the key pair for a counter value (exported for checks
// that need extra valid-or-not identities).
func FromCounter(k Kind, counter uint64) (ed25519.PublicKey, ed25519.PrivateKey) {
	var buf [32]byte
	copy(buf[:], "mycoverif-ident")
	buf[16] = byte(k)
	binary.BigEndian.PutUint64(buf[24:], counter)
	seed := sha256.Sum256(buf[:])
	priv := ed25519.NewKeyFromSeed(seed[:])
	return priv.Public().(ed25519.PublicKey), priv
}

func build(k Kind, counter uint64) (*m.Address, bool) {
	pub, priv := FromCounter(k, counter)
	ip, err := m.DigestToAddress(m.AddressDigestAlg, m.AddressKeyToolID, pub, 0)
	if err != nil || !accept(k, ip) {
		return nil, false
	}
	addr, err := m.AddressFromStorage(m.AddressStorage{
		IP:         ip.String(),
		Hash:       m.AddressDigestAlg,
		Type:       m.AddressKeyToolID,
		PublicKey:  hex.EncodeToString(pub),
		PrivateKey: hex.EncodeToString(priv),
	})
	if err != nil {
		panic(fmt.Sprintf("ident: real AddressFromStorage rejects a by-construction valid identity: %v", err))
	}
	return addr, true
}

func load() {
	if loaded {
		return
	}
	loaded = true
	cache.Counters = map[string][]uint64{}
	if cacheFn == "" {
		return
	}
	data, err := os.ReadFile(cacheFn)
	if err != nil {
		return
	}
	var c cacheFile
	if json.Unmarshal(data, &c) == nil && c.Counters != nil {
		cache = c
	}
}

// Get returns the i-th identity of the given kind.
func Get(k Kind, i int) *m.Address {
	lock.Lock()
	defer lock.Unlock()
	load()
	for len(pools[k]) <= i {
		idx := len(pools[k])
		name := kindName(k)
		if cs := cache.Counters[name]; idx < len(cs) {
			if a, ok := build(k, cs[idx]); ok {
				pools[k] = append(pools[k], a)
				next[k] = cs[idx] + 1
				continue
			}
			// Cache no longer valid for the current tree: drop the rest.
			cache.Counters[name] = cs[:idx]
		}
		for {
			c := next[k]
			next[k]++
			if a, ok := build(k, c); ok {
				pools[k] = append(pools[k], a)
				cache.Counters[name] = append(cache.Counters[name], c)
				dirty = true
				break
			}
		}
	}
	return pools[k][i]
}

// Save writes the counter cache (only a speed-up; contents are re-validated
// against the current tree on load).
func Save() {
	lock.Lock()
	defer lock.Unlock()
	if !dirty || cacheFn == "" {
		return
	}
	data, _ := json.Marshal(cache)
	tmp := fmt.Sprintf("%s.%d.tmp", cacheFn, os.Getpid())
	if os.WriteFile(tmp, data, 0o644) == nil {
		_ = os.Rename(tmp, cacheFn)
	}
	dirty = false
}
