// Package simsyncd stands in for package sync where a check must be able to
// see a goroutine that waits for a lock for ever (C13: "no network input
// stalls a worker"). A goroutine parked in a real sync.Mutex is not "durably
// blocked" for testing/synctest: the bubble would neither reach quiescence nor
// advance its clock, and the whole run would hang instead of reporting the
// stall. The locks here park waiters on channels, which synctest does count
// as durable: the run goes on, the stuck worker stays stuck, and the harness
// finds it - as a peer that gets no more answers, or as a goroutine that is
// still blocked when the run ends.
//
// Semantics are those of sync.Mutex / sync.RWMutex (zero value usable, unlock
// of an unlocked mutex panics, readers share, a writer excludes), including the
// documented writer preference: while a Lock call waits, new RLock calls wait
// too - which is what turns a recursive read lock into a deadlock as soon as a
// writer arrives between the two RLock calls.
// It is linked into packages of /repo through an import-path overlay.
package simsyncd

import "sync"

// Re-exports so that rewritten packages keep compiling.
type (
	WaitGroup = sync.WaitGroup
	Once      = sync.Once
	Cond      = sync.Cond
	Map       = sync.Map
	Pool      = sync.Pool
	Locker    = sync.Locker
)

// NewCond mirrors sync.NewCond.
func NewCond(l Locker) *Cond { return sync.NewCond(l) }

// OnceFunc and friends are not used by the rewritten packages.

// Mutex mirrors sync.Mutex.
type Mutex struct {
	mu      sync.Mutex // held for a few instructions only, never while waiting
	locked  bool
	waiters []chan struct{}
}

// Lock locks m.
func (m *Mutex) Lock() {
	for {
		m.mu.Lock()
		if !m.locked {
			m.locked = true
			m.mu.Unlock()
			return
		}
		ch := make(chan struct{})
		m.waiters = append(m.waiters, ch)
		m.mu.Unlock()
		<-ch
	}
}

// TryLock mirrors (*sync.Mutex).TryLock.
func (m *Mutex) TryLock() bool {
	m.mu.Lock()
	defer m.mu.Unlock()
	if m.locked {
		return false
	}
	m.locked = true
	return true
}

// Unlock unlocks m.
func (m *Mutex) Unlock() {
	m.mu.Lock()
	if !m.locked {
		m.mu.Unlock()
		panic("sync: unlock of unlocked mutex")
	}
	m.locked = false
	ws := m.waiters
	m.waiters = nil
	m.mu.Unlock()
	for _, ch := range ws {
		close(ch)
	}
}

// RWMutex mirrors sync.RWMutex.
type RWMutex struct {
	mu       sync.Mutex
	writer   bool
	readers  int
	pendingW int // Lock calls that wait for the readers to drain
	waiters  []chan struct{}
}

func (m *RWMutex) wait() {
	ch := make(chan struct{})
	m.waiters = append(m.waiters, ch)
	m.mu.Unlock()
	<-ch
}

func (m *RWMutex) wake() {
	ws := m.waiters
	m.waiters = nil
	m.mu.Unlock()
	for _, ch := range ws {
		close(ch)
	}
}

// Lock locks m for writing.
func (m *RWMutex) Lock() {
	pending := false
	for {
		m.mu.Lock()
		if !m.writer && m.readers == 0 {
			m.writer = true
			if pending {
				m.pendingW--
			}
			m.mu.Unlock()
			return
		}
		if !pending {
			pending = true
			m.pendingW++
		}
		m.wait()
	}
}

// TryLock mirrors (*sync.RWMutex).TryLock.
func (m *RWMutex) TryLock() bool {
	m.mu.Lock()
	defer m.mu.Unlock()
	if m.writer || m.readers > 0 {
		return false
	}
	m.writer = true
	return true
}

// Unlock unlocks m for writing.
func (m *RWMutex) Unlock() {
	m.mu.Lock()
	if !m.writer {
		m.mu.Unlock()
		panic("sync: Unlock of unlocked RWMutex")
	}
	m.writer = false
	m.wake()
}

// RLock locks m for reading.
func (m *RWMutex) RLock() {
	for {
		m.mu.Lock()
		if !m.writer && m.pendingW == 0 {
			m.readers++
			m.mu.Unlock()
			return
		}
		m.wait()
	}
}

// TryRLock mirrors (*sync.RWMutex).TryRLock.
func (m *RWMutex) TryRLock() bool {
	m.mu.Lock()
	defer m.mu.Unlock()
	if m.writer || m.pendingW > 0 {
		return false
	}
	m.readers++
	return true
}

// RUnlock undoes a single RLock call.
func (m *RWMutex) RUnlock() {
	m.mu.Lock()
	if m.readers <= 0 {
		m.mu.Unlock()
		panic("sync: RUnlock of unlocked RWMutex")
	}
	m.readers--
	if m.readers == 0 {
		m.wake()
		return
	}
	m.mu.Unlock()
}

// RLocker mirrors (*sync.RWMutex).RLocker.
func (m *RWMutex) RLocker() Locker { return rlocker{m} }

type rlocker struct{ m *RWMutex }

func (r rlocker) Lock()   { r.m.RLock() }
func (r rlocker) Unlock() { r.m.RUnlock() }
