// Package fullmesh builds meshes of real top-level router instances
// (mycoria.New with the tun interface disabled: state, peering with the shipped
// TCP protocol, link readers and writers, switch, router and all their
// workers) on a simulated loopback interface. Nothing between two routers is a
// stub except the byte transport: peering/ must be compiled against simtcp.
package fullmesh

import (
	"fmt"
	"net"
	"net/netip"
	"sync"
	"time"

	"github.com/fxamacker/cbor/v2"
	mycoria "github.com/mycoria/mycoria"
	"github.com/mycoria/mycoria/config"
	"github.com/mycoria/mycoria/frame"
	"github.com/mycoria/mycoria/mgr"
	"github.com/mycoria/mycoria/router"

	"mycoverif/core"
	"mycoverif/ident"
	"mycoverif/node"
	"mycoverif/simnet"
	"mycoverif/simtcp"
)

// ProbeType is the ping type of the harness probe handler.
const ProbeType = "verifprobe"

// Inst is one running router.
type Inst struct {
	I      int
	Name   string
	In     *mycoria.Instance
	IP     netip.Addr
	Alerts *mgr.AlertMgr
	Up     bool
	Store  config.Store
	// StartedAt is the simulated instant of the last Start(): the phase of every ticker of
	// the instance (cleaners once a minute, announcements every five minutes, ...).
	StartedAt time.Time
}

// ProbeEvent is one probe ping handed to a router's handler.
type ProbeEvent struct {
	At       int
	Src      netip.Addr
	FollowUp bool
	Payload  string
}

// Mesh is a set of real instances and the simulated loopback between them.
type Mesh struct {
	E     *core.Env
	CN    *simnet.ConnNet
	World *simtcp.World
	Insts []*Inst
	Edges [][2]int // [from (dialer), to (listener)]
	Adj   [][]int
	Kind  string
	ByIP  map[netip.Addr]int

	mu     sync.Mutex
	probes []ProbeEvent
}

// Options bound the generated mesh.
type Options struct {
	MinNodes, MaxNodes int
	IdentBase          int
	// StateDir, if set, gives every router a JSON state file <StateDir>/r<i>.json (the storage
	// package must then be compiled against the simulated disk).
	StateDir string
}

func topology(tp *core.Tape, n int) (kind string, edges [][2]int) {
	kinds := []string{"line", "ring", "star", "tree", "chord"}
	kind = kinds[tp.Intn(len(kinds))]
	switch kind {
	case "line", "ring", "chord":
		for i := 1; i < n; i++ {
			edges = append(edges, [2]int{i - 1, i})
		}
		if kind == "ring" && n >= 3 {
			edges = append(edges, [2]int{n - 1, 0})
		}
		if kind == "chord" && n >= 4 {
			a := tp.Intn(n - 2)
			b := a + 2 + tp.Intn(n-a-2)
			edges = append(edges, [2]int{a, b})
		}
	case "star":
		for i := 1; i < n; i++ {
			edges = append(edges, [2]int{0, i})
		}
	case "tree":
		for i := 1; i < n; i++ {
			edges = append(edges, [2]int{tp.Intn(i), i})
		}
	}
	// who dials whom
	for i := range edges {
		if tp.Chance(1, 2) {
			edges[i][0], edges[i][1] = edges[i][1], edges[i][0]
		}
	}
	return kind, edges
}

// Build generates configurations, constructs and starts the instances. It does
// not wait for them to peer.
func Build(e *core.Env, o Options) *Mesh {
	tp := e.Tape
	node.CaptureStderr()
	cn := simnet.NewConnNet(e)
	w := &simtcp.World{DialLatency: time.Duration(2+tp.Intn(59)) * time.Millisecond,
		NewPair: func(name string) (net.Conn, net.Conn) { p := cn.NewPair(name); return p.A, p.B }}
	simtcp.Install(w)
	e.Cleanup(func() { simtcp.Install(nil) })
	n := o.MinNodes + tp.Intn(o.MaxNodes-o.MinNodes+1)
	ms := &Mesh{E: e, CN: cn, World: w, ByIP: map[netip.Addr]int{}}
	ms.Kind, ms.Edges = topology(tp, n)
	ms.Adj = make([][]int, n)
	for _, ed := range ms.Edges {
		ms.Adj[ed[0]] = append(ms.Adj[ed[0]], ed[1])
		ms.Adj[ed[1]] = append(ms.Adj[ed[1]], ed[0])
	}
	universe := []string{"", "uni-f"}[tp.Intn(2)]
	secret := ""
	if tp.Chance(1, 3) {
		secret = "meshsecret"
	}
	stores := make([]config.Store, n)
	for i := range stores {
		id := ident.Get(ident.Routable, o.IdentBase+i)
		st := config.Store{}
		st.Router.Address = id.Store()
		st.Router.Universe = universe
		st.Router.UniverseSecret = secret
		st.System.DisableTun = true
		st.System.DisableChromiumWorkaround = true
		host := []string{"127.0.0.1", "[::1]", "localhost"}[tp.Intn(3)]
		st.Router.Listen = []string{fmt.Sprintf("tcp://%s:%d", host, 2000+i*100+tp.Intn(90))}
		stores[i] = st
	}
	for _, ed := range ms.Edges {
		stores[ed[0]].Router.Connect = append(stores[ed[0]].Router.Connect, stores[ed[1]].Router.Listen[0])
	}
	e.Cleanup(ms.StopAll)
	for i := 0; i < n; i++ {
		if o.StateDir != "" {
			stores[i].System.StatePath = fmt.Sprintf("%s/r%d.json", o.StateDir, i)
		}
		ms.Insts = append(ms.Insts, &Inst{I: i, Name: fmt.Sprintf("r%d", i), Store: stores[i]})
		if err := ms.Construct(i); err != nil {
			e.Infra("fullmesh: %v", err)
		}
		ms.ByIP[ms.Insts[i].IP] = i
	}
	for _, i := range tp.Perm(n) {
		x := ms.Insts[i]
		x.StartedAt = time.Now()
		if err := x.In.Start(); err != nil {
			e.Infra("fullmesh: Start: %v", err)
		}
		x.Up = true
		time.Sleep(time.Duration(1+tp.Intn(300)) * time.Millisecond)
		cn.RunFor(tp, time.Duration(tp.Intn(1500))*time.Millisecond, 5000)
	}
	return ms
}

// Construct builds (again) the instance of router i from its configuration: what a start of the
// process does. The previous instance object, if any, is dropped. It does not start it.
func (ms *Mesh) Construct(i int) error {
	x := ms.Insts[i]
	cfg, err := x.Store.Parse()
	if err != nil {
		return fmt.Errorf("configuration refused: %w", err)
	}
	in, err := mycoria.New("fullmesh", cfg)
	if err != nil {
		return fmt.Errorf("New: %w", err)
	}
	x.In, x.IP, x.Alerts, x.Up = in, in.Identity().IP, mgr.NewAlertMgr(nil), false
	for _, mm := range []*mgr.Manager{in.State().Manager(), in.Peering().Manager(), in.Switch().Manager(), in.Router().Manager()} {
		mm.SetWorkerErrorMgr(x.Alerts)
	}
	if err := in.Router().RegisterPingHandler(&probeHandler{ms: ms, at: i}); err != nil {
		return fmt.Errorf("register probe handler: %w", err)
	}
	return nil
}

// StopAll stops every running instance and closes all connections.
func (ms *Mesh) StopAll() {
	for _, x := range ms.Insts {
		if x.Up {
			x.In.Stop()
			x.Up = false
		}
	}
	ms.CN.CloseAll()
}

// Linked reports whether both ends of edge k have a registered link to each other.
func (ms *Mesh) Linked(k int) bool {
	a, b := ms.Insts[ms.Edges[k][0]], ms.Insts[ms.Edges[k][1]]
	return a.In.Peering().GetLink(b.IP) != nil && b.In.Peering().GetLink(a.IP) != nil
}

// AllLinked reports whether every edge is up at both ends.
func (ms *Mesh) AllLinked() bool {
	for k := range ms.Edges {
		if !ms.Linked(k) {
			return false
		}
	}
	return true
}

// CheckPanics fails the run if any worker of any instance panicked.
func (ms *Mesh) CheckPanics(where string) {
	for _, x := range ms.Insts {
		for _, a := range x.Alerts.Export().Alerts {
			if len(a.ID) >= 12 && a.ID[:12] == "worker-panic" {
				st := node.PanicStacks(node.NewStderr())
				cls := "unknown"
				if len(st) > 0 {
					cls = core.PanicClass(st[0])
				}
				ms.E.Fail("worker-panic:"+cls, "full-stack mesh, instance %s: %s (%s)", x.Name, a.Message, where)
			}
		}
	}
}

// TakeProbes returns and clears the recorded probe events.
func (ms *Mesh) TakeProbes() []ProbeEvent {
	ms.mu.Lock()
	defer ms.mu.Unlock()
	out := ms.probes
	ms.probes = nil
	return out
}

type probeHandler struct {
	ms *Mesh
	at int
}

func (h *probeHandler) Type() string                 { return ProbeType }
func (h *probeHandler) Clean(w *mgr.WorkerCtx) error { return nil }
func (h *probeHandler) Handle(w *mgr.WorkerCtx, f frame.Frame, hdr *router.PingHeader, data []byte) error {
	h.ms.mu.Lock()
	h.ms.probes = append(h.ms.probes, ProbeEvent{At: h.at, Src: f.SrcIP(), FollowUp: hdr.FollowUp, Payload: string(data)})
	h.ms.mu.Unlock()
	return nil
}

var probeSeq uint64

// SendProbe lets router from originate a routed probe ping to router to, the way the shipped
// sendPingMsg builds and seals pings, and hands it to the shipped RouteFrame.
func (ms *Mesh) SendProbe(from, to int, payload string) error {
	a, b := ms.Insts[from], ms.Insts[to]
	id := a.In.Identity()
	probeSeq++
	hdr := router.PingHeader{PingID: 0x2000 + probeSeq, PingType: ProbeType, AddrHash: id.Hash, KeyType: id.Type, PublicKey: id.PublicKey}
	hd, err := cbor.Marshal(&hdr)
	if err != nil {
		return err
	}
	body := make([]byte, 2+len(hd)+len(payload))
	body[0] = 1
	body[1] = uint8(len(hd))
	copy(body[2:], hd)
	copy(body[2+len(hd):], payload)
	f, err := a.In.FrameBuilder().NewFrameV1(a.IP, b.IP, frame.RouterPing, nil, body, nil)
	if err != nil {
		return err
	}
	if sess := a.In.State().GetSession(b.IP); sess != nil {
		if err := f.Seal(sess); err != nil {
			f.ReturnToPool()
			return err
		}
	} else {
		f.SetTTL(0)
		f.SetSequenceTime(time.Now().Round(time.Millisecond).Add(-time.Millisecond))
		if err := f.SignRaw(id.PrivateKey); err != nil {
			f.ReturnToPool()
			return err
		}
		f.SetTTL(32)
	}
	if err := a.In.Router().RouteFrame(f); err != nil {
		f.ReturnToPool()
		return err
	}
	return nil
}

// WaitLinked runs the network until every edge is up at both ends, for at most max*10 s.
func (ms *Mesh) WaitLinked(max int) bool {
	for k := 0; k < max && !ms.AllLinked(); k++ {
		ms.CN.RunFor(ms.E.Tape, 10*time.Second, 40000)
	}
	return ms.AllLinked()
}

// Converge lets the shipped connect managers bring all links up, then runs one full
// announcement round (5 min) and drains. It reports false if the mesh did not come up or lost a
// link on the way (no fault is injected here).
func (ms *Mesh) Converge() bool {
	if !ms.WaitLinked(14) {
		return false
	}
	ms.CN.RunFor(ms.E.Tape, 5*time.Minute+10*time.Second, 400000)
	ms.CN.DrainFIFO(ms.E.Tape, 20000)
	return ms.AllLinked()
}
