// Command mkoverlay generates a `go build -overlay` file that replaces import
// paths in selected packages of /repo, reading the sources from /repo's
// current working tree. Only import lines change; all logic compiles as is.
//
// usage: mkoverlay -out overlay.json -dir scratchdir  pkgdir:old=new[,old=new] ...
package main

import (
	"encoding/json"
	"flag"
	"fmt"
	"go/ast"
	"go/parser"
	"go/printer"
	"go/token"
	"os"
	"path"
	"path/filepath"
	"strconv"
	"strings"
)

func main() {
	out := flag.String("out", "", "overlay json to write")
	dir := flag.String("dir", "", "directory for rewritten files")
	repo := flag.String("repo", "/repo", "repository root")
	flag.Parse()
	if *out == "" || *dir == "" {
		fmt.Fprintln(os.Stderr, "need -out and -dir")
		os.Exit(2)
	}
	replace := map[string]string{}
	_ = os.RemoveAll(*dir)
	for _, spec := range flag.Args() {
		pkgdir, rules, ok := strings.Cut(spec, ":")
		if !ok {
			fmt.Fprintln(os.Stderr, "bad spec", spec)
			os.Exit(2)
		}
		m := map[string]string{}
		for _, r := range strings.Split(rules, ",") {
			o, n, ok := strings.Cut(r, "=")
			if !ok {
				fmt.Fprintln(os.Stderr, "bad rule", r)
				os.Exit(2)
			}
			m[o] = n
		}
		src := filepath.Join(*repo, pkgdir)
		ents, err := os.ReadDir(src)
		if err != nil {
			fmt.Fprintln(os.Stderr, err)
			os.Exit(2)
		}
		dst := filepath.Join(*dir, pkgdir)
		if err := os.MkdirAll(dst, 0o755); err != nil {
			fmt.Fprintln(os.Stderr, err)
			os.Exit(2)
		}
		for _, ent := range ents {
			name := ent.Name()
			if ent.IsDir() || !strings.HasSuffix(name, ".go") || strings.HasSuffix(name, "_test.go") {
				continue
			}
			fset := token.NewFileSet()
			file := filepath.Join(src, name)
			f, err := parser.ParseFile(fset, file, nil, parser.ParseComments)
			if err != nil {
				fmt.Fprintln(os.Stderr, err)
				os.Exit(2)
			}
			changed := false
			for _, imp := range f.Imports {
				p, _ := strconv.Unquote(imp.Path.Value)
				if n, ok := m[p]; ok {
					if imp.Name == nil {
						imp.Name = ast.NewIdent(path.Base(p))
					}
					imp.Path.Value = strconv.Quote(n)
					changed = true
				}
			}
			if !changed {
				continue
			}
			outFile := filepath.Join(dst, name)
			w, err := os.Create(outFile)
			if err != nil {
				fmt.Fprintln(os.Stderr, err)
				os.Exit(2)
			}
			if err := printer.Fprint(w, fset, f); err != nil {
				fmt.Fprintln(os.Stderr, err)
				os.Exit(2)
			}
			w.Close()
			replace[file] = outFile
		}
	}
	data, _ := json.MarshalIndent(map[string]any{"Replace": replace}, "", " ")
	if err := os.WriteFile(*out, data, 0o644); err != nil {
		fmt.Fprintln(os.Stderr, err)
		os.Exit(2)
	}
	fmt.Printf("overlay: %d files rewritten\n", len(replace))
}
