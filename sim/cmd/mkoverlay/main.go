// Command mkoverlay generates a `go build -overlay` file that replaces import
// paths in selected packages of /repo, reading the sources from /repo's
// current working tree. Only import lines change; all logic compiles as is.
//
// usage: mkoverlay -out overlay.json -dir scratchdir  pkgdir:old=new[,old=new] ...
package main

import (
	"encoding/json"
	"flag"
	"fmt"
	"go/ast"
	"go/parser"
	"go/printer"
	"go/token"
	"os"
	"path"
	"path/filepath"
	"strconv"
	"strings"
)

func main() {
	out := flag.String("out", "", "overlay json to write")
	dir := flag.String("dir", "", "directory for rewritten files")
	repo := flag.String("repo", "/repo", "repository root")
	flag.Parse()
	if *out == "" || *dir == "" {
		fmt.Fprintln(os.Stderr, "need -out and -dir")
		os.Exit(2)
	}
	replace := map[string]string{}
	_ = os.RemoveAll(*dir)
	// Rules per package directory. The directory "*" stands for every package of the
	// repository except cmd/, mgr and dashboard (process wiring, logging to the real stderr,
	// HTTP templates): a seam that must hold wherever the code under test is moved to.
	dirRules := map[string]map[string]string{}
	var order []string
	addRule := func(d, o, n string) {
		if dirRules[d] == nil {
			dirRules[d] = map[string]string{}
			order = append(order, d)
		}
		dirRules[d][o] = n
	}
	for _, spec := range flag.Args() {
		pkgdir, rules, ok := strings.Cut(spec, ":")
		if !ok {
			fmt.Fprintln(os.Stderr, "bad spec", spec)
			os.Exit(2)
		}
		var dirs []string
		if pkgdir == "*" {
			_ = filepath.WalkDir(*repo, func(p string, d os.DirEntry, err error) error {
				if err != nil || !d.IsDir() {
					return nil
				}
				rel, _ := filepath.Rel(*repo, p)
				if strings.HasPrefix(d.Name(), ".") && rel != "." {
					return filepath.SkipDir
				}
				if rel == "cmd" || rel == "mgr" || rel == "dashboard" {
					return filepath.SkipDir
				}
				dirs = append(dirs, rel)
				return nil
			})
		} else {
			dirs = []string{pkgdir}
		}
		for _, r := range strings.Split(rules, ",") {
			o, n, ok := strings.Cut(r, "=")
			if !ok {
				fmt.Fprintln(os.Stderr, "bad rule", r)
				os.Exit(2)
			}
			for _, d := range dirs {
				addRule(d, o, n)
			}
		}
	}
	for _, pkgdir := range order {
		m := dirRules[pkgdir]
		src := filepath.Join(*repo, pkgdir)
		ents, err := os.ReadDir(src)
		if err != nil {
			fmt.Fprintln(os.Stderr, err)
			os.Exit(2)
		}
		dst := filepath.Join(*dir, pkgdir)
		if err := os.MkdirAll(dst, 0o755); err != nil {
			fmt.Fprintln(os.Stderr, err)
			os.Exit(2)
		}
		for _, ent := range ents {
			name := ent.Name()
			if ent.IsDir() || !strings.HasSuffix(name, ".go") || strings.HasSuffix(name, "_test.go") {
				continue
			}
			fset := token.NewFileSet()
			file := filepath.Join(src, name)
			f, err := parser.ParseFile(fset, file, nil, parser.ParseComments)
			if err != nil {
				fmt.Fprintln(os.Stderr, err)
				os.Exit(2)
			}
			changed := false
			for _, imp := range f.Imports {
				p, _ := strconv.Unquote(imp.Path.Value)
				if n, ok := m[p]; ok {
					if imp.Name == nil {
						imp.Name = ast.NewIdent(path.Base(p))
					}
					imp.Path.Value = strconv.Quote(n)
					changed = true
				}
			}
			if !changed {
				continue
			}
			outFile := filepath.Join(dst, name)
			w, err := os.Create(outFile)
			if err != nil {
				fmt.Fprintln(os.Stderr, err)
				os.Exit(2)
			}
			if err := printer.Fprint(w, fset, f); err != nil {
				fmt.Fprintln(os.Stderr, err)
				os.Exit(2)
			}
			w.Close()
			replace[file] = outFile
		}
	}
	data, _ := json.MarshalIndent(map[string]any{"Replace": replace}, "", " ")
	if err := os.WriteFile(*out, data, 0o644); err != nil {
		fmt.Fprintln(os.Stderr, err)
		os.Exit(2)
	}
	fmt.Printf("overlay: %d files rewritten\n", len(replace))
}
