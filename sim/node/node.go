// Package node assembles a simulated router from the real constructors of
// /repo (state, router, switch, peering) behind a harness-defined instance.
// Stubs: tun device (struct literal with the exported channels), netstack,
// HTTP API, dashboard, DNS (absent).
package node

import (
	"fmt"
	"net/netip"
	"os"
	"strings"
	"sync"
	"time"

	"github.com/mycoria/mycoria/api/httpapi"
	"github.com/mycoria/mycoria/api/netstack"
	"github.com/mycoria/mycoria/config"
	"github.com/mycoria/mycoria/frame"
	"github.com/mycoria/mycoria/m"
	"github.com/mycoria/mycoria/mgr"
	"github.com/mycoria/mycoria/peering"
	"github.com/mycoria/mycoria/router"
	"github.com/mycoria/mycoria/state"
	"github.com/mycoria/mycoria/storage"
	"github.com/mycoria/mycoria/switchr"
	"github.com/mycoria/mycoria/tun"
)

// Inst is the harness instance; it satisfies every module's instance subset.
type Inst struct {
	Ver     string
	Cfg     *config.Config
	ID      *m.Address
	Builder *frame.Builder

	St  *state.State
	Tun *tun.Device
	Pr  *peering.Peering
	Sw  *switchr.Switch
	Rt  *router.Router
	Tbl *m.RoutingTable // used when there is no router
}

func (i *Inst) Version() string              { return i.Ver }
func (i *Inst) Config() *config.Config       { return i.Cfg }
func (i *Inst) Identity() *m.Address         { return i.ID }
func (i *Inst) FrameBuilder() *frame.Builder { return i.Builder }
func (i *Inst) State() *state.State          { return i.St }
func (i *Inst) TunDevice() *tun.Device       { return i.Tun }
func (i *Inst) NetStack() *netstack.NetStack { return nil }
func (i *Inst) API() *httpapi.API            { return nil }
func (i *Inst) Peering() *peering.Peering    { return i.Pr }
func (i *Inst) Switch() *switchr.Switch      { return i.Sw }
func (i *Inst) Router() *router.Router       { return i.Rt }
func (i *Inst) RoutingTable() *m.RoutingTable {
	if i.Rt != nil {
		return i.Rt.Table()
	}
	return i.Tbl
}

// peeringView is what the peering module sees: identical, except that the tun
// device is absent (its only use there is CheckWorkarounds, which is nil-safe
// and would otherwise touch the operating system).
type peeringView struct{ *Inst }

func (v peeringView) TunDevice() *tun.Device { return nil }

// Options configure a node.
type Options struct {
	// Tun adds a stub tun device (exported channels only) and enables traffic.
	Tun bool
	// Storage overrides the in-memory storage.
	Storage storage.Storage
	// Version string reported to peers.
	Version string
	// Upstream, if set, receives the frames the link readers hand up, instead
	// of the switch (byte-level link checks observe delivery there).
	Upstream chan frame.Frame
	// LinkOnly starts only state and peering (no switch and router workers):
	// used by byte-level link checks whose harness is the upper layer.
	LinkOnly bool
}

// Node is one simulated router.
type Node struct {
	Name string
	Inst *Inst
	ID   *m.Address
	IP   netip.Addr

	Storage storage.Storage
	State   *state.State
	Router  *router.Router
	Switch  *switchr.Switch
	Peering *peering.Peering
	Tun     *tun.Device
	Alerts  *mgr.AlertMgr

	started  bool
	linkOnly bool
}

// BaseStore returns a config store for the identity.
func BaseStore(id *m.Address) config.Store {
	return config.Store{
		Router: config.Router{Address: id.Store()},
		System: config.System{DisableTun: true, DisableChromiumWorkaround: true},
	}
}

// New builds a node (not started).
func New(name string, id *m.Address, store config.Store, opts Options) (*Node, error) {
	CaptureStderr()
	store.System.DisableTun = !opts.Tun
	store.System.DisableChromiumWorkaround = true
	cfg, err := parseConfig(store)
	if err != nil {
		return nil, err
	}
	inst := &Inst{Ver: opts.Version, Cfg: cfg, ID: id}
	if inst.Ver == "" {
		inst.Ver = "sim"
	}
	inst.Builder = frame.NewFrameBuilder()
	inst.Builder.SetFrameMargins(peering.FrameOffset, peering.FrameOverhead)

	n := &Node{Name: name, Inst: inst, ID: id, IP: id.IP, linkOnly: opts.LinkOnly}
	n.Storage = opts.Storage
	if n.Storage == nil {
		n.Storage = storage.NewMemStorage()
	}
	n.State = state.New(inst, n.Storage)
	inst.St = n.State
	if opts.Tun {
		n.Tun = &tun.Device{
			RecvRaw:   make(chan []byte, 1000),
			SendRaw:   make(chan []byte, 1000),
			SendFrame: make(chan frame.Frame, 1000),
		}
		inst.Tun = n.Tun
	}
	n.Router, err = router.New(inst, router.Config{})
	if err != nil {
		return nil, fmt.Errorf("router.New: %w", err)
	}
	inst.Rt = n.Router
	n.Switch = switchr.New(inst, n.Router.Input())
	inst.Sw = n.Switch
	up := n.Switch.Input()
	if opts.Upstream != nil {
		up = opts.Upstream
	}
	n.Peering = peering.New(peeringView{inst}, up)
	inst.Pr = n.Peering

	n.Alerts = mgr.NewAlertMgr(nil)
	for _, mm := range []*mgr.Manager{n.State.Manager(), n.Router.Manager(), n.Switch.Manager(), n.Peering.Manager()} {
		mm.SetWorkerErrorMgr(n.Alerts)
	}
	return n, nil
}

func parseConfig(store config.Store) (cfg *config.Config, err error) {
	defer func() {
		if r := recover(); r != nil {
			err = fmt.Errorf("config: %v", r)
		}
	}()
	return config.MakeTestConfig(store), nil
}

// Start starts the modules in the shipped order (state, peering, switch, router).
func (n *Node) Start() error {
	if n.started {
		return nil
	}
	n.started = true
	if err := n.State.Start(); err != nil {
		return err
	}
	if err := n.Peering.Start(); err != nil {
		return err
	}
	if n.linkOnly {
		return nil
	}
	if err := n.Switch.Start(); err != nil {
		return err
	}
	return n.Router.Start()
}

// Kill stops every worker of the node without any goodbye traffic (crash).
// It returns false if workers did not stop.
func (n *Node) Kill() bool {
	ok := true
	for _, mm := range []*mgr.Manager{n.Router.Manager(), n.Switch.Manager(), n.Peering.Manager(), n.State.Manager()} {
		mm.Cancel()
	}
	for _, l := range n.Peering.GetLinks() {
		l.Close(nil)
	}
	for _, mm := range []*mgr.Manager{n.Router.Manager(), n.Switch.Manager(), n.Peering.Manager(), n.State.Manager()} {
		if !mm.WaitForWorkers(2 * time.Minute) {
			ok = false
		}
	}
	return ok
}

// PanicAlerts returns the worker-panic alerts raised so far on this node.
func (n *Node) PanicAlerts() []*mgr.Alert {
	var out []*mgr.Alert
	for _, a := range n.Alerts.Export().Alerts {
		if strings.HasPrefix(a.ID, "worker-panic") {
			out = append(out, a)
		}
	}
	return out
}

// ---- stderr capture (worker panics print their stack there) ----

var (
	stderrOnce sync.Once
	stderrFile *os.File
	stderrPos  int64
)

// CaptureStderr redirects os.Stderr of this process into a file so that the
// stacks printed by recovered worker panics can be classified.
func CaptureStderr() {
	stderrOnce.Do(func() {
		path := os.Getenv("VERIF_STDERR")
		if path == "" {
			path = fmt.Sprintf("%s/mycoverif-stderr-%d", os.TempDir(), os.Getpid())
		}
		f, err := os.OpenFile(path, os.O_CREATE|os.O_RDWR|os.O_TRUNC, 0o644)
		if err != nil {
			return
		}
		stderrFile = f
		os.Stderr = f
		if os.Getenv("VERIF_STDERR") == "" {
			_ = os.Remove(path) // keep it anonymous
		}
	})
}

// NewStderr returns what was written to stderr since the last call.
func NewStderr() string {
	if stderrFile == nil {
		return ""
	}
	st, err := stderrFile.Stat()
	if err != nil || st.Size() <= stderrPos {
		return ""
	}
	buf := make([]byte, st.Size()-stderrPos)
	n, _ := stderrFile.ReadAt(buf, stderrPos)
	stderrPos += int64(n)
	if stderrPos > 64<<20 {
		_ = stderrFile.Truncate(0)
		stderrPos = 0
	}
	return string(buf[:n])
}

// PanicStacks splits captured stderr into the panic reports printed by
// mgr.runWorker ("===== PANIC =====" ... "=====  END  =====").
func PanicStacks(s string) []string {
	var out []string
	for {
		i := strings.Index(s, "===== PANIC =====")
		if i < 0 {
			return out
		}
		s = s[i+len("===== PANIC ====="):]
		j := strings.Index(s, "=====  END  =====")
		if j < 0 {
			out = append(out, s)
			return out
		}
		out = append(out, s[:j])
		s = s[j:]
	}
}
