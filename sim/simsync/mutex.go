package simsync

import "sync"

// Yield is called (when set) before every lock operation of code compiled
// against simsync; the cooperative scheduler of C15 installs it.
var Yield func(op string)

// Mutex mirrors sync.Mutex with a scheduling point before Lock and after Unlock.
type Mutex struct {
	real sync.Mutex
	held bool
}

// Lock locks m. Under the cooperative scheduler only one task runs at a time;
// a task that finds the mutex held keeps yielding until it is free.
func (m *Mutex) Lock() {
	if y := Yield; y != nil {
		y("lock")
		for !m.real.TryLock() {
			y("blocked")
		}
		return
	}
	m.real.Lock()
}

// TryLock mirrors (*sync.Mutex).TryLock.
func (m *Mutex) TryLock() bool { return m.real.TryLock() }

// Unlock unlocks m.
func (m *Mutex) Unlock() {
	m.real.Unlock()
	if y := Yield; y != nil {
		y("unlock")
	}
}

// RWMutex mirrors sync.RWMutex.
type RWMutex struct {
	real sync.RWMutex
}

func (m *RWMutex) Lock() {
	if y := Yield; y != nil {
		y("lock")
		for !m.real.TryLock() {
			y("blocked")
		}
		return
	}
	m.real.Lock()
}
func (m *RWMutex) Unlock() {
	m.real.Unlock()
	if y := Yield; y != nil {
		y("unlock")
	}
}
func (m *RWMutex) RLock() {
	if y := Yield; y != nil {
		y("rlock")
		for !m.real.TryRLock() {
			y("blocked")
		}
		return
	}
	m.real.RLock()
}
func (m *RWMutex) RUnlock() {
	m.real.RUnlock()
	if y := Yield; y != nil {
		y("runlock")
	}
}
func (m *RWMutex) TryLock() bool   { return m.real.TryLock() }
func (m *RWMutex) TryRLock() bool  { return m.real.TryRLock() }
func (m *RWMutex) RLocker() Locker { return m.real.RLocker() }
