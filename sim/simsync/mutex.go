package simsync

import (
	"sync"
	"sync/atomic"
)

var held atomic.Int64

// Held returns how many simsync locks (read or write) are held right now,
// by anyone. A harness that wants to park a goroutine at a scheduling point
// does so only when this is zero, so that nobody can pile up behind it.
func Held() int { return int(held.Load()) }

// Yield is called (when set) before every lock operation of code compiled
// against simsync; the cooperative scheduler of C15 installs it.
var Yield func(op string)

// Blocking selects what a lock operation does after its scheduling point when a
// Yield hook is installed: false (cooperative task scheduler, C15: exactly one
// task runs, so a task that finds the mutex held must keep yielding) or true
// (real goroutines inside a synctest bubble, C16: the hook may hand the
// processor to another goroutine, then the real mutex is taken and blocks as
// usual).
var Blocking bool

// Mutex mirrors sync.Mutex with a scheduling point before Lock and after Unlock.
type Mutex struct {
	real sync.Mutex
	held bool
}

// Lock locks m. Under the cooperative scheduler only one task runs at a time;
// a task that finds the mutex held keeps yielding until it is free.
func (m *Mutex) Lock() {
	if y := Yield; y != nil {
		y("lock")
		if Blocking {
			m.real.Lock()
			held.Add(1)
			return
		}
		for !m.real.TryLock() {
			y("blocked")
		}
		held.Add(1)
		return
	}
	m.real.Lock()
	held.Add(1)
}

// TryLock mirrors (*sync.Mutex).TryLock.
func (m *Mutex) TryLock() bool {
	if m.real.TryLock() {
		held.Add(1)
		return true
	}
	return false
}

// Unlock unlocks m.
func (m *Mutex) Unlock() {
	held.Add(-1)
	m.real.Unlock()
	if y := Yield; y != nil {
		y("unlock")
	}
}

// RWMutex mirrors sync.RWMutex.
type RWMutex struct {
	real sync.RWMutex
	// Lock calls of cooperative tasks that wait for the lock. sync.RWMutex lets no new reader
	// in while a writer waits; the task scheduler takes locks with TryLock, which does not
	// announce itself, so the shim keeps that rule itself: it is what turns a recursive read
	// lock into a deadlock as soon as a writer arrives between the two RLock calls.
	pendingW atomic.Int32
}

func (m *RWMutex) Lock() {
	if y := Yield; y != nil {
		y("lock")
		if Blocking {
			m.real.Lock()
			held.Add(1)
			return
		}
		m.pendingW.Add(1)
		for !m.real.TryLock() {
			y("blocked")
		}
		m.pendingW.Add(-1)
		held.Add(1)
		return
	}
	m.real.Lock()
	held.Add(1)
}
func (m *RWMutex) Unlock() {
	held.Add(-1)
	m.real.Unlock()
	if y := Yield; y != nil {
		y("unlock")
	}
}
func (m *RWMutex) RLock() {
	if y := Yield; y != nil {
		y("rlock")
		if Blocking {
			m.real.RLock()
			held.Add(1)
			return
		}
		for m.pendingW.Load() > 0 || !m.real.TryRLock() {
			y("blocked")
		}
		held.Add(1)
		return
	}
	m.real.RLock()
	held.Add(1)
}
func (m *RWMutex) RUnlock() {
	held.Add(-1)
	m.real.RUnlock()
	if y := Yield; y != nil {
		y("runlock")
	}
}
func (m *RWMutex) TryLock() bool {
	if m.real.TryLock() {
		held.Add(1)
		return true
	}
	return false
}
func (m *RWMutex) TryRLock() bool {
	if m.real.TryRLock() {
		held.Add(1)
		return true
	}
	return false
}
func (m *RWMutex) RLocker() Locker { return rlocker{m} }

type rlocker struct{ m *RWMutex }

func (r rlocker) Lock()   { r.m.RLock() }
func (r rlocker) Unlock() { r.m.RUnlock() }
