package simsync

// Cooperative task scheduler: tasks are real goroutines, but exactly one runs
// at a time and every Lock/Unlock/atomic operation of code compiled against
// simsync/simatomic is a point where the running task parks and the scheduler
// picks the next one (from the tape). A task spinning on a held mutex reports
// "blocked" and is only chosen when no other task can run.

type task struct {
	id      int
	resume  chan struct{}
	done    bool
	blocked bool
	panicV  any
}

var current *task

// Stats of the last RunTasks call.
type SchedStats struct {
	Switches int
	Yields   int
	Deadlock bool
	Panics   []any
}

// RunTasks runs the functions as cooperative tasks until all have finished.
// choose(n, cur) returns the index of the task to run among n candidates; cur
// is the index of the task that ran last among them (-1 if it cannot run).
func RunTasks(choose func(n, cur int) int, fns []func()) SchedStats {
	var st SchedStats
	events := make(chan *task)
	tasks := make([]*task, len(fns))
	for i, fn := range fns {
		t := &task{id: i, resume: make(chan struct{})}
		tasks[i] = t
		go func() {
			<-t.resume
			defer func() {
				if r := recover(); r != nil {
					t.panicV = r
				}
				t.done = true
				current = nil
				events <- t
			}()
			fn()
		}()
	}
	idle := 0 // consecutive scheduling points at which the running task found its lock taken
	prevYield := Yield
	Yield = func(op string) {
		t := current
		if t == nil {
			return
		}
		t.blocked = op == "blocked"
		if t.blocked {
			idle++
		} else {
			idle = 0
		}
		if op == "unlock" || op == "runlock" {
			// Somebody released a lock: spinning tasks may try again.
			for _, o := range tasks {
				o.blocked = false
			}
		}
		st.Yields++
		current = nil
		events <- t
		<-t.resume
	}
	defer func() { Yield = prevYield }()
	last := -1
	for {
		var ready, spinning []*task
		for _, t := range tasks {
			if t.done {
				continue
			}
			if t.blocked {
				spinning = append(spinning, t)
			} else {
				ready = append(ready, t)
			}
		}
		cands := ready
		if len(cands) == 0 {
			cands = spinning
		}
		if len(cands) == 0 {
			break
		}
		if len(ready) == 0 && len(spinning) > 0 {
			// Everybody spins on a mutex: if a full round makes no progress
			// this is a deadlock.
			// Nobody else can run or release anything: once each of them has retried several
			// times in a row without any lock operation succeeding, nothing will ever change.
			if idle > 8*len(spinning)+16 {
				st.Deadlock = true
				break
			}
		}
		cur := -1
		for i, c := range cands {
			if c.id == last {
				cur = i
			}
		}
		t := cands[choose(len(cands), cur)]
		if t.id != last {
			st.Switches++
			last = t.id
		}
		t.blocked = false
		current = t
		t.resume <- struct{}{}
		<-events
	}
	for _, t := range tasks {
		if t.panicV != nil {
			st.Panics = append(st.Panics, t.panicV)
		}
	}
	return st
}
