// Package simsync stands in for package sync where the simulator needs to own
// a source of nondeterminism: Pool hand-out order (C17) and, through the
// cooperative scheduler, lock acquisition order (C15). It is linked into
// packages of /repo through an import-path overlay. Outside an active
// simulation every type behaves like its real counterpart.
package simsync

import "sync"

// Re-exports so that rewritten packages keep compiling.
type (
	WaitGroup = sync.WaitGroup
	Once      = sync.Once
	Cond      = sync.Cond
	Map       = sync.Map
	Locker    = sync.Locker
)

// NewCond mirrors sync.NewCond.
func NewCond(l Locker) *Cond { return sync.NewCond(l) }

// PoolControl lets a check decide what a Pool hands out.
type PoolControl struct {
	// Choose returns the index of the free item to hand out (0..n-1), or -1 to
	// allocate a fresh one. n >= 1.
	Choose func(n int) int
	// OnPut is called after an item was put back; OnGet before it is handed out.
	OnPut func(x any)
	OnGet func(x any, recycled bool)
}

var control *PoolControl

// SetPoolControl installs (or with nil removes) the simulated pool behaviour.
func SetPoolControl(c *PoolControl) { control = c }

// Pool mirrors sync.Pool.
type Pool struct {
	New func() any

	real sync.Pool
	mu   sync.Mutex
	free []any
}

// Get mirrors (*sync.Pool).Get.
func (p *Pool) Get() any {
	c := control
	if c == nil {
		if x := p.real.Get(); x != nil {
			return x
		}
		if p.New != nil {
			return p.New()
		}
		return nil
	}
	p.mu.Lock()
	n := len(p.free)
	idx := -1
	if n > 0 {
		idx = c.Choose(n)
	}
	var x any
	if idx >= 0 && idx < n {
		x = p.free[idx]
		p.free = append(p.free[:idx], p.free[idx+1:]...)
	}
	p.mu.Unlock()
	if x != nil {
		if c.OnGet != nil {
			c.OnGet(x, true)
		}
		return x
	}
	if p.New != nil {
		x = p.New()
	}
	if c.OnGet != nil && x != nil {
		c.OnGet(x, false)
	}
	return x
}

// Put mirrors (*sync.Pool).Put.
func (p *Pool) Put(x any) {
	c := control
	if c == nil {
		p.real.Put(x)
		return
	}
	if x == nil {
		return
	}
	p.mu.Lock()
	p.free = append(p.free, x)
	p.mu.Unlock()
	if c.OnPut != nil {
		c.OnPut(x)
	}
}
