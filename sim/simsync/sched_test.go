package simsync

import (
	"math/rand"
	"testing"
)

func TestSched(t *testing.T) {
	var mu Mutex
	n := 0
	var fns []func()
	for i := 0; i < 4; i++ {
		fns = append(fns, func() {
			for k := 0; k < 100; k++ {
				mu.Lock()
				n++
				mu.Unlock()
			}
		})
	}
	r := rand.New(rand.NewSource(1))
	st := RunTasks(func(n, cur int) int {
		if cur >= 0 && r.Intn(2) == 0 {
			return cur
		}
		return r.Intn(n)
	}, fns)
	t.Logf("%+v n=%d", st, n)
}
