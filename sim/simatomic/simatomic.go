// Package simatomic stands in for sync/atomic inside packages compiled
// against the cooperative scheduler: every operation is a scheduling point.
// Outside a scheduler run the types behave exactly like sync/atomic's.
package simatomic

import (
	"sync/atomic"

	"mycoverif/simsync"
)

func yield(op string) {
	if y := simsync.Yield; y != nil {
		y(op)
	}
}

// Uint32 mirrors atomic.Uint32.
type Uint32 struct{ v atomic.Uint32 }

func (x *Uint32) Load() uint32            { yield("atomic"); return x.v.Load() }
func (x *Uint32) Store(val uint32)        { yield("atomic"); x.v.Store(val) }
func (x *Uint32) Add(delta uint32) uint32 { yield("atomic"); return x.v.Add(delta) }
func (x *Uint32) Swap(n uint32) uint32    { yield("atomic"); return x.v.Swap(n) }
func (x *Uint32) CompareAndSwap(o, n uint32) bool {
	yield("atomic")
	return x.v.CompareAndSwap(o, n)
}

// Int32 mirrors atomic.Int32.
type Int32 struct{ v atomic.Int32 }

func (x *Int32) Load() int32           { yield("atomic"); return x.v.Load() }
func (x *Int32) Store(val int32)       { yield("atomic"); x.v.Store(val) }
func (x *Int32) Add(delta int32) int32 { yield("atomic"); return x.v.Add(delta) }
func (x *Int32) Swap(n int32) int32    { yield("atomic"); return x.v.Swap(n) }
func (x *Int32) CompareAndSwap(o, n int32) bool {
	yield("atomic")
	return x.v.CompareAndSwap(o, n)
}

// Uint64 mirrors atomic.Uint64.
type Uint64 struct{ v atomic.Uint64 }

func (x *Uint64) Load() uint64            { yield("atomic"); return x.v.Load() }
func (x *Uint64) Store(val uint64)        { yield("atomic"); x.v.Store(val) }
func (x *Uint64) Add(delta uint64) uint64 { yield("atomic"); return x.v.Add(delta) }
func (x *Uint64) Swap(n uint64) uint64    { yield("atomic"); return x.v.Swap(n) }
func (x *Uint64) CompareAndSwap(o, n uint64) bool {
	yield("atomic")
	return x.v.CompareAndSwap(o, n)
}

// Int64 mirrors atomic.Int64.
type Int64 struct{ v atomic.Int64 }

func (x *Int64) Load() int64           { yield("atomic"); return x.v.Load() }
func (x *Int64) Store(val int64)       { yield("atomic"); x.v.Store(val) }
func (x *Int64) Add(delta int64) int64 { yield("atomic"); return x.v.Add(delta) }
func (x *Int64) Swap(n int64) int64    { yield("atomic"); return x.v.Swap(n) }
func (x *Int64) CompareAndSwap(o, n int64) bool {
	yield("atomic")
	return x.v.CompareAndSwap(o, n)
}

// Bool mirrors atomic.Bool.
type Bool struct{ v atomic.Bool }

func (x *Bool) Load() bool       { yield("atomic"); return x.v.Load() }
func (x *Bool) Store(val bool)   { yield("atomic"); x.v.Store(val) }
func (x *Bool) Swap(n bool) bool { yield("atomic"); return x.v.Swap(n) }
func (x *Bool) CompareAndSwap(o, n bool) bool {
	yield("atomic")
	return x.v.CompareAndSwap(o, n)
}

// Pointer mirrors atomic.Pointer.
type Pointer[T any] struct{ v atomic.Pointer[T] }

func (x *Pointer[T]) Load() *T     { yield("atomic"); return x.v.Load() }
func (x *Pointer[T]) Store(val *T) { yield("atomic"); x.v.Store(val) }
func (x *Pointer[T]) Swap(n *T) *T { yield("atomic"); return x.v.Swap(n) }
func (x *Pointer[T]) CompareAndSwap(o, n *T) bool {
	yield("atomic")
	return x.v.CompareAndSwap(o, n)
}
