// Package simnet is the frame-level simulated network: a stub for
// peering.LinkBase (SimLink implements peering.Link) whose Send does what the
// shipped writeFrame does at the boundary (serialise, copy, return to pool)
// and whose delivery does what readFrame does (receiver's pooled slice, copy,
// ParseFrame, SetRecvLink, push into the real Switch input). Everything above
// the link is real code. Which in-flight frame moves next is decided by the
// harness (the tape), never by the Go scheduler.
package simnet

import (
	"fmt"
	"net"
	"net/netip"
	"sort"
	"sync"
	"sync/atomic"
	"testing/synctest"
	"time"

	"github.com/mycoria/mycoria/frame"
	"github.com/mycoria/mycoria/m"
	"github.com/mycoria/mycoria/peering"

	"mycoverif/core"
	"mycoverif/node"
)

// Packet is one frame in flight on a simulated link (or an EOF marker).
type Packet struct {
	ID   uint64 // global send order (diagnostic only)
	Conn int    // connection id
	Dir  int    // 0: a->b, 1: b->a
	Seq  uint64 // per direction sequence number
	From *Link
	To   *Link
	Data []byte
	Prio bool
	EOF  bool
	Tag  string // set by adversaries: "dup", "mutated", ...
	// NoDelay delivers without letting fake time pass (adversarial injections
	// whose effect is compared before/after must not race with timers).
	NoDelay bool
	SentT   time.Time
}

// Crossing is the record of one frame handed to a link by a router.
type Crossing struct {
	N    int
	From *node.Node
	To   *node.Node
	Conn int
	Data []byte
	At   time.Time
}

// Net is a set of nodes and simulated links.
type Net struct {
	E *core.Env

	mu        sync.Mutex
	Nodes     []*node.Node
	conns     int
	links     []*Link
	queue     []*Packet
	nextID    uint64
	Crossings []*Crossing
	// Record controls whether crossings keep a copy of the data.
	Record bool
	// OnSend is called (with the net lock held) for every frame a router sends.
	OnSend func(c *Crossing)
	// BeforeSend is called, with no lock held, on the goroutine of the router that hands a
	// frame to a link, before anything is done with the frame: the place for a fault that
	// lands in the middle of an operation of that router (a link going away while the router
	// walks over its links).
	BeforeSend func(l *Link, f frame.Frame)
	// AfterSend is called, with no lock held, on the goroutine of the router that has handed
	// a frame to a link, after the frame is on its way: the place to let time pass between two
	// steps of an operation of that router (between the frames of one announcement round).
	AfterSend func(l *Link, mt frame.MessageType, src netip.Addr)

	ParseErrors int
	Delivered   int
	// WriteErrors counts frames lost because they had no room for the link margins.
	WriteErrors int
	// Prompt makes RunFor pick up a frame in the simulated instant it was handed to a link
	// (zero latency unless the tape decides otherwise) instead of at its next 50 ms look.
	Prompt bool
	wakeCh chan struct{}
}

// New returns an empty network bound to a run.
func New(e *core.Env) *Net {
	return &Net{E: e, Record: true, wakeCh: make(chan struct{}, 1)}
}

// Link is one end of a simulated connection. It implements peering.Link.
type Link struct {
	net     *Net
	conn    int
	dir     int
	Local   *node.Node
	Remote  *node.Node
	Other   *Link
	label   m.SwitchLabel
	lite    bool
	latency atomic.Uint32
	url     *m.PeeringURL
	out     bool
	started time.Time

	closing  atomic.Bool
	sendSeq  uint64
	bytesIn  atomic.Uint64
	bytesOut atomic.Uint64

	// WireLatency is the fake time that passes before a delivery (>= 1us).
	WireLatency time.Duration
	// DropAll makes the link swallow everything (partition).
	DropAll atomic.Bool
}

var _ peering.Link = &Link{}

func (l *Link) String() string {
	return fmt.Sprintf("simlink#%d %s->%s", l.conn, l.Local.Name, l.Remote.Name)
}
func (l *Link) Peer() netip.Addr           { return l.Remote.IP }
func (l *Link) SwitchLabel() m.SwitchLabel { return l.label }
func (l *Link) GeoMark() string            { return "" }
func (l *Link) PeeringURL() *m.PeeringURL  { return l.url }
func (l *Link) Outgoing() bool             { return l.out }
func (l *Link) Lite() bool                 { return l.lite }
func (l *Link) LocalAddr() net.Addr        { return simAddr(fmt.Sprintf("sim:%d:%s", l.conn, l.Local.Name)) }
func (l *Link) RemoteAddr() net.Addr       { return simAddr(fmt.Sprintf("sim:%d:%s", l.conn, l.Remote.Name)) }
func (l *Link) Started() time.Time         { return l.started }
func (l *Link) Uptime() time.Duration      { return time.Since(l.started) }
func (l *Link) Latency() uint16            { return uint16(l.latency.Load()) }
func (l *Link) BytesIn() uint64            { return l.bytesIn.Load() }
func (l *Link) BytesOut() uint64           { return l.bytesOut.Load() }
func (l *Link) IsClosing() bool            { return l.closing.Load() }
func (l *Link) ConnID() int                { return l.conn }
func (l *Link) SetLatency(ms uint16)       { l.latency.Store(uint32(ms)) }
func (l *Link) FlowControlIndicator() frame.FlowControlFlag {
	return frame.FlowControlFlagIncreaseFlow
}

// AddMeasuredLatency records the measurement (stub: keeps the configured latency).
func (l *Link) AddMeasuredLatency(time.Duration) {}

type simAddr string

func (a simAddr) Network() string { return "sim" }
func (a simAddr) String() string  { return string(a) }

// SendPriority sends a priority frame to the peer.
func (l *Link) SendPriority(f frame.Frame) error { return l.send(f, true) }

// Send sends a frame to the peer.
func (l *Link) Send(f frame.Frame) error { return l.send(f, false) }

func (l *Link) send(f frame.Frame, prio bool) error {
	if h := l.net.BeforeSend; h != nil {
		h(l, f)
	}
	if h := l.net.AfterSend; h != nil {
		mt, src := f.MessageType(), f.SrcIP()
		err := l.send1(f, prio)
		h(l, mt, src)
		return err
	}
	return l.send1(f, prio)
}

func (l *Link) send1(f frame.Frame, prio bool) error {
	// What the shipped writer does at the boundary: take the frame including
	// the link-layer margins (the link header and MAC are written there), then
	// release it. A frame without room for the margins is lost, exactly as on a
	// real link (the writer logs a non-fatal error).
	full, err := f.FrameDataWithMargins(peering.FrameOffset, peering.FrameOverhead)
	if err != nil {
		f.ReturnToPool()
		l.net.mu.Lock()
		l.net.WriteErrors++
		l.net.mu.Unlock()
		return nil
	}
	cp := append([]byte(nil), full[peering.FrameOffset:len(full)-peering.FrameOverhead]...)
	f.ReturnToPool()
	if l.closing.Load() {
		return nil
	}
	l.bytesOut.Add(uint64(len(cp)))
	n := l.net
	n.mu.Lock()
	defer n.mu.Unlock()
	c := &Crossing{N: len(n.Crossings), From: l.Local, To: l.Remote, Conn: l.conn, At: time.Now()}
	if n.Record {
		c.Data = cp
	}
	n.Crossings = append(n.Crossings, c)
	if n.OnSend != nil {
		c2 := *c
		c2.Data = cp
		n.OnSend(&c2)
	}
	if l.DropAll.Load() {
		return nil
	}
	n.nextID++
	l.sendSeq++
	n.queue = append(n.queue, &Packet{
		ID: n.nextID, Conn: l.conn, Dir: l.dir, Seq: l.sendSeq,
		From: l, To: l.Other, Data: cp, Prio: prio, SentT: time.Now(),
	})
	if n.Prompt {
		select {
		case n.wakeCh <- struct{}{}:
		default:
		}
	}
	return nil
}

// Close closes this end; the other end learns about it through an EOF marker
// that travels like a frame.
func (l *Link) Close(log func()) {
	if l == nil {
		return
	}
	if l.closing.CompareAndSwap(false, true) {
		if log != nil {
			log()
		}
		l.Local.Peering.RemoveLink(l)
		n := l.net
		n.mu.Lock()
		n.nextID++
		l.sendSeq++
		n.queue = append(n.queue, &Packet{ID: n.nextID, Conn: l.conn, Dir: l.dir, Seq: l.sendSeq, From: l, To: l.Other, EOF: true})
		n.mu.Unlock()
	}
}

// ConnectOpts configure a simulated connection.
type ConnectOpts struct {
	LabelAtA, LabelAtB m.SwitchLabel
	LatencyMs          uint16
	LiteA, LiteB       bool // whether A (resp. B) runs in lite mode, as seen by the other end
	Wire               time.Duration
}

// Connect creates a connection between two nodes and registers both ends in
// the real peering managers (which adds the peer routes).
func (n *Net) Connect(a, b *node.Node, o ConnectOpts) (*Link, *Link, error) {
	if o.Wire < time.Microsecond {
		o.Wire = time.Microsecond
	}
	if o.LatencyMs == 0 {
		o.LatencyMs = 5
	}
	n.mu.Lock()
	id := n.conns
	n.conns++
	la := &Link{net: n, conn: id, dir: 0, Local: a, Remote: b, label: o.LabelAtA, lite: o.LiteB, out: true, started: time.Now(), WireLatency: o.Wire}
	lb := &Link{net: n, conn: id, dir: 1, Local: b, Remote: a, label: o.LabelAtB, lite: o.LiteA, out: false, started: time.Now(), WireLatency: o.Wire}
	la.Other, lb.Other = lb, la
	la.latency.Store(uint32(o.LatencyMs))
	lb.latency.Store(uint32(o.LatencyMs))
	n.links = append(n.links, la, lb)
	n.mu.Unlock()
	if err := a.Peering.AddLink(la); err != nil {
		return nil, nil, err
	}
	if err := b.Peering.AddLink(lb); err != nil {
		return nil, nil, err
	}
	return la, lb, nil
}

// Links returns all link ends.
func (n *Net) Links() []*Link { return n.links }

// Pending returns the in-flight packets in canonical order:
// (connection, direction, per-direction sequence).
func (n *Net) Pending() []*Packet {
	n.mu.Lock()
	defer n.mu.Unlock()
	out := append([]*Packet(nil), n.queue...)
	sort.SliceStable(out, func(i, j int) bool {
		a, b := out[i], out[j]
		if a.Conn != b.Conn {
			return a.Conn < b.Conn
		}
		if a.Dir != b.Dir {
			return a.Dir < b.Dir
		}
		if a.Seq != b.Seq {
			return a.Seq < b.Seq
		}
		return a.Tag < b.Tag
	})
	return out
}

// PendingCount returns the number of in-flight packets.
func (n *Net) PendingCount() int {
	n.mu.Lock()
	defer n.mu.Unlock()
	return len(n.queue)
}

// Remove takes a packet out of the network without delivering it (drop).
func (n *Net) Remove(p *Packet) {
	n.mu.Lock()
	defer n.mu.Unlock()
	for i, q := range n.queue {
		if q == p {
			n.queue = append(n.queue[:i], n.queue[i+1:]...)
			return
		}
	}
}

// Inject puts a harness-made packet into the network.
func (n *Net) Inject(p *Packet) {
	n.mu.Lock()
	defer n.mu.Unlock()
	n.nextID++
	p.ID = n.nextID
	n.queue = append(n.queue, p)
}

// Duplicate inserts a copy of p.
func (n *Net) Duplicate(p *Packet) *Packet {
	cp := *p
	cp.Data = append([]byte(nil), p.Data...)
	cp.Tag = p.Tag + "dup"
	n.Inject(&cp)
	return &cp
}

// Wait lets every goroutine of the system run until all are durably blocked.
func Wait() { wait() }

// Waiting is true while the harness goroutine sits in synctest.Wait, i.e.
// while only goroutines of the simulated system run.
var Waiting bool

func wait() {
	Waiting = true
	synctest.Wait()
	Waiting = false
}

// Deliver moves one packet to its destination router through the receiver's
// real frame parser and switch input, then waits for quiescence.
func (n *Net) Deliver(p *Packet) {
	n.Remove(p)
	n.DeliverRaw(p)
	wait()
}

// DeliverRaw is Deliver without removing from the queue and without waiting.
func (n *Net) DeliverRaw(p *Packet) {
	to := p.To
	wire := to.WireLatency
	if wire < time.Microsecond {
		wire = time.Microsecond
	}
	// Fake time: a delivery never takes zero time. It is kept in the
	// microsecond range because deliveries are serialised by the harness: a
	// drain of thousands of frames must not look like seconds of network
	// stall to the keep-alive and hello timeouts of the routers.
	if !p.NoDelay {
		time.Sleep(wire)
	}
	if p.EOF {
		to.Close(nil)
		return
	}
	if to.closing.Load() {
		return
	}
	to.bytesIn.Add(uint64(len(p.Data)))
	b := to.Local.Inst.Builder
	total := peering.FrameOffset + len(p.Data) + peering.FrameOverhead
	ps := b.GetPooledSlice(total)
	if len(ps) < total {
		n.ParseErrors++
		return
	}
	copy(ps[peering.FrameOffset:], p.Data)
	f, err := b.ParseFrame(ps[peering.FrameOffset:peering.FrameOffset+len(p.Data)], ps, peering.FrameOffset)
	if err != nil {
		b.ReturnPooledSlice(ps)
		n.ParseErrors++
		return
	}
	f.SetRecvLink(to)
	timer := time.NewTimer(30 * time.Second)
	defer timer.Stop()
	select {
	case to.Local.Switch.Input() <- f:
		n.Delivered++
	case <-timer.C:
		n.E.Infra("switch input of %s did not accept a frame for 30 fake seconds", to.Local.Name)
	}
}

// Choose lets the tape pick the next packet among the pending ones, biased to
// the canonically first ("boring") one.
func (n *Net) Choose(tp *core.Tape) *Packet {
	p := n.Pending()
	if len(p) == 0 {
		return nil
	}
	if len(p) > 1 {
		n.E.Nontrivial()
	}
	return p[tp.Intn(len(p))]
}

// Drain delivers until nothing is in flight, the tape picking the order.
// It returns the number of deliveries; maxSteps guards against blow-up.
func (n *Net) Drain(tp *core.Tape, maxSteps int) int {
	steps := 0
	for {
		p := n.Choose(tp)
		if p == nil {
			return steps
		}
		n.Deliver(p)
		n.E.Step()
		steps++
		if steps >= maxSteps {
			return steps
		}
	}
}

// Shutdown kills all nodes and discards in-flight traffic.
func (n *Net) Shutdown() {
	for _, nd := range n.Nodes {
		if !nd.Kill() {
			if n.E != nil {
				n.E.Logf("node %s: workers did not stop", nd.Name)
			}
		}
	}
	n.mu.Lock()
	n.queue = nil
	n.mu.Unlock()
}

// AddNode registers a node (for Shutdown) and starts it.
func (n *Net) AddNode(nd *node.Node) error {
	n.Nodes = append(n.Nodes, nd)
	return nd.Start()
}

// Heads returns, per connection direction, the oldest in-flight packet
// (links are FIFO per direction, like the TCP transport they stand in for),
// in canonical order.
func (n *Net) Heads() []*Packet {
	all := n.Pending()
	var out []*Packet
	for i, p := range all {
		if i == 0 || all[i-1].Conn != p.Conn || all[i-1].Dir != p.Dir {
			out = append(out, p)
		}
	}
	return out
}

// ChooseFIFO lets the tape pick which link direction delivers its oldest
// packet next.
func (n *Net) ChooseFIFO(tp *core.Tape) *Packet {
	h := n.Heads()
	if len(h) == 0 {
		return nil
	}
	if len(h) > 1 {
		n.E.Nontrivial()
	}
	return h[tp.Intn(len(h))]
}

// DrainFIFO delivers until nothing is in flight; the tape picks the link.
func (n *Net) DrainFIFO(tp *core.Tape, maxSteps int) int {
	steps := 0
	for {
		p := n.ChooseFIFO(tp)
		if p == nil {
			return steps
		}
		n.Deliver(p)
		n.E.Step()
		steps++
		if steps >= maxSteps {
			return steps
		}
	}
}

// RunFor lets fake time pass while the network keeps delivering: an honest
// network never sits on frames while the clock moves. The tape picks the link
// whenever frames are in flight; otherwise time advances in small steps.
func (n *Net) RunFor(tp *core.Tape, d time.Duration, maxSteps int) int {
	end := time.Now().Add(d)
	steps := 0
	for time.Now().Before(end) && steps < maxSteps {
		if p := n.ChooseFIFO(tp); p != nil {
			n.Deliver(p)
			n.E.Step()
			steps++
			continue
		}
		step := 50 * time.Millisecond
		if rem := time.Until(end); rem < step {
			step = rem
		}
		if n.Prompt {
			t := time.NewTimer(step)
			select {
			case <-n.wakeCh:
				t.Stop()
			case <-t.C:
			}
		} else {
			time.Sleep(step)
		}
		wait()
	}
	return steps
}
