package simnet

import (
	"errors"
	"fmt"
	"io"
	"net"
	"os"
	"sort"
	"sync"
	"time"

	"mycoverif/core"
)

// ---- byte level: SimConn (net.Conn) ----
//
// Each direction of a connection is a queue of written records (one Write call
// = one record; the shipped link writer emits exactly one length-prefixed link
// frame per write). Read blocks durably until the harness delivers. Everything
// above net.Conn - framing, handshake, link crypto, reader/writer workers - is
// the real peering code.

// Record is one written chunk in flight.
type Record struct {
	Conn *ConnPair
	Dir  int // 0: A->B, 1: B->A
	Seq  uint64
	Data []byte
	EOF  bool
	Tag  string
	At   time.Time
}

// ConnPair is a simulated connection.
type ConnPair struct {
	ID   int
	net  *ConnNet
	A, B *SimConn
	Name string
}

// SimConn is one end of a ConnPair.
type SimConn struct {
	pair *ConnPair
	dir  int // direction this end writes in
	peer *SimConn

	mu       sync.Mutex
	rx       []byte
	rxEOF    bool
	rxErr    error
	closed   bool
	writeErr error
	stall    chan struct{} // non-nil: writes block until it is closed
	notify   chan struct{}
	seq      uint64

	BytesWritten int
	BytesRead    int
}

// ConnNet holds all simulated connections of a run.
type ConnNet struct {
	E     *core.Env
	mu    sync.Mutex
	pairs []*ConnPair
	queue []*Record
	// Wire is the fake time a delivery takes (>= 1us).
	Wire time.Duration
	// Log of every record written (copy), for confidentiality checks.
	Written []*Record
	KeepLog bool
	// OnDeliver, if set, sees every record object the harness delivers
	// through Deliver / DeliverSplit (not raw DeliverBytes).
	OnDeliver func(*Record)
}

// NewConnNet returns an empty byte-level network.
func NewConnNet(e *core.Env) *ConnNet {
	n := &ConnNet{E: e, Wire: 20 * time.Microsecond}
	// Whatever happens in a run, no goroutine may stay blocked in a Read.
	e.Cleanup(n.CloseAll)
	return n
}

// CloseAll closes both ends of every connection.
func (n *ConnNet) CloseAll() {
	n.mu.Lock()
	pairs := append([]*ConnPair(nil), n.pairs...)
	n.mu.Unlock()
	for _, p := range pairs {
		_ = p.A.Close()
		_ = p.B.Close()
	}
}

// NewPair creates a connection; A is the dialing end.
func (n *ConnNet) NewPair(name string) *ConnPair {
	n.mu.Lock()
	defer n.mu.Unlock()
	p := &ConnPair{ID: len(n.pairs), net: n, Name: name}
	p.A = &SimConn{pair: p, dir: 0, notify: make(chan struct{}, 1)}
	p.B = &SimConn{pair: p, dir: 1, notify: make(chan struct{}, 1)}
	p.A.peer, p.B.peer = p.B, p.A
	n.pairs = append(n.pairs, p)
	return p
}

// Pairs returns all connections.
func (n *ConnNet) Pairs() []*ConnPair { return n.pairs }

type connAddr struct {
	id   int
	side string
}

func (a connAddr) Network() string { return "sim" }
func (a connAddr) String() string  { return fmt.Sprintf("sim:%d:%s", a.id, a.side) }

// ConnIDOf extracts the connection id from an address returned by a SimConn.
func ConnIDOf(a net.Addr) (id int, side string, ok bool) {
	if ca, isCA := a.(connAddr); isCA {
		return ca.id, ca.side, true
	}
	return 0, "", false
}

func (c *SimConn) side() string {
	if c.dir == 0 {
		return "a"
	}
	return "b"
}

// LocalAddr implements net.Conn.
func (c *SimConn) LocalAddr() net.Addr { return connAddr{c.pair.ID, c.side()} }

// RemoteAddr implements net.Conn.
func (c *SimConn) RemoteAddr() net.Addr { return connAddr{c.pair.ID, c.peer.side()} }

// SetDeadline implements net.Conn (deadlines are not used by the link code).
func (c *SimConn) SetDeadline(time.Time) error      { return nil }
func (c *SimConn) SetReadDeadline(time.Time) error  { return nil }
func (c *SimConn) SetWriteDeadline(time.Time) error { return nil }

// Read blocks (durably) until the harness has delivered data, EOF or an error.
func (c *SimConn) Read(p []byte) (int, error) {
	for {
		c.mu.Lock()
		switch {
		case c.closed:
			c.mu.Unlock()
			return 0, net.ErrClosed
		case len(c.rx) > 0:
			n := copy(p, c.rx)
			c.rx = c.rx[n:]
			c.BytesRead += n
			c.mu.Unlock()
			return n, nil
		case c.rxErr != nil:
			err := c.rxErr
			c.mu.Unlock()
			return 0, err
		case c.rxEOF:
			c.mu.Unlock()
			return 0, io.EOF
		}
		c.mu.Unlock()
		<-c.notify
	}
}

func (c *SimConn) wake() {
	select {
	case c.notify <- struct{}{}:
	default:
	}
}

// StallWrites makes Write block (durably) from now on - the remote end has stopped reading
// and the kernel's buffers are full - until it is called with false or this end is closed.
func (c *SimConn) StallWrites(on bool) {
	c.mu.Lock()
	defer c.mu.Unlock()
	if on && c.stall == nil {
		c.stall = make(chan struct{})
	}
	if !on && c.stall != nil {
		close(c.stall)
		c.stall = nil
	}
}

// Write queues one record for the harness to deliver; it does not block unless writes are
// stalled (StallWrites).
func (c *SimConn) Write(p []byte) (int, error) {
	c.mu.Lock()
	for c.stall != nil && !c.closed {
		ch := c.stall
		c.mu.Unlock()
		<-ch
		c.mu.Lock()
	}
	if c.closed {
		c.mu.Unlock()
		return 0, io.ErrClosedPipe
	}
	if c.writeErr != nil {
		err := c.writeErr
		c.mu.Unlock()
		return 0, err
	}
	c.seq++
	seq := c.seq
	c.BytesWritten += len(p)
	c.mu.Unlock()
	rec := &Record{Conn: c.pair, Dir: c.dir, Seq: seq, Data: append([]byte(nil), p...), At: time.Now()}
	n := c.pair.net
	n.mu.Lock()
	n.queue = append(n.queue, rec)
	if n.KeepLog {
		n.Written = append(n.Written, &Record{Conn: c.pair, Dir: c.dir, Seq: seq, Data: append([]byte(nil), p...), At: rec.At})
	}
	n.mu.Unlock()
	return len(p), nil
}

// Close closes this end: local reads fail, the peer sees EOF after the data
// already in flight.
func (c *SimConn) Close() error {
	c.mu.Lock()
	if c.closed {
		c.mu.Unlock()
		return nil
	}
	c.closed = true
	if c.stall != nil {
		close(c.stall)
		c.stall = nil
	}
	c.seq++
	seq := c.seq
	c.mu.Unlock()
	c.wake()
	n := c.pair.net
	n.mu.Lock()
	n.queue = append(n.queue, &Record{Conn: c.pair, Dir: c.dir, Seq: seq, EOF: true, At: time.Now()})
	n.mu.Unlock()
	return nil
}

// IsClosed reports whether this end was closed locally.
func (c *SimConn) IsClosed() bool {
	c.mu.Lock()
	defer c.mu.Unlock()
	return c.closed
}

// FailReads makes the next Read (after buffered data) return err.
func (c *SimConn) FailReads(err error) {
	c.mu.Lock()
	c.rxErr = err
	c.mu.Unlock()
	c.wake()
}

// FailWrites makes every further Write return err.
func (c *SimConn) FailWrites(err error) {
	c.mu.Lock()
	c.writeErr = err
	c.mu.Unlock()
}

// ErrSimIO is the injected I/O error.
var ErrSimIO = errors.New("simulated i/o error")

// push hands bytes to the reading side of this end.
func (c *SimConn) push(data []byte, eof bool) {
	c.mu.Lock()
	c.rx = append(c.rx, data...)
	if eof {
		c.rxEOF = true
	}
	c.mu.Unlock()
	c.wake()
}

// Pending returns the in-flight records in canonical order.
func (n *ConnNet) Pending() []*Record {
	n.mu.Lock()
	defer n.mu.Unlock()
	out := append([]*Record(nil), n.queue...)
	sort.SliceStable(out, func(i, j int) bool {
		a, b := out[i], out[j]
		if a.Conn.ID != b.Conn.ID {
			return a.Conn.ID < b.Conn.ID
		}
		if a.Dir != b.Dir {
			return a.Dir < b.Dir
		}
		if a.Seq != b.Seq {
			return a.Seq < b.Seq
		}
		return a.Tag < b.Tag
	})
	return out
}

// Heads returns the oldest record per connection direction.
func (n *ConnNet) Heads() []*Record {
	all := n.Pending()
	var out []*Record
	for i, r := range all {
		if i == 0 || all[i-1].Conn != r.Conn || all[i-1].Dir != r.Dir {
			out = append(out, r)
		}
	}
	return out
}

// Remove drops a record.
func (n *ConnNet) Remove(r *Record) {
	n.mu.Lock()
	defer n.mu.Unlock()
	for i, q := range n.queue {
		if q == r {
			n.queue = append(n.queue[:i], n.queue[i+1:]...)
			return
		}
	}
}

// Inject queues a harness-made record.
func (n *ConnNet) Inject(r *Record) {
	n.mu.Lock()
	defer n.mu.Unlock()
	n.queue = append(n.queue, r)
}

func (r *Record) dst() *SimConn {
	if r.Dir == 0 {
		return r.Conn.B
	}
	return r.Conn.A
}

// Deliver hands the record's bytes to the reading end and waits for quiescence.
func (n *ConnNet) Deliver(r *Record) {
	n.Remove(r)
	n.E.Tracef("byte-level delivery conn=%d dir=%d seq=%d len=%d eof=%v", r.Conn.ID, r.Dir, r.Seq, len(r.Data), r.EOF)
	if n.OnDeliver != nil {
		n.OnDeliver(r)
	}
	n.DeliverBytes(r.dst(), r.Data, r.EOF)
}

// DeliverBytes pushes raw bytes (or EOF) into an end and waits for quiescence.
func (n *ConnNet) DeliverBytes(to *SimConn, data []byte, eof bool) {
	w := n.Wire
	if w < time.Microsecond {
		w = time.Microsecond
	}
	time.Sleep(w)
	to.push(data, eof)
	wait()
}

// DeliverAt delivers a record at exactly the given fake instant (no wire time on top): timers
// of the simulated routers that are due at the same instant fire together with the delivery.
func (n *ConnNet) DeliverAt(r *Record, at time.Time) {
	n.Remove(r)
	if n.OnDeliver != nil {
		n.OnDeliver(r)
	}
	if d := time.Until(at); d > 0 {
		time.Sleep(d)
	}
	r.dst().push(r.Data, r.EOF)
	wait()
}

// DeliverSplit delivers a record in several short reads.
func (n *ConnNet) DeliverSplit(r *Record, cuts []int) {
	n.Remove(r)
	if n.OnDeliver != nil {
		n.OnDeliver(r)
	}
	prev := 0
	for _, c := range cuts {
		if c <= prev || c >= len(r.Data) {
			continue
		}
		n.DeliverBytes(r.dst(), r.Data[prev:c], false)
		prev = c
	}
	n.DeliverBytes(r.dst(), r.Data[prev:], r.EOF)
}

// ChooseFIFO picks which connection direction delivers its oldest record next.
func (n *ConnNet) ChooseFIFO(tp *core.Tape) *Record {
	h := n.Heads()
	if len(h) == 0 {
		return nil
	}
	if len(h) > 1 {
		n.E.Nontrivial()
	}
	return h[tp.Intn(len(h))]
}

// DrainFIFO delivers until nothing is in flight.
func (n *ConnNet) DrainFIFO(tp *core.Tape, maxSteps int) int {
	steps := 0
	for steps < maxSteps {
		r := n.ChooseFIFO(tp)
		if r == nil {
			return steps
		}
		n.Deliver(r)
		n.E.Step()
		steps++
	}
	return steps
}

// RunFor lets fake time pass while records keep being delivered.
func (n *ConnNet) RunFor(tp *core.Tape, d time.Duration, maxSteps int) int {
	end := time.Now().Add(d)
	steps := 0
	for time.Now().Before(end) && steps < maxSteps {
		if r := n.ChooseFIFO(tp); r != nil {
			n.Deliver(r)
			n.E.Step()
			steps++
			continue
		}
		step := 50 * time.Millisecond
		if rem := time.Until(end); rem < step {
			step = rem
		}
		time.Sleep(step)
		wait()
	}
	return steps
}

// ---- listener ----

// SimListener is a net.Listener fed by the harness.
type SimListener struct {
	name   string
	ch     chan net.Conn
	mu     sync.Mutex
	closed bool
}

// NewListener returns a listener.
func NewListener(name string) *SimListener {
	return &SimListener{name: name, ch: make(chan net.Conn, 64)}
}

// Accept implements net.Listener.
func (l *SimListener) Accept() (net.Conn, error) {
	c, ok := <-l.ch
	if !ok {
		return nil, net.ErrClosed
	}
	return c, nil
}

// Close implements net.Listener.
func (l *SimListener) Close() error {
	l.mu.Lock()
	defer l.mu.Unlock()
	if !l.closed {
		l.closed = true
		close(l.ch)
	}
	return nil
}

// Addr implements net.Listener.
func (l *SimListener) Addr() net.Addr { return simAddr("simlisten:" + l.name) }

// Offer hands an incoming connection to the listener; false if it is closed.
func (l *SimListener) Offer(c net.Conn) bool {
	l.mu.Lock()
	defer l.mu.Unlock()
	if l.closed {
		return false
	}
	select {
	case l.ch <- c:
		return true
	default:
		return false
	}
}

// ---- packet conn (DNS) ----

// Datagram is one packet with its peer address.
type Datagram struct {
	Data []byte
	Addr net.Addr
}

// SimPacketConn is a net.PacketConn fed and drained by the harness; deadlines
// run on the fake clock.
type SimPacketConn struct {
	in     chan Datagram
	closed chan struct{}
	once   sync.Once

	mu       sync.Mutex
	rdl, wdl time.Time
	out      []Datagram
	WriteErr error
}

// NewPacketConn returns a packet conn.
func NewPacketConn() *SimPacketConn {
	return &SimPacketConn{in: make(chan Datagram, 1024), closed: make(chan struct{})}
}

// Feed hands a datagram to the reader.
func (c *SimPacketConn) Feed(d Datagram) {
	select {
	case c.in <- d:
	default:
	}
}

// TakeOut returns and clears what was written.
func (c *SimPacketConn) TakeOut() []Datagram {
	c.mu.Lock()
	defer c.mu.Unlock()
	o := c.out
	c.out = nil
	return o
}

// SetWriteErr makes writes fail with err (nil = succeed again).
func (c *SimPacketConn) SetWriteErr(err error) {
	c.mu.Lock()
	c.WriteErr = err
	c.mu.Unlock()
}

// ReadFrom implements net.PacketConn.
func (c *SimPacketConn) ReadFrom(p []byte) (int, net.Addr, error) {
	c.mu.Lock()
	dl := c.rdl
	c.mu.Unlock()
	var timeout <-chan time.Time
	if !dl.IsZero() {
		d := time.Until(dl)
		if d <= 0 {
			select {
			case dg := <-c.in:
				return copy(p, dg.Data), dg.Addr, nil
			default:
			}
			return 0, nil, os.ErrDeadlineExceeded
		}
		t := time.NewTimer(d)
		defer t.Stop()
		timeout = t.C
	}
	select {
	case dg := <-c.in:
		return copy(p, dg.Data), dg.Addr, nil
	case <-timeout:
		return 0, nil, os.ErrDeadlineExceeded
	case <-c.closed:
		return 0, nil, net.ErrClosed
	}
}

// WriteTo implements net.PacketConn.
func (c *SimPacketConn) WriteTo(p []byte, addr net.Addr) (int, error) {
	c.mu.Lock()
	defer c.mu.Unlock()
	select {
	case <-c.closed:
		return 0, net.ErrClosed
	default:
	}
	if c.WriteErr != nil {
		return 0, c.WriteErr
	}
	if !c.wdl.IsZero() && !time.Now().Before(c.wdl) {
		return 0, os.ErrDeadlineExceeded
	}
	c.out = append(c.out, Datagram{Data: append([]byte(nil), p...), Addr: addr})
	return len(p), nil
}

// Close implements net.PacketConn.
func (c *SimPacketConn) Close() error {
	c.once.Do(func() { close(c.closed) })
	return nil
}

// LocalAddr implements net.PacketConn.
func (c *SimPacketConn) LocalAddr() net.Addr { return simAddr("simpacket:53") }

// SetDeadline implements net.PacketConn.
func (c *SimPacketConn) SetDeadline(t time.Time) error {
	c.mu.Lock()
	c.rdl, c.wdl = t, t
	c.mu.Unlock()
	return nil
}

// SetReadDeadline implements net.PacketConn.
func (c *SimPacketConn) SetReadDeadline(t time.Time) error {
	c.mu.Lock()
	c.rdl = t
	c.mu.Unlock()
	return nil
}

// SetWriteDeadline implements net.PacketConn.
func (c *SimPacketConn) SetWriteDeadline(t time.Time) error {
	c.mu.Lock()
	c.wdl = t
	c.mu.Unlock()
	return nil
}
