// Package simtcp stands in for package net inside peering/ (import-path
// overlay, C20): the shipped TCP peering protocol - address building, dialing,
// binding, accept loop - runs unchanged, while "the kernel" below it is the
// simulator. Addresses are split and validated by the real net package, so a
// malformed host:port fails exactly as it does on a real machine; connections
// are the byte-level simulated connections the check supplies.
//
// One process hosts all simulated routers, so they share one loopback
// interface: listeners are distinguished by port, like on one machine.
package simtcp

import (
	"context"
	"errors"
	"fmt"
	"net"
	"strconv"
	"sync"
	"syscall"
	"time"
)

// Types that peering/ only names.
type (
	Addr     = net.Addr
	Conn     = net.Conn
	Listener = net.Listener
	OpError  = net.OpError
	IP       = net.IP
	IPAddr   = net.IPAddr
	TCPAddr  = net.TCPAddr
	UDPAddr  = net.UDPAddr
	UnixAddr = net.UnixAddr
)

// Functions that do not touch the network.
var (
	JoinHostPort = net.JoinHostPort
	Pipe         = net.Pipe
)

// World is the simulated loopback interface of one run.
type World struct {
	// NewPair creates one simulated connection and returns its two ends
	// (the dialing end first).
	NewPair func(name string) (a, b net.Conn)
	// DialLatency is the simulated time one connection attempt takes.
	DialLatency time.Duration

	mu        sync.Mutex
	listeners map[uint16]*listener
	Dials     int
	DialFails int
	Binds     int
	BindFails int
}

var (
	worldMu sync.Mutex
	world   *World
)

// Install makes w the network of the current run (nil removes it).
func Install(w *World) {
	worldMu.Lock()
	defer worldMu.Unlock()
	if w != nil && w.listeners == nil {
		w.listeners = map[uint16]*listener{}
	}
	world = w
}

func current() *World {
	worldMu.Lock()
	defer worldMu.Unlock()
	return world
}

type family int

const (
	famAny family = iota
	fam4
	fam6
	famBoth // a name that resolves to both loopback addresses
)

// resolve maps a host as the real resolver would on a machine that only has a
// loopback interface.
func resolve(host string, forListen bool) (family, error) {
	switch host {
	case "":
		if forListen {
			return famAny, nil
		}
		return famBoth, nil // dialing "" means localhost
	case "0.0.0.0":
		return fam4, nil
	case "::":
		return famAny, nil
	case "localhost":
		if forListen {
			return fam4, nil // a listener binds the first address of the name
		}
		return famBoth, nil // a dialer tries the addresses of the name one after the other
	}
	ip := net.ParseIP(host)
	switch {
	case ip == nil:
		return 0, &net.DNSError{Err: "no such host", Name: host, IsNotFound: true}
	case !ip.IsLoopback():
		if forListen {
			return 0, syscall.EADDRNOTAVAIL
		}
		return 0, syscall.ENETUNREACH
	case ip.To4() != nil:
		return fam4, nil
	default:
		return fam6, nil
	}
}

type listener struct {
	w      *World
	port   uint16
	fam    family
	addr   *net.TCPAddr
	mu     sync.Mutex
	closed bool
	ch     chan net.Conn
}

func (l *listener) Addr() net.Addr { return l.addr }

func (l *listener) Accept() (net.Conn, error) {
	c, ok := <-l.ch
	if !ok {
		return nil, net.ErrClosed
	}
	return c, nil
}

func (l *listener) Close() error {
	l.mu.Lock()
	defer l.mu.Unlock()
	if l.closed {
		return nil
	}
	l.closed = true
	close(l.ch)
	// Connections that were established but not yet accepted are reset when a listening socket
	// is closed: their dialler's next read ends. (Left open they would pin the dialler's
	// handshake for ever - something no operating system does to a loopback connection.)
	for c := range l.ch {
		_ = c.Close()
	}
	l.w.mu.Lock()
	if l.w.listeners[l.port] == l {
		delete(l.w.listeners, l.port)
	}
	l.w.mu.Unlock()
	return nil
}

func (l *listener) offer(c net.Conn) bool {
	l.mu.Lock()
	defer l.mu.Unlock()
	if l.closed {
		return false
	}
	select {
	case l.ch <- c:
		return true
	default:
		return false
	}
}

// Listen mirrors net.Listen for "tcp".
func Listen(network, address string) (net.Listener, error) {
	w := current()
	if w == nil {
		return nil, errors.New("simtcp: no simulated network installed")
	}
	opErr := func(err error) error {
		w.mu.Lock()
		w.BindFails++
		w.mu.Unlock()
		return &net.OpError{Op: "listen", Net: network, Err: err}
	}
	if network != "tcp" {
		return nil, opErr(net.UnknownNetworkError(network))
	}
	host, portStr, err := net.SplitHostPort(address)
	if err != nil {
		return nil, opErr(err)
	}
	port, err := strconv.ParseUint(portStr, 10, 16)
	if err != nil {
		return nil, opErr(fmt.Errorf("invalid port %q", portStr))
	}
	fam, err := resolve(host, true)
	if err != nil {
		return nil, opErr(err)
	}
	w.mu.Lock()
	defer w.mu.Unlock()
	if port == 0 {
		for p := uint16(49152); p != 0; p++ {
			if w.listeners[p] == nil {
				port = uint64(p)
				break
			}
		}
	}
	if w.listeners[uint16(port)] != nil {
		w.BindFails++
		return nil, &net.OpError{Op: "listen", Net: network, Err: syscall.EADDRINUSE}
	}
	ip := net.IPv6loopback
	if fam == fam4 {
		ip = net.IPv4(127, 0, 0, 1)
	}
	l := &listener{w: w, port: uint16(port), fam: fam, addr: &net.TCPAddr{IP: ip, Port: int(port)}, ch: make(chan net.Conn, 64)}
	w.listeners[uint16(port)] = l
	w.Binds++
	return l, nil
}

// Dialer mirrors the fields of net.Dialer that peering/ sets.
type Dialer struct {
	Timeout       time.Duration
	FallbackDelay time.Duration
	KeepAlive     time.Duration
}

// DialContext mirrors (*net.Dialer).DialContext for "tcp".
func (d *Dialer) DialContext(ctx context.Context, network, address string) (net.Conn, error) {
	w := current()
	if w == nil {
		return nil, errors.New("simtcp: no simulated network installed")
	}
	fail := func(err error) (net.Conn, error) {
		w.mu.Lock()
		w.DialFails++
		w.mu.Unlock()
		return nil, &net.OpError{Op: "dial", Net: network, Err: err}
	}
	w.mu.Lock()
	w.Dials++
	w.mu.Unlock()
	if network != "tcp" {
		return fail(net.UnknownNetworkError(network))
	}
	host, portStr, err := net.SplitHostPort(address)
	if err != nil {
		return fail(err)
	}
	port, err := strconv.ParseUint(portStr, 10, 16)
	if err != nil || port == 0 {
		return fail(fmt.Errorf("invalid port %q", portStr))
	}
	fam, err := resolve(host, false)
	if err != nil {
		return fail(err)
	}
	if w.DialLatency > 0 {
		select {
		case <-time.After(w.DialLatency):
		case <-ctx.Done():
			return fail(ctx.Err())
		}
	}
	w.mu.Lock()
	l := w.listeners[uint16(port)]
	w.mu.Unlock()
	reachable := l != nil && (l.fam == famAny || fam == famBoth || l.fam == fam)
	if !reachable {
		return fail(syscall.ECONNREFUSED)
	}
	a, b := w.NewPair("tcp:" + address)
	if !l.offer(b) {
		_ = a.Close()
		_ = b.Close()
		return fail(syscall.ECONNREFUSED)
	}
	return a, nil
}
