// Package mesh builds simulated meshes of real router nodes over simnet and
// offers harness probes (a custom ping type registered through the public
// RegisterPingHandler) and parsers for what crosses the links.
package mesh

import (
	"fmt"
	"net/netip"
	"sort"
	"strings"
	"sync"
	"time"

	"github.com/fxamacker/cbor/v2"

	"github.com/mycoria/mycoria/config"
	"github.com/mycoria/mycoria/frame"
	"github.com/mycoria/mycoria/m"
	"github.com/mycoria/mycoria/mgr"
	"github.com/mycoria/mycoria/router"

	"mycoverif/core"
	"mycoverif/ident"
	"mycoverif/node"
	"mycoverif/simnet"
)

// Mesh is a set of started nodes with links.
type Mesh struct {
	E     *core.Env
	Net   *simnet.Net
	Nodes []*node.Node
	Edges [][2]int
	Adj   [][]int
	Kind  string
	ByIP  map[netip.Addr]int

	mu     sync.Mutex
	Probes []ProbeEvent
	// AutoReply makes probe handlers answer requests with a routed reply.
	AutoReply bool
	probeSeq  uint64
	stderrs   []string
}

// ProbeEvent is one probe ping handed to a node's upper handler.
type ProbeEvent struct {
	At      int // node index
	Src     netip.Addr
	Dst     netip.Addr
	Reply   bool
	Payload string
	Switch  []byte
}

// Options for Build.
type Options struct {
	MinNodes, MaxNodes int
	// MaxExtraEdges bounds edges beyond a spanning tree for random graphs.
	MaxExtraEdges int
	// TwoByteLabels allows labels above 127.
	TwoByteLabels bool
	// BigInfo allows large router info (long IANA strings).
	BigInfo bool
	// Tun gives every node a stub tun device.
	Tun bool
	// Kinds restricts topology kinds (nil = all).
	Kinds []string
	// Store lets the caller adjust each node's config store.
	Store func(i int, id *m.Address, s *config.Store)
	// LabelFn overrides the label generator (uniqueness per node is still enforced).
	LabelFn func(tp *core.Tape) m.SwitchLabel
	// Edges, if set, fixes the topology (node count = MaxNodes).
	Edges [][2]int
	// Idents, if set, fixes the identity of node i (len >= node count).
	Idents []*m.Address
	// Prompt: see simnet.Net.Prompt.
	Prompt bool
	// StartGaps, if set, fixes the pause before router i is started.
	StartGaps []time.Duration
	// LongStagger starts the routers whole seconds apart (multiples of 5 s, plus up to 2 ms):
	// periodic workers of different routers (keep-alive every 15 s, announcements 5 s after
	// start and then every 5 min) can then fall into the same millisecond.
	LongStagger bool
	// Continents places the routers in two continent prefixes: the last router in one, all
	// others in the other (what a router stores per foreign continent is limited).
	Continents bool
	// RoamingSome gives about every fourth router a roaming address (fd00::/16, inside the
	// special /12 that also holds the internal addresses) instead of one of IdentKind.
	RoamingSome bool
	// IdentKind selects the identity range.
	IdentKind ident.Kind
}

var allKinds = []string{"line", "ring", "star", "tree", "grid", "random"}

func genTopology(tp *core.Tape, n int, kind string, extra int) [][2]int {
	var edges [][2]int
	add := func(a, b int) {
		if a == b {
			return
		}
		if a > b {
			a, b = b, a
		}
		for _, e := range edges {
			if e[0] == a && e[1] == b {
				return
			}
		}
		edges = append(edges, [2]int{a, b})
	}
	switch kind {
	case "line":
		for i := 0; i+1 < n; i++ {
			add(i, i+1)
		}
	case "ring":
		for i := 0; i+1 < n; i++ {
			add(i, i+1)
		}
		if n > 2 {
			add(n-1, 0)
		}
	case "star":
		for i := 1; i < n; i++ {
			add(0, i)
		}
	case "tree":
		for i := 1; i < n; i++ {
			add(tp.Intn(i), i)
		}
	case "grid":
		w := 2
		for w*w < n {
			w++
		}
		for i := 0; i < n; i++ {
			if (i+1)%w != 0 && i+1 < n {
				add(i, i+1)
			}
			if i+w < n {
				add(i, i+w)
			}
		}
		// make sure it is connected when the last row is short
		for i := 1; i < n; i++ {
			if i%w == 0 {
				add(i-w, i)
			}
		}
	case "relays": // two or three relays, every other router linked to all of them (dense: each
		// destination is reachable over several equally short paths)
		r := 2 + tp.Intn(2)
		if n <= r {
			r = 1
		}
		for i := r; i < n; i++ {
			for j := 0; j < r; j++ {
				add(j, i)
			}
		}
		if n <= r {
			for i := 0; i+1 < n; i++ {
				add(i, i+1)
			}
		}
	default: // random connected: spanning tree plus a few extra edges
		for i := 1; i < n; i++ {
			add(tp.Intn(i), i)
		}
		for k := tp.Intn(extra + 1); k > 0; k-- {
			add(tp.Intn(n), tp.Intn(n))
		}
	}
	return edges
}

// CountSimplePaths counts simple paths starting at src (every prefix counts),
// capped at limit.
func CountSimplePaths(adj [][]int, src, limit int) int {
	visited := make([]bool, len(adj))
	count := 0
	var dfs func(u int)
	dfs = func(u int) {
		visited[u] = true
		for _, v := range adj[u] {
			if !visited[v] && count < limit {
				count++
				dfs(v)
			}
		}
		visited[u] = false
	}
	dfs(src)
	return count
}

// Build creates, starts and connects a mesh. The tape decides size, topology,
// identities, labels, latencies, router-info sizes and start stagger.
func Build(e *core.Env, o Options) *Mesh {
	tp := e.Tape
	if o.MinNodes == 0 {
		o.MinNodes = 2
	}
	if o.MaxNodes == 0 {
		o.MaxNodes = 16
	}
	n := tp.Range(o.MinNodes, o.MaxNodes)
	kinds := o.Kinds
	if kinds == nil {
		kinds = allKinds
	}
	var kind string
	var edges [][2]int
	var adj [][]int
	for attempt := 0; ; attempt++ {
		kind = kinds[tp.Intn(len(kinds))]
		edges = genTopology(tp, n, kind, o.MaxExtraEdges)
		if o.Edges != nil {
			kind, edges = "fixed", o.Edges
		}
		adj = make([][]int, n)
		for _, ed := range edges {
			adj[ed[0]] = append(adj[ed[0]], ed[1])
			adj[ed[1]] = append(adj[ed[1]], ed[0])
		}
		ok := true
		for i := 0; i < n && ok; i++ {
			if kind != "relays" && CountSimplePaths(adj, i, 1500) >= 1500 {
				ok = false
			}
		}
		if ok || attempt > 20 {
			if !ok {
				kind = "line"
				edges = genTopology(tp, n, kind, 0)
				adj = make([][]int, n)
				for _, ed := range edges {
					adj[ed[0]] = append(adj[ed[0]], ed[1])
					adj[ed[1]] = append(adj[ed[1]], ed[0])
				}
			}
			break
		}
	}
	ms := &Mesh{E: e, Net: simnet.New(e), Edges: edges, Adj: adj, Kind: kind, ByIP: map[netip.Addr]int{}}
	e.Cleanup(ms.Net.Shutdown)
	ms.Net.Prompt = o.Prompt

	idPerm := tp.Perm(24)
	for i := 0; i < n; i++ {
		id := ident.Get(o.IdentKind, idPerm[i%24]+24*(i/24))
		if o.Continents {
			id = ident.Get(ident.ContinentA, idPerm[i%24]+24*(i/24))
			if i == n-1 {
				id = ident.Get(ident.ContinentB, idPerm[i%24]+24*(i/24))
			}
		}
		if o.RoamingSome && tp.Chance(1, 4) {
			id = ident.Get(ident.Roaming, idPerm[i%24]+24*(i/24))
			e.Probe("router_with_roaming_address")
		}
		if i < len(o.Idents) {
			id = o.Idents[i]
		}
		st := node.BaseStore(id)
		if o.BigInfo && tp.Chance(1, 3) {
			k := 1 + tp.Intn(4)
			for j := 0; j < k; j++ {
				st.Router.IANA = append(st.Router.IANA, strings.Repeat("x", 10+tp.Intn(200))+".example")
			}
			e.Probe("big_router_info")
		}
		if o.Store != nil {
			o.Store(i, id, &st)
		}
		nd, err := node.New(fmt.Sprintf("n%d", i), id, st, node.Options{Tun: o.Tun})
		if err != nil {
			e.Infra("node.New: %v", err)
		}
		ms.Nodes = append(ms.Nodes, nd)
		ms.ByIP[nd.IP] = i
		ms.registerProbe(i)
		// Staggered starts: distinct fake offsets, so tickers of different
		// nodes never coincide.
		if i < len(o.StartGaps) {
			time.Sleep(o.StartGaps[i])
		} else if o.LongStagger {
			time.Sleep(time.Duration(tp.Intn(3))*5*time.Second + time.Duration(tp.Intn(2000))*time.Microsecond + time.Duration(i)*time.Microsecond)
		} else {
			time.Sleep(time.Duration(1+tp.Intn(40))*time.Millisecond + time.Duration(i)*37*time.Microsecond)
		}
		if err := ms.Net.AddNode(nd); err != nil {
			e.Infra("start: %v", err)
		}
	}
	// Labels: unique and non-zero per node.
	used := make([]map[m.SwitchLabel]bool, n)
	for i := range used {
		used[i] = map[m.SwitchLabel]bool{}
	}
	label := func(i int) m.SwitchLabel {
		var l m.SwitchLabel
		if o.LabelFn != nil {
			l = o.LabelFn(tp)
		} else if o.TwoByteLabels && tp.Chance(1, 3) {
			l = m.SwitchLabel(128 + tp.Intn(16383-128+1))
			e.Probe("label_2_bytes")
		} else {
			l = m.SwitchLabel(1 + tp.Intn(127))
		}
		// Deterministic probing instead of re-drawing: a replayed tape that
		// runs out yields zeros and must still terminate.
		for used[i][l] || l == 0 {
			l++
			if l == 0 {
				l = 1
			}
		}
		used[i][l] = true
		return l
	}
	for _, ed := range edges {
		a, b := ms.Nodes[ed[0]], ms.Nodes[ed[1]]
		if tp.Chance(1, 2) {
			a, b = b, a
		}
		ai, bi := ms.ByIP[a.IP], ms.ByIP[b.IP]
		_, _, err := ms.Net.Connect(a, b, simnet.ConnectOpts{
			LabelAtA: label(ai), LabelAtB: label(bi),
			LatencyMs: uint16(1 + tp.Intn(80)),
			Wire:      time.Duration(1+tp.Intn(40)) * time.Microsecond,
		})
		if err != nil {
			e.Infra("connect: %v", err)
		}
	}
	simnet.Wait()
	e.Sample("mesh %s n=%d edges=%v", kind, n, edges)
	e.Logf("mesh %s n=%d edges=%v", kind, n, edges)
	for i, nd := range ms.Nodes {
		var ls []string
		for _, l := range nd.Peering.GetLinks() {
			ls = append(ls, fmt.Sprintf("%d>%d", l.SwitchLabel(), ms.ByIP[l.Peer()]))
		}
		e.Logf(" n%d %s labels %v", i, nd.IP, ls)
	}
	return ms
}

// ---- probe ping ----

const ProbeType = "verifprobe"

type probeHandler struct {
	ms *Mesh
	at int
}

func (h *probeHandler) Type() string                 { return ProbeType }
func (h *probeHandler) Clean(w *mgr.WorkerCtx) error { return nil }
func (h *probeHandler) Handle(w *mgr.WorkerCtx, f frame.Frame, hdr *router.PingHeader, data []byte) error {
	ev := ProbeEvent{
		At: h.at, Src: f.SrcIP(), Dst: f.DstIP(), Reply: hdr.FollowUp, Payload: string(data),
		Switch: append([]byte(nil), f.SwitchBlock()...),
	}
	h.ms.mu.Lock()
	h.ms.Probes = append(h.ms.Probes, ev)
	reply := h.ms.AutoReply && !hdr.FollowUp
	h.ms.mu.Unlock()
	f.ReturnToPool()
	if reply {
		nd := h.ms.Nodes[h.at]
		rf, err := h.ms.NewProbeFrame(nd, ev.Src, nil, nil, true, strings.ToLower(ev.Payload)+"/reply")
		if err != nil {
			return nil
		}
		if err := nd.Router.RouteFrame(rf); err != nil {
			rf.ReturnToPool()
		}
	}
	return nil
}

func (ms *Mesh) registerProbe(i int) {
	if err := ms.Nodes[i].Router.RegisterPingHandler(&probeHandler{ms: ms, at: i}); err != nil {
		ms.E.Infra("register probe handler: %v", err)
	}
}

// TakeProbes returns and clears the recorded probe events.
func (ms *Mesh) TakeProbes() []ProbeEvent {
	ms.mu.Lock()
	defer ms.mu.Unlock()
	out := ms.Probes
	ms.Probes = nil
	return out
}

// PingBody builds a ping message (version, header length, CBOR header, body)
// as the shipped sendPingMsg does, with this node's identity in the header.
func PingBody(nd *node.Node, pingType string, pingID uint64, code uint8, followUp bool, body []byte) []byte {
	hdr := router.PingHeader{
		PingID: pingID, PingType: pingType, PingCode: code, FollowUp: followUp,
		AddrHash: nd.ID.Hash, KeyType: nd.ID.Type, PublicKey: nd.ID.PublicKey,
	}
	hd, err := cbor.Marshal(&hdr)
	if err != nil {
		panic(err)
	}
	out := make([]byte, 2+len(hd)+len(body))
	out[0] = 1
	out[1] = uint8(len(hd))
	copy(out[2:], hd)
	copy(out[2+len(hd):], body)
	return out
}

// NewProbeFrame builds and seals (signs) a probe frame from node a to dst.
// For label-switched probes finalBlock is the block as the destination will
// see it: the frame is sealed over that form (the switch block is authenticated
// "in the final format the receiving node sees") and then given the start block.
func (ms *Mesh) NewProbeFrame(a *node.Node, dst netip.Addr, switchBlock, finalBlock []byte, reply bool, payload string) (frame.Frame, error) {
	ms.mu.Lock()
	ms.probeSeq++
	id := 0x1000 + ms.probeSeq
	ms.mu.Unlock()
	body := PingBody(a, ProbeType, id, 0, reply, []byte(payload))
	sealBlock := switchBlock
	if finalBlock != nil {
		sealBlock = finalBlock
	}
	f, err := a.Inst.Builder.NewFrameV1(a.IP, dst, frame.RouterPing, sealBlock, body, nil)
	if err != nil {
		return nil, err
	}
	sess := a.State.GetSession(dst)
	if sess != nil {
		if err := f.Seal(sess); err != nil {
			f.ReturnToPool()
			return nil, err
		}
	} else {
		// Destination unknown to a: sign raw as the shipped sendPingMsg does.
		f.SetTTL(0)
		f.SetSequenceTime(time.Now().Round(time.Millisecond).Add(-time.Millisecond))
		if err := f.SignRaw(a.ID.PrivateKey); err != nil {
			f.ReturnToPool()
			return nil, err
		}
		f.SetTTL(32)
	}
	if finalBlock != nil {
		if err := f.SetSwitchBlock(switchBlock); err != nil {
			f.ReturnToPool()
			return nil, err
		}
	}
	return f, nil
}

// LabelAt returns the label node a uses for its link to node b (0 if none).
func (ms *Mesh) LabelAt(a, b int) m.SwitchLabel {
	l := ms.Nodes[a].Peering.GetLink(ms.Nodes[b].IP)
	if l == nil {
		return 0
	}
	return l.SwitchLabel()
}

// FinalBlock computes what a forward block looks like when it reaches the end
// of the given hop sequence, using the real rotation function and the labels
// the links on that path really have (not the labels stored in a route).
// It also returns the block as the origin must send it and the first label.
func (ms *Mesh) FinalBlock(forward []byte, hops []netip.Addr) (start []byte, first m.SwitchLabel, final []byte, err error) {
	block := append([]byte(nil), forward...)
	for i := range hops {
		var ret m.SwitchLabel
		if i > 0 {
			a, ok1 := ms.ByIP[hops[i]]
			b, ok2 := ms.ByIP[hops[i-1]]
			if !ok1 || !ok2 {
				return nil, 0, nil, fmt.Errorf("hop %s or %s is not a router of this mesh", hops[i], hops[i-1])
			}
			ret = ms.LabelAt(a, b)
			if ret == 0 {
				return nil, 0, nil, fmt.Errorf("hops %s and %s are not adjacent", hops[i-1], hops[i])
			}
		}
		next, rerr := m.NextRotateSwitchBlock(block, ret)
		if rerr != nil {
			return nil, 0, nil, fmt.Errorf("rotate at hop %d: %w", i, rerr)
		}
		if i == 0 {
			first = next
			start = append([]byte(nil), block...)
		}
	}
	return start, first, block, nil
}

// ---- parsing what crosses links ----

// AnnounceView is the parsed view of an announcement crossing.
type AnnounceView struct {
	Origin   netip.Addr
	Instance string       // origin + timestamp + signature
	Hops     []netip.Addr // outermost first, as attached
	Apx      []byte
}

// ParseCrossing parses a frame that crossed a link with a private builder.
func ParseCrossing(b *frame.Builder, data []byte) (frame.Frame, error) {
	ps := b.GetPooledSlice(len(data))
	if len(ps) < len(data) {
		return nil, fmt.Errorf("too big")
	}
	copy(ps, data)
	f, err := b.ParseFrame(ps[:len(data)], ps, 0)
	if err != nil {
		b.ReturnPooledSlice(ps)
		return nil, err
	}
	return f, nil
}

// PingInfo extracts the ping header of a ping frame without verifying it.
func PingInfo(f frame.Frame) (*router.PingHeader, []byte, bool) {
	data := f.MessageData()
	if len(data) < 3 {
		return nil, nil, false
	}
	hl := int(data[1])
	if len(data) < 2+hl {
		return nil, nil, false
	}
	hdr := &router.PingHeader{}
	if err := cbor.Unmarshal(data[2:2+hl], hdr); err != nil {
		return nil, nil, false
	}
	return hdr, data[2+hl:], true
}

// ViewAnnounce returns the announce view of a frame, if it is an announcement.
func ViewAnnounce(f frame.Frame) (*AnnounceView, bool) {
	if f.MessageType() != frame.RouterHopPing && f.MessageType() != frame.RouterHopPingDeprecated {
		return nil, false
	}
	hdr, _, ok := PingInfo(f)
	if !ok || hdr.PingType != "announce" {
		return nil, false
	}
	v := &AnnounceView{Origin: f.SrcIP(), Apx: append([]byte(nil), f.AppendixData()...)}
	v.Instance = fmt.Sprintf("%s/%d/%x", f.SrcIP(), f.SequenceTime().UnixMilli(), f.AuthData())
	apx := f.AppendixData()
	for i := 0; i < 200 && len(apx) >= 65; i++ {
		var at router.AnnouncePingAttachment
		if err := cbor.Unmarshal(apx[:len(apx)-64], &at); err != nil {
			break
		}
		v.Hops = append(v.Hops, at.Router.IP)
		apx = at.NextAttachment
	}
	return v, true
}

// WorkerPanics collects new worker panics of all nodes: alerts plus the
// stacks printed on stderr; returns violation-class strings.
func (ms *Mesh) WorkerPanics() []string {
	var out []string
	for _, st := range node.PanicStacks(node.NewStderr()) {
		out = append(out, core.PanicClass(st)+"|"+firstLine(st))
	}
	if len(out) == 0 {
		for _, nd := range ms.Nodes {
			for _, a := range nd.PanicAlerts() {
				_ = a
			}
		}
	}
	sort.Strings(out)
	return out
}

func firstLine(s string) string {
	s = strings.TrimSpace(s)
	if i := strings.Index(s, "\n"); i >= 0 {
		return s[:i]
	}
	return s
}

// CheckPanics fails the run if any worker of any node panicked.
func (ms *Mesh) CheckPanics(prefix string) {
	ps := ms.WorkerPanics()
	alerts := 0
	for _, nd := range ms.Nodes {
		alerts += len(nd.PanicAlerts())
	}
	if len(ps) > 0 {
		cls, msg, _ := strings.Cut(ps[0], "|")
		ms.E.Fail(prefix+":"+cls, "worker panic: %s (%d panic reports)", msg, len(ps))
	}
	if alerts > 0 {
		ms.E.Fail(prefix+":alert-without-stack", "%d worker-panic alerts", alerts)
	}
}
