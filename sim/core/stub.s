// Empty assembly file: lets run.go declare verifResetRand (defined in the runtime overlay) without a body.
