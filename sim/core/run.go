package core

import (
	"encoding/json"
	"fmt"
	"os"
	"runtime"
	"runtime/debug"
	"runtime/metrics"
	"sort"
	"strconv"
	"strings"
	"testing"
	"testing/cryptotest"
	"testing/synctest"
	"time"
	_ "unsafe" // go:linkname
)

// Check describes one property check.
type Check struct {
	ID string
	// Name distinguishes several checks of one property (part of the seed mix).
	Name string
	// NoBubble runs the body outside a synctest bubble (pure library checks
	// that never read a clock).
	NoBubble bool
	// Runs per tier (total over all shards).
	QuickRuns, ThoroughRuns int
	// Run is one simulated execution.
	Run func(e *Env)
	// LeakIsViolation makes goroutines that are still blocked when the run's
	// bubble ends a violation of the property (C20) instead of harness trouble.
	LeakIsViolation bool
	// MinimiseBudget caps re-executions spent on shrinking one failure.
	MinimiseBudget int
}

// Outcome is the summary of one executed tape.
type Outcome struct {
	Viol       *Violation
	Infra      string
	Hash       uint64
	Tape       []uint32
	Faults     map[string]int
	Probes     map[string]int
	Nontrivial bool
	SimTime    time.Duration
	Steps      int
	Evals      int
	Cases      []uint64
	Trace      []string
	Sample     []string
}

// Exec runs the check once on the given tape.
// heartbeat tells the driver that another execution begins (first runs, minimisation and
// self-check replays alike). A shard whose heartbeat stops for minutes is stuck inside one
// execution: the driver then asks the Go runtime for its goroutine stacks (SIGQUIT) and
// decides from them whether a shipped worker spins or the harness hangs.
var (
	beatPath  = os.Getenv("VERIF_BEAT")
	beatCount uint64
)

func heartbeat() {
	if beatPath == "" {
		return
	}
	beatCount++
	_ = os.WriteFile(beatPath, []byte(strconv.FormatUint(beatCount, 10)), 0o644)
}

// verifResetRand is defined in the runtime overlay the driver builds every check with: it puts
// the runtime's random generators (map iteration, select order, the tie-break of timers due at
// one fake instant) back to their start values.
//
//go:linkname verifResetRand runtime.verifResetRand
func verifResetRand()

func (c *Check) Exec(t *testing.T, tape *Tape, trace bool) (out *Outcome) {
	e := newEnv(t, tape, trace)
	heartbeat()
	verifResetRand() // every execution starts from the same generator states: a run is a function of its tape
	ticks = 0        // the yield points of core.Tick are a function of the run, not of the process
	tape.OnOverrun = func() { e.Infra("replayed tape overrun: a harness loop does not terminate on zero draws") }
	body := func(t *testing.T) {
		e.T = t
		defer func() {
			if r := recover(); r != nil {
				if _, ok := r.(abortRun); !ok {
					st := string(debug.Stack())
					if e.viol == nil {
						e.viol = &Violation{
							Class:  "harness-goroutine-panic:" + PanicClass(st),
							Detail: fmt.Sprintf("panic: %v", r),
						}
						e.Logf("VIOLATION %s: %s", e.viol.Class, e.viol.Detail)
					}
					if e.Trace {
						e.trace = append(e.trace, st)
					}
				}
			}
			// Cleanups run in reverse order, each guarded.
			for i := len(e.cleanups) - 1; i >= 0; i-- {
				func() {
					defer func() {
						if r := recover(); r != nil {
							if _, ok := r.(abortRun); !ok && e.infra == "" {
								e.infra = fmt.Sprintf("cleanup panic: %v\n%s", r, debug.Stack())
							}
						}
					}()
					e.cleanups[i]()
				}()
			}
			e.stopClock()
		}()
		c.Run(e)
	}
	if c.NoBubble {
		body(t)
	} else {
		cryptoSeed := uint64(tape.Uint32())
		func() {
			defer func() {
				if r := recover(); r != nil {
					if e.infra == "" {
						e.infra = fmt.Sprintf("bubble: %v", r)
					}
				}
			}()
			ok := t.Run("r", func(t *testing.T) {
				// The end-of-bubble deadlock panic is raised in this goroutine.
				defer func() {
					if r := recover(); r != nil {
						msg := fmt.Sprint(r)
						leak := strings.Contains(msg, "blocked goroutines remain")
						switch {
						case leak && e.viol != nil:
							// the run already failed; goroutines left behind are a consequence
						case leak && c.LeakIsViolation:
							e.viol = &Violation{Class: "goroutines-left-blocked-at-end-of-run",
								Detail: "after everything was stopped and all connections closed, goroutines of the system are still blocked forever: " + msg}
						case e.infra == "":
							e.infra = "bubble: " + msg
						}
					}
				}()
				cryptotest.SetGlobalRandom(t, cryptoSeed)
				synctest.Test(t, body)
			})
			if !ok && e.infra == "" && e.viol == nil && false {
				e.infra = "subtest reported failure"
			}
		}()
	}
	return &Outcome{
		Viol: e.viol, Infra: e.infra, Hash: e.hash,
		Tape:   append([]uint32(nil), tape.Recorded()...),
		Faults: e.Faults, Probes: e.Probes, Nontrivial: e.nontrivial,
		SimTime: e.SimTime, Steps: e.Steps, Evals: e.Evals, Cases: e.cases, Trace: e.trace, Sample: e.sample,
	}
}

// ReplayFile is the on-disk form of a (minimised) failing run.
type ReplayFile struct {
	Property string   `json:"property"`
	Check    string   `json:"check"`
	Tier     string   `json:"tier"`
	Seed     uint64   `json:"seed"`
	Run      uint64   `json:"run"`
	NCPU     int      `json:"ncpu"`
	Tape     []uint32 `json:"tape"`
	Class    string   `json:"expected_class"`
	Detail   string   `json:"detail"`
	Hash     string   `json:"expected_hash"`
	OrigLen  int      `json:"original_tape_len"`
	Trace    []string `json:"trace,omitempty"`
}

// FoundViolation is one violation class found by a shard.
type FoundViolation struct {
	Class  string `json:"class"`
	Detail string `json:"detail"`
	Replay string `json:"replay"`
	Count  int    `json:"count"`
	Seed   uint64 `json:"seed"`
	Run    uint64 `json:"run"`
}

// ShardResult is what one process reports to the driver.
type ShardResult struct {
	Property     string            `json:"property"`
	Check        string            `json:"check"`
	Tier         string            `json:"tier"`
	Seed         uint64            `json:"seed"`
	Shard        string            `json:"shard"`
	NCPU         int               `json:"ncpu"`
	Runs         int               `json:"runs"`
	Evals        int               `json:"evaluations"`
	Nontrivial   int               `json:"nontrivial"`
	Hashes       []string          `json:"nontrivial_hashes"`
	HashesCapped bool              `json:"hashes_capped"`
	Faults       map[string]int    `json:"faults"`
	Probes       map[string]int    `json:"probes"`
	SimSeconds   float64           `json:"sim_seconds"`
	Steps        int               `json:"steps"`
	WallSeconds  float64           `json:"wall_seconds"`
	Violations   []*FoundViolation `json:"violations"`
	Infra        []string          `json:"infra"`
	Samples      [][]string        `json:"samples"`
	TapeLens     []int             `json:"tape_len_min_med_max"`
	ReplayOK     int               `json:"replay_verified"`
	ReplayBad    int               `json:"replay_mismatch"`
	Complete     bool              `json:"complete"`
}

const maxHashes = 200000

func envInt(name string, def int) int {
	if s := os.Getenv(name); s != "" {
		if v, err := strconv.Atoi(s); err == nil {
			return v
		}
	}
	return def
}

func envU64(name string, def uint64) uint64 {
	if s := os.Getenv(name); s != "" {
		if v, err := strconv.ParseUint(s, 10, 64); err == nil {
			return v
		}
		if v, err := strconv.ParseInt(s, 10, 64); err == nil {
			return uint64(v)
		}
	}
	return def
}

func writeJSON(path string, v any) error {
	data, err := json.MarshalIndent(v, "", " ")
	if err != nil {
		return err
	}
	tmp := path + ".tmp"
	if err := os.WriteFile(tmp, data, 0o644); err != nil {
		return err
	}
	return os.Rename(tmp, path)
}

var exitHooks []func()

// OnExit registers a function to run when a batch ends (e.g. cache saves).
func OnExit(f func()) { exitHooks = append(exitHooks, f) }

// Main is called from each check's TestCheck.
func Main(t *testing.T, c *Check) {
	gcPolicy()
	defer func() {
		for _, f := range exitHooks {
			f()
		}
	}()
	if c.Name == "" {
		c.Name = c.ID
	}
	if c.MinimiseBudget == 0 {
		c.MinimiseBudget = 400
	}
	if path := os.Getenv("VERIF_REPLAY"); path != "" {
		c.replay(t, path)
		return
	}

	tier := os.Getenv("VERIF_TIER")
	if tier == "" {
		tier = "quick"
	}
	seed := envU64("VERIF_SEED", 1)
	total := c.QuickRuns
	if tier == "thorough" {
		total = c.ThoroughRuns
	}
	total = envInt("VERIF_RUNS", total)
	shardK, shardN := 0, 1
	if s := os.Getenv("VERIF_SHARD"); s != "" {
		fmt.Sscanf(s, "%d/%d", &shardK, &shardN)
	}
	wallCap := time.Duration(envInt("VERIF_WALL", 0)) * time.Second
	outPath := os.Getenv("VERIF_OUT")
	replayDir := os.Getenv("VERIF_REPLAY_DIR")
	if replayDir == "" {
		replayDir = "."
	}
	known := map[string]bool{}
	for _, k := range strings.Split(os.Getenv("VERIF_KNOWN"), "\x1f") {
		if k != "" {
			known[k] = true
		}
	}
	maxClasses := envInt("VERIF_MAX_CLASSES", 4)

	res := &ShardResult{
		Property: c.ID, Check: c.Name, Tier: tier, Seed: seed,
		Shard: fmt.Sprintf("%d/%d", shardK, shardN), NCPU: runtime.NumCPU(),
		Faults: map[string]int{}, Probes: map[string]int{},
	}
	hashes := map[uint64]struct{}{}
	byClass := map[string]*FoundViolation{}
	var tapeLens []int
	start := time.Now()
	var simTotal time.Duration
	inflight := outPath + ".inflight"
	var hashDump *os.File
	if hp := os.Getenv("VERIF_DUMP_HASHES"); hp != "" {
		hashDump, _ = os.Create(hp)
		defer hashDump.Close()
	}

	for i := shardK; i < total; i += shardN {
		if wallCap > 0 && time.Since(start) > wallCap {
			break
		}
		runSeed := Mix(seed, c.Name, uint64(i))
		if outPath != "" {
			_ = os.WriteFile(inflight, []byte(fmt.Sprintf(
				`{"property":%q,"check":%q,"tier":%q,"seed":%d,"run":%d,"ncpu":%d}`,
				c.ID, c.Name, tier, seed, i, runtime.NumCPU())), 0o644)
		}
		traceThis := os.Getenv("VERIF_TRACE_RUN") == strconv.Itoa(i)
		out := c.Exec(t, NewTape(runSeed), traceThis)
		if traceThis {
			_ = os.WriteFile(os.Getenv("VERIF_TRACE_OUT"), []byte(strings.Join(out.Trace, "\n")+"\n"), 0o644)
		}
		res.Runs++
		trimHeap()
		if hashDump != nil {
			v := ""
			if out.Viol != nil {
				v = out.Viol.Class
			}
			fmt.Fprintf(hashDump, "%d %x %d %s\n", i, out.Hash, len(out.Tape), v)
		}
		if out.Evals > 0 {
			res.Evals += out.Evals
		} else {
			res.Evals++
		}
		res.Steps += out.Steps
		simTotal += out.SimTime
		for k, v := range out.Faults {
			res.Faults[k] += v
		}
		for k, v := range out.Probes {
			res.Probes[k] += v
		}
		tapeLens = append(tapeLens, len(out.Tape))
		if out.Nontrivial {
			res.Nontrivial++
			hs := out.Cases
			if len(hs) == 0 {
				hs = []uint64{out.Hash}
			}
			for _, h := range hs {
				if len(hashes) < maxHashes {
					hashes[h] = struct{}{}
				} else {
					res.HashesCapped = true
					break
				}
			}
		}
		if len(res.Samples) < 3 && len(out.Sample) > 0 && (out.Nontrivial || i == shardK) {
			res.Samples = append(res.Samples, out.Sample)
		}
		if out.Infra != "" {
			if len(res.Infra) < 5 {
				res.Infra = append(res.Infra, fmt.Sprintf("run %d: %s", i, out.Infra))
			}
			if len(res.Infra) >= 5 {
				break
			}
			continue
		}
		// Periodic replay self-check: same tape must give same hash.
		if out.Viol == nil && (res.Runs == 1 || res.Runs%257 == 0) {
			again := c.Exec(t, ReplayTape(out.Tape), traceThis)
			if traceThis {
				_ = os.WriteFile(os.Getenv("VERIF_TRACE_OUT")+".again", []byte(strings.Join(again.Trace, "\n")+"\n"), 0o644)
			}
			if again.Hash == out.Hash && again.Viol == nil {
				res.ReplayOK++
			} else {
				res.ReplayBad++
				if len(res.Infra) < 5 {
					res.Infra = append(res.Infra, fmt.Sprintf(
						"run %d: replay of identical tape diverged (hash %x vs %x)", i, out.Hash, again.Hash))
				}
			}
		}
		if out.Viol != nil {
			fv := byClass[out.Viol.Class]
			if fv != nil {
				fv.Count++
				continue
			}
			fv = &FoundViolation{Class: out.Viol.Class, Detail: out.Viol.Detail, Count: 1, Seed: seed, Run: uint64(i)}
			byClass[out.Viol.Class] = fv
			res.Violations = append(res.Violations, fv)
			if !known[out.Viol.Class] {
				name := fmt.Sprintf("%s/%s-%d-%d.json", replayDir, c.Name, seed, i)
				// The violation is on disk, with the tape as recorded, before anything else runs:
				// minimising re-executes candidates in this process, and code under test that
				// keeps state across executions (a package-level cache, say) can take the
				// process down there. The driver then still reports *this* violation.
				_ = writeJSON(name, &ReplayFile{Property: c.ID, Check: c.Name, Tier: tier, Seed: seed, Run: uint64(i),
					NCPU: runtime.NumCPU(), Tape: out.Tape, Class: out.Viol.Class, Detail: out.Viol.Detail,
					Hash: fmt.Sprintf("%x", out.Hash), OrigLen: len(out.Tape)})
				if outPath != "" {
					mark, _ := json.Marshal(map[string]any{"property": c.ID, "check": c.Name, "tier": tier, "seed": seed, "run": i,
						"ncpu": runtime.NumCPU(), "found_class": out.Viol.Class, "found_detail": out.Viol.Detail, "found_replay": name})
					_ = os.WriteFile(inflight, mark, 0o644)
				}
				rf := c.minimise(t, out, tier, seed, uint64(i))
				if err := writeJSON(name, rf); err != nil {
					res.Infra = append(res.Infra, "write replay: "+err.Error())
				}
				fv.Replay = name
				fv.Detail = rf.Detail
			}
			if len(byClass) >= maxClasses {
				break
			}
		}
	}
	res.Complete = true
	if os.Getenv("VERIF_MEMSTATS") != "" {
		var ms runtime.MemStats
		runtime.ReadMemStats(&ms)
		fmt.Fprintf(os.Stderr, "MEMSTATS sys=%dMB heapsys=%dMB heapinuse=%dMB heapidle=%dMB heapreleased=%dMB stacksys=%dMB mspan=%dMB gcsys=%dMB other=%dMB numgc=%d goroutines=%d\n",
			ms.Sys>>20, ms.HeapSys>>20, ms.HeapInuse>>20, ms.HeapIdle>>20, ms.HeapReleased>>20, ms.StackSys>>20, ms.MSpanSys>>20, ms.GCSys>>20, ms.OtherSys>>20, ms.NumGC, runtime.NumGoroutine())
	}
	res.WallSeconds = time.Since(start).Seconds()
	res.SimSeconds = simTotal.Seconds()
	for h := range hashes {
		res.Hashes = append(res.Hashes, strconv.FormatUint(h, 16))
	}
	sort.Strings(res.Hashes)
	if len(tapeLens) > 0 {
		sort.Ints(tapeLens)
		res.TapeLens = []int{tapeLens[0], tapeLens[len(tapeLens)/2], tapeLens[len(tapeLens)-1]}
	}
	if outPath != "" {
		if err := writeJSON(outPath, res); err != nil {
			t.Fatalf("write result: %v", err)
		}
		_ = os.Remove(inflight)
	} else {
		data, _ := json.MarshalIndent(res, "", " ")
		fmt.Println(string(data))
	}
}

func (c *Check) replay(t *testing.T, path string) {
	data, err := os.ReadFile(path)
	if err != nil {
		fmt.Printf("REPLAY-ERROR cannot read %s: %v\n", path, err)
		os.Exit(2)
	}
	var rf ReplayFile
	if err := json.Unmarshal(data, &rf); err != nil {
		fmt.Printf("REPLAY-ERROR cannot parse %s: %v\n", path, err)
		os.Exit(2)
	}
	var tape *Tape
	if rf.Tape == nil {
		// Crash replay: the run is identified by (seed, run) only.
		tape = NewTape(Mix(rf.Seed, c.Name, rf.Run))
	} else {
		tape = ReplayTape(rf.Tape)
	}
	out := c.Exec(t, tape, true)
	for _, l := range out.Trace {
		fmt.Println("  | " + l)
	}
	fmt.Printf("REPLAY hash=%x expected=%s\n", out.Hash, rf.Hash)
	switch {
	case out.Infra != "":
		fmt.Printf("REPLAY-INFRA %s\n", out.Infra)
		os.Exit(2)
	case out.Viol != nil:
		fmt.Printf("REPLAY-REPRODUCED class=%q expected_class=%q detail=%s\n", out.Viol.Class, rf.Class, out.Viol.Detail)
		fmt.Printf("VIOLATION property=%s replay=%s\n", c.ID, path)
		os.Exit(1)
	default:
		fmt.Printf("REPLAY-NOT-REPRODUCED property=%s\n", c.ID)
	}
}

var heapSample = []metrics.Sample{
	{Name: "/memory/classes/heap/free:bytes"},
	{Name: "/memory/classes/heap/unused:bytes"},
	{Name: "/memory/classes/heap/objects:bytes"},
}

// gcPolicy: the collector does not run on its own inside a run unless the heap reaches the
// memory limit (VERIF_MEMLIMIT_MB, default 1024). A collection that ends in the middle of a
// quiescence step wakes the sweeper into the scheduler's "run next" slot and can thereby push
// a just-woken goroutine of the simulated system behind its neighbours - rare, but not a
// choice the tape made. Collections happen between runs instead (trimHeap).
func gcPolicy() {
	debug.SetGCPercent(-1)
	debug.SetMemoryLimit(int64(envInt("VERIF_MEMLIMIT_MB", 1024)) << 20)
}

// trimHeap runs between runs (outside any bubble): collect once more than 128 MiB of objects
// have piled up, and return freed memory to the operating system once more than 256 MiB are
// idle, so that 16 shards of a check with large transient states stay far below the machine's
// memory.
func trimHeap() {
	switch os.Getenv("VERIF_GC_BETWEEN_RUNS") { // experiment switch (determinism follow-ups)
	case "always":
		runtime.GC()
		return
	case "never":
		return
	}
	metrics.Read(heapSample)
	if heapSample[2].Value.Uint64() > 128<<20 {
		runtime.GC()
		metrics.Read(heapSample)
	}
	if heapSample[0].Value.Uint64()+heapSample[1].Value.Uint64() > 256<<20 {
		debug.FreeOSMemory()
	}
}

// minimise shrinks a failing tape while the same violation class persists.
func (c *Check) minimise(t *testing.T, out *Outcome, tier string, seed, run uint64) *ReplayFile {
	best := append([]uint32(nil), out.Tape...)
	class := out.Viol.Class
	detail := out.Viol.Detail
	hash := out.Hash
	budget := c.MinimiseBudget
	try := func(cand []uint32) bool {
		if budget <= 0 {
			return false
		}
		budget--
		o := c.Exec(t, ReplayTape(cand), false)
		if o.Infra == "" && o.Viol != nil && o.Viol.Class == class {
			// Keep what was actually consumed (may be shorter than cand).
			if len(o.Tape) <= len(cand) {
				best = append([]uint32(nil), o.Tape...)
			} else {
				best = append([]uint32(nil), cand...)
			}
			detail = o.Viol.Detail
			hash = o.Hash
			return true
		}
		return false
	}
	// First: confirm the recorded tape reproduces at all (determinism).
	if !try(best) {
		return &ReplayFile{Property: c.ID, Check: c.Name, Tier: tier, Seed: seed, Run: run,
			NCPU: runtime.NumCPU(), Tape: nil, Class: class, Detail: detail + " [recorded tape did not reproduce; seed replay]",
			Hash: strconv.FormatUint(out.Hash, 16), OrigLen: len(out.Tape)}
	}
	// Pass 1: truncate (suffix -> implicit zeros), binary search.
	lo, hi := 0, len(best)
	for lo < hi && budget > 0 {
		mid := (lo + hi) / 2
		if try(best[:mid]) {
			hi = len(best)
			if hi > mid {
				hi = mid
			}
		} else {
			lo = mid + 1
		}
	}
	// Pass 2: delete blocks, then zero blocks, halving the block size.
	for size := len(best) / 2; size >= 1 && budget > 0; size /= 2 {
		for i := 0; i+size <= len(best) && budget > 0; {
			cand := append(append([]uint32(nil), best[:i]...), best[i+size:]...)
			if try(cand) {
				continue
			}
			allZero := true
			for _, v := range best[i : i+size] {
				if v != 0 {
					allZero = false
				}
			}
			if !allZero {
				cand = append([]uint32(nil), best...)
				for k := i; k < i+size; k++ {
					cand[k] = 0
				}
				if try(cand) {
					i += size
					continue
				}
			}
			i += size
		}
	}
	// Pass 3: lower individual values.
	for i := 0; i < len(best) && budget > 0; i++ {
		for best[i] > 0 && budget > 0 {
			cand := append([]uint32(nil), best...)
			cand[i] = best[i] / 2
			if !try(cand) {
				cand[i] = best[i] - 1
				if !try(cand) {
					break
				}
			}
			if i >= len(best) {
				break
			}
		}
	}
	// Drop trailing zeros (reads beyond the end are zero anyway).
	for len(best) > 0 && best[len(best)-1] == 0 {
		best = best[:len(best)-1]
	}
	final := c.Exec(t, ReplayTape(best), true)
	rf := &ReplayFile{Property: c.ID, Check: c.Name, Tier: tier, Seed: seed, Run: run,
		NCPU: runtime.NumCPU(), Tape: best, Class: class, Detail: detail,
		Hash: strconv.FormatUint(hash, 16), OrigLen: len(out.Tape)}
	if final.Viol != nil && final.Viol.Class == class {
		rf.Hash = strconv.FormatUint(final.Hash, 16)
		rf.Detail = final.Viol.Detail
		tr := final.Trace
		if len(tr) > 200 {
			tr = append(append([]string(nil), tr[:100]...), tr[len(tr)-100:]...)
		}
		rf.Trace = tr
	}
	if rf.Tape == nil {
		rf.Tape = []uint32{}
	}
	return rf
}
