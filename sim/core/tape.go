// Package core is the check-independent part of the simulator: the choice
// tape, the per-run environment (event log, fault and probe counters), the
// batch driver that runs inside a test binary, tape minimisation and replay.
package core

// Tape is the single source of every decision in a run. In generate mode the
// values come from a private splitmix64 stream seeded from (VERIF_SEED, check,
// run index); in replay mode they come from a recorded slice and the stream is
// never touched. Either way the consumed values are recorded, so a run is a pure
// function of (code, tape).
//
// Convention used by all checks: value 0 is the most boring option (no fault,
// oldest in-flight record first), so shrinking towards zeros simplifies runs.
type Tape struct {
	state  uint64
	replay []uint32
	fixed  bool
	pos    int
	rec    []uint32
	// OnOverrun is called when a replayed tape is read far beyond its end
	// (a harness loop that only terminates on non-zero draws).
	OnOverrun func()
}

// NewTape returns a generating tape.
func NewTape(seed uint64) *Tape {
	return &Tape{state: seed}
}

// ReplayTape returns a tape that replays the given values; reads beyond the
// end yield 0.
func ReplayTape(vals []uint32) *Tape {
	return &Tape{replay: vals, fixed: true}
}

// Mix derives a run seed from the batch seed, a check name and a run index.
func Mix(seed uint64, name string, run uint64) uint64 {
	h := seed ^ 0x9e3779b97f4a7c15
	for i := 0; i < len(name); i++ {
		h = (h ^ uint64(name[i])) * 0x100000001b3
	}
	h ^= run * 0xbf58476d1ce4e5b9
	// splitmix finaliser
	h ^= h >> 30
	h *= 0xbf58476d1ce4e5b9
	h ^= h >> 27
	h *= 0x94d049bb133111eb
	h ^= h >> 31
	return h
}

func (t *Tape) next() uint32 {
	Tick()
	var v uint32
	if t.fixed {
		if t.pos < len(t.replay) {
			v = t.replay[t.pos]
		} else if t.pos > len(t.replay)+2000000 && t.OnOverrun != nil {
			t.OnOverrun()
		}
	} else {
		t.state += 0x9e3779b97f4a7c15
		z := t.state
		z = (z ^ (z >> 30)) * 0xbf58476d1ce4e5b9
		z = (z ^ (z >> 27)) * 0x94d049bb133111eb
		z ^= z >> 31
		v = uint32(z >> 32)
	}
	t.pos++
	return v
}

// Intn returns a value in [0,n). n<=1 consumes nothing and returns 0.
// The recorded value is already reduced, so tapes stay readable and small
// values stay small under minimisation.
func (t *Tape) Intn(n int) int {
	if n <= 1 {
		return 0
	}
	v := t.next() % uint32(n)
	t.rec = append(t.rec, v)
	return int(v)
}

// Range returns a value in [lo,hi].
func (t *Tape) Range(lo, hi int) int {
	if hi <= lo {
		return lo
	}
	return lo + t.Intn(hi-lo+1)
}

// Chance returns true with probability num/den; value 0 on the tape is "false"
// only if num<den... to keep 0 = boring, true is drawn for the top values.
func (t *Tape) Chance(num, den int) bool {
	if num <= 0 {
		return false
	}
	if num >= den {
		return true
	}
	return t.Intn(den) >= den-num
}

// Pick returns an index weighted by w (w[0] should be the boring option).
func (t *Tape) Pick(w ...int) int {
	total := 0
	for _, x := range w {
		total += x
	}
	v := t.Intn(total)
	for i, x := range w {
		if v < x {
			return i
		}
		v -= x
	}
	return len(w) - 1
}

// Uint32 returns a full 32-bit value.
func (t *Tape) Uint32() uint32 {
	v := t.next()
	t.rec = append(t.rec, v)
	return v
}

// Uint64 returns a 64-bit value (two tape cells).
func (t *Tape) Uint64() uint64 {
	return uint64(t.Uint32())<<32 | uint64(t.Uint32())
}

// Bytes returns n pseudo-random bytes expanded from one tape cell, so large
// payloads cost one choice.
func (t *Tape) Bytes(n int) []byte {
	s := uint64(t.Uint32())*0x9e3779b97f4a7c15 + 1
	b := make([]byte, n)
	for i := 0; i < n; i += 8 {
		s += 0x9e3779b97f4a7c15
		z := s
		z = (z ^ (z >> 30)) * 0xbf58476d1ce4e5b9
		z = (z ^ (z >> 27)) * 0x94d049bb133111eb
		z ^= z >> 31
		for j := 0; j < 8 && i+j < n; j++ {
			b[i+j] = byte(z >> (8 * j))
		}
	}
	return b
}

// Perm returns a permutation of [0,n).
func (t *Tape) Perm(n int) []int {
	p := make([]int, n)
	for i := range p {
		p[i] = i
	}
	for i := n - 1; i > 0; i-- {
		j := i - t.Intn(i+1) // 0 => no swap: zeros give the identity
		p[i], p[j] = p[j], p[i]
	}
	return p
}

// Recorded returns the values consumed so far.
func (t *Tape) Recorded() []uint32 { return t.rec }

// Len returns how many cells have been consumed.
func (t *Tape) Len() int { return len(t.rec) }
