package core

import (
	"fmt"
	"log/slog"
	"os"
	"runtime"
	"runtime/debug"
	"sort"
	"strings"
	"testing"
	"time"
)

// Violation is a property violation found in one run.
type Violation struct {
	// Class identifies the failure for known-findings matching and for
	// minimisation ("same class persists"). It names the invariant and the
	// specific way it failed, never a line number.
	Class  string `json:"class"`
	Detail string `json:"detail"`
}

// Env is the per-run environment handed to a check.
type Env struct {
	T    *testing.T
	Tape *Tape

	Trace bool
	trace []string

	hash   uint64
	Faults map[string]int
	Probes map[string]int

	viol     *Violation
	infra    string
	cleanups []func()

	nontrivial bool
	simStart   time.Time
	SimTime    time.Duration
	Steps      int
	Evals      int
	cases      []uint64
	sample     []string
}

type abortRun struct{}

func newEnv(t *testing.T, tape *Tape, trace bool) *Env {
	return &Env{
		T: t, Tape: tape, Trace: trace,
		hash:   0xcbf29ce484222325,
		Faults: map[string]int{},
		Probes: map[string]int{},
	}
}

func (e *Env) mixBytes(s string) {
	h := e.hash
	for i := 0; i < len(s); i++ {
		h = (h ^ uint64(s[i])) * 0x100000001b3
	}
	e.hash = (h ^ 0xff) * 0x100000001b3
}

// Logf appends a line to the event log. The line is always hashed; the text is
// kept only when tracing. It never draws from the tape and never reads a clock.
func (e *Env) Logf(format string, args ...any) {
	s := fmt.Sprintf(format, args...)
	e.mixBytes(s)
	if e.Trace {
		e.trace = append(e.trace, s)
	}
}

// Tracef adds a line to the trace of a traced run without touching the event-log hash: for
// looking at a run more closely than its verdict needs (the determinism tool's follow-ups).
func (e *Env) Tracef(format string, args ...any) {
	if e.Trace {
		e.trace = append(e.trace, "  ~ "+fmt.Sprintf(format, args...))
	}
}

// Ev is the cheap form of Logf for hot loops: kind plus integers.
func (e *Env) Ev(kind string, vals ...uint64) {
	Tick()
	h := e.hash
	for i := 0; i < len(kind); i++ {
		h = (h ^ uint64(kind[i])) * 0x100000001b3
	}
	for _, v := range vals {
		for k := 0; k < 8; k++ {
			h = (h ^ (v & 0xff)) * 0x100000001b3
			v >>= 8
		}
	}
	e.hash = h
	if e.Trace {
		var b strings.Builder
		b.WriteString(kind)
		for _, v := range vals {
			fmt.Fprintf(&b, " %d", v)
		}
		e.trace = append(e.trace, b.String())
	}
}

// Sample adds a line to the human readable rendering of this run that may be
// written into the evidence file (kept regardless of tracing, so keep it short).
func (e *Env) Sample(format string, args ...any) {
	if len(e.sample) < 40 {
		e.sample = append(e.sample, fmt.Sprintf(format, args...))
	}
}

// Fault counts an injected fault that actually fired.
func (e *Env) Fault(kind string) {
	Tick()
	e.Faults[kind]++
	e.nontrivial = true
}

// Probe counts a reach probe.
func (e *Env) Probe(name string) { e.Probes[name]++ }

// ProbeN adds n to a reach probe.
func (e *Env) ProbeN(name string, n int) { e.Probes[name] += n }

// Nontrivial marks the run as non-trivial by the check's stated rule.
func (e *Env) Nontrivial() { e.nontrivial = true }

// AddEvals counts n evaluated cases inside this run (e.g. enumerated crash
// points or bit positions); a run without AddEvals counts as one evaluation.
func (e *Env) AddEvals(n int) { e.Evals += n }

// Case registers one distinct non-trivial case evaluated inside this run
// (enumeration checks); it is identified by the hash of the given values.
func (e *Env) Case(vals ...uint64) {
	Tick()
	h := uint64(0xcbf29ce484222325)
	for _, v := range vals {
		for k := 0; k < 8; k++ {
			h = (h ^ (v & 0xff)) * 0x100000001b3
			v >>= 8
		}
	}
	e.cases = append(e.cases, h)
	e.Evals++
	e.nontrivial = true
}

// Step counts one harness step.
func (e *Env) Step() { e.Steps++; Tick() }

var ticks uint32

// Tick is called from the harness's bookkeeping (events, faults, cases, steps, tape draws).
// Every 64th call yields the processor. The test binaries run on one P and are built
// without the runtime's wall-clock time slice (see the driver's runtime overlay), so a
// harness loop that never blocks would otherwise starve the garbage collector's mark
// worker: a cycle then never finishes, everything allocated meanwhile stays live and the
// process grows by gigabytes. The yield is a deterministic scheduling event - it happens
// at the same harness call in every execution of the same tape.
func Tick() {
	ticks++
	if ticks%64 == 0 {
		runtime.Gosched()
	}
}

// Cleanup registers a function that runs when the run ends, also after Fail.
func (e *Env) Cleanup(f func()) { e.cleanups = append(e.cleanups, f) }

// Fail records a violation and aborts the run.
func (e *Env) Fail(class string, format string, args ...any) {
	if e.viol == nil {
		e.viol = &Violation{Class: class, Detail: fmt.Sprintf(format, args...)}
		e.Logf("VIOLATION %s: %s", class, e.viol.Detail)
	}
	panic(abortRun{})
}

// Record records a violation without aborting (first one wins).
func (e *Env) Record(class string, format string, args ...any) {
	if e.viol == nil {
		e.viol = &Violation{Class: class, Detail: fmt.Sprintf(format, args...)}
		e.Logf("VIOLATION %s: %s", class, e.viol.Detail)
	}
}

// Failed reports whether a violation was recorded.
func (e *Env) Failed() bool { return e.viol != nil }

// Infra records harness/infrastructure trouble (never a verdict) and aborts.
func (e *Env) Infra(format string, args ...any) {
	if e.infra == "" {
		e.infra = fmt.Sprintf(format, args...)
	}
	panic(abortRun{})
}

// StartClock notes the simulated start time (call inside the bubble).
func (e *Env) StartClock() { e.simStart = time.Now() }

func (e *Env) stopClock() {
	if !e.simStart.IsZero() {
		e.SimTime = time.Since(e.simStart)
	}
}

// PanicClass turns a recovered panic value and stack into a violation class
// naming the innermost mycoria function on the stack (not a line number).
func PanicClass(stack string) string {
	lines := strings.Split(stack, "\n")
	seenPanic := false
	for _, l := range lines {
		if !seenPanic {
			if strings.HasPrefix(l, "panic(") {
				seenPanic = true
			}
			continue
		}
		if strings.HasPrefix(l, "github.com/mycoria/mycoria") {
			fn := l
			if i := strings.LastIndex(fn, "("); i > 0 {
				fn = fn[:i]
			}
			fn = strings.TrimPrefix(fn, "github.com/mycoria/mycoria/")
			return fn
		}
	}
	// no panic( frame seen (e.g. runtime error): first mycoria frame
	for _, l := range lines {
		if strings.HasPrefix(l, "github.com/mycoria/mycoria") {
			fn := l
			if i := strings.LastIndex(fn, "("); i > 0 {
				fn = fn[:i]
			}
			return strings.TrimPrefix(fn, "github.com/mycoria/mycoria/")
		}
	}
	return "unknown"
}

// Guard runs f and converts a panic inside the code under test into a
// violation of class prefix+":"+function.
func (e *Env) Guard(prefix string, f func()) (panicked bool) {
	defer func() {
		if r := recover(); r != nil {
			if _, ok := r.(abortRun); ok {
				panic(r)
			}
			panicked = true
			st := string(debug.Stack())
			e.Record(prefix+":"+PanicClass(st), "panic: %v", r)
			if e.Trace {
				e.trace = append(e.trace, st)
			}
		}
	}()
	f()
	return false
}

func sortedKeys(m map[string]int) []string {
	k := make([]string, 0, len(m))
	for s := range m {
		k = append(k, s)
	}
	sort.Strings(k)
	return k
}

func init() {
	// The code under test logs through slog.Default(); keep it out of stderr,
	// which the harness captures for worker panic stacks.
	if os.Getenv("VERIF_SLOG") != "" {
		slog.SetDefault(slog.New(slog.NewTextHandler(os.Stdout, &slog.HandlerOptions{Level: slog.LevelDebug})))
		return
	}
	slog.SetDefault(slog.New(slog.DiscardHandler))
}

// Tier returns the tier of this batch (quick unless VERIF_TIER says otherwise).
func Tier() string {
	if v := os.Getenv("VERIF_TIER"); v == "thorough" {
		return v
	}
	return "quick"
}
