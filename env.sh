# Sourced by every script: offline Go environment for the harness module.
export GOFLAGS=-mod=mod GOPROXY=off GOSUMDB=off GOTOOLCHAIN=local
export GO=${GO:-go1.26.8}
export GOCACHE=${GOCACHE:-/root/.cache/go-build}
